use crate::{guarded, refs, Chunked, Report};
use sourcemap::{decode, decode_slice, is_sourcemap, is_sourcemap_slice, DecodedMap};

fn toks(m: &DecodedMap) -> Vec<(u32, u32)> { match m { DecodedMap::Regular(sm) => sm.tokens().map(|t| (t.get_dst_line(), t.get_dst_col())).collect(), _ => vec![] } }

/// C12: reader path == slice path == reference header rule, for every chunking
pub fn header() -> Report {
    let maxlen = if crate::deep() { 6 } else { 5 };
    let bound_s = format!("every header over {{) ] ' x CR LF}} of length <= {maxlen} in front of a fixed valid map (and alone), x every chunking with <= 2 cut points in the first header+3 bytes plus 1-byte reads; 46 documents (valid, truncated, trailing data, non-UTF-8 bytes in a string, bad VLQ, non-maps, each also behind a junk header; a byte-order mark / whitespace / a comment in front; a Hermes and an index document) through slice / reader / both detection predicates / the typed constructors (slice and reader) / their data URL");
    let bound = bound_s.as_str();
    let body: &[u8] = br#"{"version":3,"sources":["a"],"names":[],"mappings":"AAAA,CAAC"}"#;
    let alpha: &[u8] = b")]'x\r\n";
    let mut cases = 0u64;
    let mut hdrs: Vec<Vec<u8>> = vec![vec![]];
    let mut layer: Vec<Vec<u8>> = vec![vec![]];
    for _ in 0..maxlen { let mut next = vec![]; for h in &layer { for &a in alpha { let mut t = h.clone(); t.push(a); next.push(t); } } hdrs.extend(next.iter().cloned()); layer = next; }
    for h in &hdrs { for with_body in [true, false] {
        let mut data = h.clone();
        if with_body { data.extend_from_slice(body); }
        let expected_ok = refs::strip_header(&data).map(|r| serde_json::from_slice::<serde_json::Value>(r).map(|v| v.is_object()).unwrap_or(false)).unwrap_or(false);
        let s = match guarded(|| decode_slice(&data)) { Ok(x) => x, Err(p) => return rep(bound, cases, format!("decode_slice({:?}): {p}", String::from_utf8_lossy(&data))) };
        cases += 1;
        if s.is_ok() != expected_ok { return rep(bound, cases, format!("decode_slice({:?}) is_ok = {}, header rule says {}", String::from_utf8_lossy(&data), s.is_ok(), expected_ok)); }
        if is_sourcemap_slice(&data) != expected_ok { return rep(bound, cases, format!("is_sourcemap_slice({:?}) = {}, expected {}", String::from_utf8_lossy(&data), !expected_ok, expected_ok)); }
        let lim = (h.len() + 3).min(data.len());
        let mut cutsets: Vec<Vec<usize>> = vec![vec![], vec![1; data.len()]];
        for a in 1..=lim { cutsets.push(vec![a]); for b in 1..=(lim + 1 - a.min(lim)) { cutsets.push(vec![a, b]); } }
        for cuts in cutsets {
            cases += 1;
            let r = match guarded(|| decode(Chunked { data: &data, pos: 0, cuts: cuts.clone(), k: 0 })) { Ok(x) => x, Err(p) => return rep(bound, cases, format!("decode(reader {:?} chunks {cuts:?}): {p}", String::from_utf8_lossy(&data))) };
            if r.is_ok() != s.is_ok() { return rep(bound, cases, format!("input {:?} read in chunks {cuts:?}: reader is_ok = {}, slice is_ok = {}", String::from_utf8_lossy(&data), r.is_ok(), s.is_ok())); }
            if let (Ok(a), Ok(b)) = (&r, &s) { if toks(a) != toks(b) { return rep(bound, cases, format!("input {:?} chunks {cuts:?}: reader and slice decode different maps", String::from_utf8_lossy(&data))); } }
            if is_sourcemap(Chunked { data: &data, pos: 0, cuts: cuts.clone(), k: 0 }) != expected_ok { return rep(bound, cases, format!("is_sourcemap(reader {:?} chunks {cuts:?}) != {}", String::from_utf8_lossy(&data), expected_ok)); }
        }
    } }
    // documents: valid, truncated, corrupted, with trailing data, with bytes that are not UTF-8; all four entry points
    // (slice, reader, both detection predicates) and the data URL of the document must agree
    let docs: Vec<Vec<u8>> = {
        let mut v: Vec<Vec<u8>> = vec![body.to_vec()];
        for k in [1usize, 10, body.len() - 1] { v.push(body[..k].to_vec()); }
        for tail in [&b";"[..], b" x", b"{}", b"\n", b" \n ", b"}", br#"{"version":3}"#] { let mut d = body.to_vec(); d.extend_from_slice(tail); v.push(d); }
        for bad in [&b"\xe9"[..], b"\xff", b"\xe2\x82"] { let mut d = br#"{"version":3,"sources":["a"#.to_vec(); d.extend_from_slice(bad); d.extend_from_slice(br#".js"],"names":[],"mappings":"AAAA"}"#); v.push(d); }
        v.push(br#"{"version":3,"sources":["a"],"names":[],"mappings":"AAAA,C!C"}"#.to_vec());
        v.push(br#"[1,2]"#.to_vec()); v.push(br#"{"foo":1}"#.to_vec()); v.push(br#"{"version":3,"sections":[]}"#.to_vec());
        let mut with_hdr = vec![]; for d in &v { let mut h = b")]}'\n".to_vec(); h.extend_from_slice(d); with_hdr.push(h); }
        v.extend(with_hdr);
        // a UTF-8 byte-order mark, whitespace, or a comment in front of a valid map / a junk header: whatever one path makes of it, the other must too
        for pre in [&b"\xef\xbb\xbf"[..], b" ", b"\n", b"\t", b"//x\n", b"\xef\xbb\xbf)]}'\n"] { let mut d = pre.to_vec(); d.extend_from_slice(body); v.push(d); }
        v.push(br#"{"version":3,"sources":["a"],"names":[],"mappings":"AAAA","x_facebook_sources":[null]}"#.to_vec());
        v.push(br#"{"version":3,"sections":[{"offset":{"line":0,"column":0},"map":{"version":3,"sources":["a"],"names":[],"mappings":"AAAA"}}]}"#.to_vec());
        v
    };
    for data in &docs {
        cases += 1;
        let s = match guarded(|| decode_slice(data)) { Ok(x) => x, Err(p) => return rep(bound, cases, format!("decode_slice({:?}): {p}", String::from_utf8_lossy(data))) };
        let ps = is_sourcemap_slice(data);
        for cuts in [vec![], vec![1; data.len()], vec![7, 3]] {
            let r = match guarded(|| decode(Chunked { data, pos: 0, cuts: cuts.clone(), k: 0 })) { Ok(x) => x, Err(p) => return rep(bound, cases, format!("decode(reader {:?} chunks {cuts:?}): {p}", String::from_utf8_lossy(data))) };
            if r.is_ok() != s.is_ok() { return rep(bound, cases, format!("document {:?} read in chunks {:?}: reader is_ok = {}, slice is_ok = {}", String::from_utf8_lossy(data), &cuts[..cuts.len().min(3)], r.is_ok(), s.is_ok())); }
            if let (Ok(a), Ok(b)) = (&r, &s) { if toks(a) != toks(b) { return rep(bound, cases, format!("document {:?}: reader and slice decode different maps", String::from_utf8_lossy(data))); } }
            let pr = is_sourcemap(Chunked { data, pos: 0, cuts: cuts.clone(), k: 0 });
            if pr != ps { return rep(bound, cases, format!("document {:?} (chunks {:?}): is_sourcemap (reader) = {pr}, is_sourcemap_slice = {ps}", String::from_utf8_lossy(data), &cuts[..cuts.len().min(3)])); }
        }
        // the typed constructors: reader and slice variant of each agree, and succeed exactly when decoding gives that kind
        {
            use sourcemap::{DecodedMap, SourceMap, SourceMapHermes, SourceMapIndex};
            let kind = s.as_ref().ok().map(|m| match m { DecodedMap::Regular(_) => 0, DecodedMap::Index(_) => 1, DecodedMap::Hermes(_) => 2 });
            let t = match guarded(|| [(SourceMap::from_slice(data).is_ok(), SourceMap::from_reader(&data[..]).is_ok()), (SourceMapIndex::from_slice(data).is_ok(), SourceMapIndex::from_reader(&data[..]).is_ok()),
                (SourceMapHermes::from_slice(data).is_ok(), SourceMapHermes::from_reader(&data[..]).is_ok())]) { Ok(t) => t, Err(p) => return rep(bound, cases, format!("typed constructors on {:?}: {p}", String::from_utf8_lossy(data))) };
            for (k, (sl, rd)) in t.iter().enumerate() {
                let name = ["SourceMap", "SourceMapIndex", "SourceMapHermes"][k];
                if sl != rd { return rep(bound, cases, format!("document {:?}: {name}::from_slice is_ok = {sl}, {name}::from_reader is_ok = {rd}", String::from_utf8_lossy(data))); }
                if *sl != (kind == Some(k)) { return rep(bound, cases, format!("document {:?}: {name}::from_slice is_ok = {sl}, but decode_slice gives {}", String::from_utf8_lossy(data), match kind { Some(0) => "a regular map", Some(1) => "an index map", Some(2) => "a Hermes map", _ => "an error" })); }
            }
        }
        // a base64 data URL decodes to the same outcome as its payload
        for pre in ["data:application/json;base64,", "data:application/json;charset=utf-8;base64,"] {
            let url = format!("{pre}{}", refs::base64(data));
            let u = match guarded(|| sourcemap::decode_data_url(&url)) { Ok(x) => x, Err(p) => return rep(bound, cases, format!("decode_data_url of {:?}: {p}", String::from_utf8_lossy(data))) };
            if u.is_ok() != s.is_ok() { return rep(bound, cases, format!("payload {:?}: decode_data_url is_ok = {}, decode_slice of the payload is_ok = {}", String::from_utf8_lossy(data), u.is_ok(), s.is_ok())); }
            if let (Ok(a), Ok(b)) = (&u, &s) { if toks(a) != toks(b) { return rep(bound, cases, format!("payload {:?}: the data URL decodes to a different map", String::from_utf8_lossy(data))); } }
        }
    }
    Report { harness: "header", bound: bound.into(), cases, cex: None }
}
fn rep(bound: &str, cases: u64, c: String) -> Report { Report { harness: "header", bound: bound.into(), cases, cex: Some(c) } }
