use crate::{guarded, Report};
use sourcemap::{RawToken, SourceMap, SourceMapBuilder};

fn mk(tokens: &[(u32, u32, bool)]) -> SourceMap {
    let raw: Vec<RawToken> = tokens.iter().enumerate().map(|(i, &(l, c, r))| RawToken { dst_line: l, dst_col: c, src_line: i as u32, src_col: 7, src_id: 0, name_id: !0, is_range: r }).collect();
    SourceMap::new(None, raw, vec![], vec!["a.js".into()], None)
}

fn check_map(toks: &[(u32, u32, bool)], maxl: u32, maxc: u32) -> Option<String> {
    let sm = mk(toks);
    // iteration order and get_token agreement
    let it: Vec<(u32, u32, u32)> = sm.tokens().map(|t| (t.get_dst_line(), t.get_dst_col(), t.get_src_line())).collect();
    if it.len() != toks.len() { return Some(format!("tokens {toks:?}: iteration yields {} tokens", it.len())); }
    for i in 0..it.len() {
        if i > 0 && (it[i - 1].0, it[i - 1].1) > (it[i].0, it[i].1) { return Some(format!("tokens {toks:?}: iteration not ordered at {i}: {it:?}")); }
        let g = sm.get_token(i).map(|t| (t.get_dst_line(), t.get_dst_col(), t.get_src_line()));
        if g != Some(it[i]) { return Some(format!("tokens {toks:?}: get_token({i}) = {g:?}, iterated {:?}", it[i])); }
    }
    for l in 0..=maxl { for c in 0..=maxc {
        let got = match guarded(|| sm.lookup_token(l, c).map(|t| (t.get_dst_line(), t.get_dst_col(), t.get_src_line(), t.get_src_col(), t.is_range()))) { Ok(g) => g, Err(p) => return Some(format!("tokens {toks:?}: lookup_token({l},{c}): {p}")) };
        // reference: greatest position <= (l,c); first token at that position in iteration order
        let mut best: Option<usize> = None;
        for (i, t) in it.iter().enumerate() { if (t.0, t.1) <= (l, c) { if best.map_or(true, |b| (it[b].0, it[b].1) < (t.0, t.1)) { best = Some(i); } } }
        match (got, best) {
            (None, None) => {}
            (Some(g), Some(b)) => {
                let t = it[b];
                if (g.0, g.1) != (t.0, t.1) { return Some(format!("tokens {toks:?}: lookup_token({l},{c}) at {:?}, greatest position not after the query is {:?}", (g.0, g.1), (t.0, t.1))); }
                if (t.0, t.1) == (l, c) && g.2 != t.2 { return Some(format!("tokens {toks:?}: lookup_token({l},{c}) returned token #{} but the first token at that position is #{}", g.2, t.2)); }
                // C07: offset only for a range token on its own line
                let same: Vec<&(u32, u32, u32)> = it.iter().filter(|x| (x.0, x.1) == (g.0, g.1) && x.2 == g.2).collect();
                let _ = same;
                let want_col = if g.4 && g.0 == l { 7 + (c - g.1) } else { 7 };
                if g.3 != want_col { return Some(format!("tokens {toks:?}: lookup_token({l},{c}) reports original column {} (token at {:?}, range={}), expected {want_col}", g.3, (g.0, g.1), g.4)); }
            }
            (g, b) => return Some(format!("tokens {toks:?}: lookup_token({l},{c}) = {g:?}, reference index {b:?}")),
        }
        // TokenIter::seek: true exactly when the position resolves, and iteration resumes just after the token it resolves to
        let mut ti = sm.tokens();
        let found = match guarded(|| { let f = ti.seek(l, c); (f, ti.next().map(|t| (t.get_dst_line(), t.get_dst_col(), t.get_src_line()))) }) { Ok(x) => x, Err(p) => return Some(format!("tokens {toks:?}: seek({l},{c}): {p}")) };
        if found.0 != got.is_some() { return Some(format!("tokens {toks:?}: seek({l},{c}) = {}, lookup_token = {got:?}", found.0)); }
        if let Some(g) = got {
            let idx = it.iter().position(|x| x.2 == g.2).unwrap();
            if found.1 != it.get(idx + 1).copied() { return Some(format!("tokens {toks:?}: after seek({l},{c}) the iterator yields {:?}; the position resolves to token #{idx} of {it:?}, so {:?} was expected", found.1, it.get(idx + 1))); }
        } else if found.1 != it.first().copied() { return Some(format!("tokens {toks:?}: a failed seek({l},{c}) moved the iterator: next is {:?}", found.1)); }
    } }
    None
}

/// C04 / C07 lookup half
pub fn lookup() -> Report {
    let maxlen = if crate::deep() { 5 } else { 4 };
    let bound_s = format!("all non-decreasing token lists of length <= {maxlen} over positions {{0,1,2}}x{{0,2,5}} (range flag on even/odd variants), runs of 1..14 equal positions with 0..2 neighbours either side; all queries in [0,3]x[0,7], each also through TokenIter::seek");
    let bound = bound_s.as_str();
    let keys: Vec<(u32, u32)> = (0..3).flat_map(|l| [0u32, 2, 5].into_iter().map(move |c| (l, c))).collect();
    let mut cases = 0u64;
    fn rec(keys: &[(u32, u32)], from: usize, cur: &mut Vec<(u32, u32, bool)>, left: usize, cases: &mut u64) -> Option<String> {
        *cases += 1;
        if let Some(c) = check_map(cur, 3, 7) { return Some(c); }
        if left == 0 { return None; }
        for k in from..keys.len() { for r in [false, true] {
            cur.push((keys[k].0, keys[k].1, r));
            if let Some(c) = rec(keys, k, cur, left - 1, cases) { return Some(c); }
            cur.pop();
        } }
        None
    }
    let mut cur = vec![];
    if let Some(c) = rec(&keys, 0, &mut cur, maxlen, &mut cases) { return Report { harness: "lookup", bound: bound.into(), cases, cex: Some(c) }; }
    for pre in 0..=2usize { for run in 1..=14usize { for suf in 0..=2usize {
        let mut t = vec![];
        for i in 0..pre { t.push((0, i as u32, false)); }
        for _ in 0..run { t.push((1, 4, false)); }
        for i in 0..suf { t.push((1, 6 + i as u32, false)); }
        cases += 1;
        if let Some(c) = check_map(&t, 2, 8) { return Report { harness: "lookup", bound: bound.into(), cases, cex: Some(c) }; }
    } } }
    Report { harness: "lookup", bound: bound.into(), cases, cex: None }
}

/// C04 ordering half: whatever way a map is produced, tokens iterate in order and get_token agrees
pub fn ordering() -> Report {
    let bound = "builder sequences of <= 4 add / add_raw calls over positions {0,1}x{0,3} in every order, and SourceMap::new on every such raw list";
    let pos: Vec<(u32, u32)> = vec![(0, 0), (0, 3), (1, 0), (1, 3)];
    let mut cases = 0u64;
    let mut seqs: Vec<Vec<(usize, bool)>> = vec![vec![]];
    for _ in 0..4 { let mut next = vec![]; for s in &seqs { for p in 0..pos.len() { for raw in [false, true] { let mut t = s.clone(); t.push((p, raw)); next.push(t); } } } seqs.extend(next.clone()); seqs.dedup(); if seqs.len() > 6000 { break; } }
    for s in &seqs {
        cases += 1;
        let mut b = SourceMapBuilder::new(None);
        b.add_source("a.js");
        for (i, &(p, raw)) in s.iter().enumerate() {
            if raw { b.add_raw(pos[p].0, pos[p].1, i as u32, 0, Some(0), None, false); } else { b.add(pos[p].0, pos[p].1, i as u32, 0, Some("a.js"), None, false); }
        }
        let sm = b.into_sourcemap();
        let it: Vec<(u32, u32, u32)> = sm.tokens().map(|t| (t.get_dst_line(), t.get_dst_col(), t.get_src_line())).collect();
        if it.len() != s.len() { return Report { harness: "ordering", bound: bound.into(), cases, cex: Some(format!("builder calls {s:?}: map has {} tokens", it.len())) }; }
        for i in 0..it.len() {
            if i > 0 && (it[i - 1].0, it[i - 1].1) > (it[i].0, it[i].1) { return Report { harness: "ordering", bound: bound.into(), cases, cex: Some(format!("builder calls (position index, add_raw?) {s:?}: tokens out of order: {it:?}")) }; }
            let g = sm.get_token(i).map(|t| (t.get_dst_line(), t.get_dst_col(), t.get_src_line()));
            if g != Some(it[i]) { return Report { harness: "ordering", bound: bound.into(), cases, cex: Some(format!("builder calls {s:?}: get_token({i}) = {g:?} but iteration yields {:?}", it[i])) }; }
        }
        // a lookup exactly at each position finds a token at that position
        for &(l, c, _) in &it { if sm.lookup_token(l, c).map(|t| (t.get_dst_line(), t.get_dst_col())) != Some((l, c)) { return Report { harness: "ordering", bound: bound.into(), cases, cex: Some(format!("builder calls {s:?}: lookup_token({l},{c}) misses the token there")) }; } }
    }
    Report { harness: "ordering", bound: bound.into(), cases, cex: None }
}
