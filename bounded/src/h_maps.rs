use crate::{guarded, refs, Report};
use sourcemap::{DecodedMap, RawToken, RewriteOptions, SourceMap, SourceMapBuilder, SourceMapHermes, SourceMapIndex, SourceMapSection};

fn enc(v: &[i64]) -> String { String::from_utf8(v.iter().flat_map(|&x| refs::vlq_enc(x as i128)).collect()).unwrap() }
fn r(h: &'static str, bound: &str, cases: u64, cex: Option<String>) -> Report { Report { harness: h, bound: bound.into(), cases, cex } }

/// mappings string for tokens (dst_line, dst_col, Option<(src, sline, scol)>, Option<name>) given in order
fn mappings(toks: &[(u32, u32, Option<(u32, u32, u32)>, Option<u32>)]) -> String {
    let (mut pl, mut pc, mut ps, mut psl, mut psc, mut pn) = (0i64, 0i64, 0i64, 0i64, 0i64, 0i64);
    let mut out = String::new();
    let mut first_in_line = true;
    for t in toks {
        while pl < t.0 as i64 { out.push(';'); pl += 1; pc = 0; first_in_line = true; }
        if !first_in_line { out.push(','); }
        first_in_line = false;
        let mut v = vec![t.1 as i64 - pc]; pc = t.1 as i64;
        if let Some((s, l, c)) = t.2 { v.extend([s as i64 - ps, l as i64 - psl, c as i64 - psc]); ps = s as i64; psl = l as i64; psc = c as i64;
            if let Some(n) = t.3 { v.push(n as i64 - pn); pn = n as i64; } }
        out.push_str(&enc(&v));
    }
    out
}

// ------------------------------------------------------------------ C14
/// Hermes scope lookup and function-map decoding against an independent reading of Metro's format
pub fn hermes_scope() -> Report {
    let bound = "function maps with <= 4 entries over lines {1,2,3} x columns {0,2,5} (grouped into ';' groups in every way that keeps a line's entries together or apart), name indices in/out of range; tokens at original (line in 0..3, col in 0..6); 8 three-source maps with null metadata before / between / after function maps (one function map without names, one cut off; each followed by a second scope mapping that must be ignored) and one range token per source, 8 bytecode offsets per source, as decoded and after serialising and decoding again";
    let mut cases = 0u64;
    let poss: Vec<(u32, u32)> = (1..=3).flat_map(|l| [0u32, 2, 5].into_iter().map(move |c| (l, c))).collect();
    // choose increasing subsets of size <= 4
    let n = poss.len();
    for mask in 0u32..(1 << n) {
        if mask.count_ones() > 4 { continue; }
        let entries: Vec<(u32, u32, u32)> = (0..n).filter(|i| mask >> i & 1 == 1).enumerate().map(|(k, i)| (poss[i].0, poss[i].1, if k == 3 { 7 } else { k as u32 % 3 })).collect();
        for grouping in 0..2 {
            // grouping 0: one ';' group per entry; grouping 1: entries of the same line share a group
            let mut fm = String::new();
            let (mut pcol, mut pname, mut pline) = (0i64, 0i64, 1i64);
            let mut prev_line: Option<u32> = None;
            for (k, e) in entries.iter().enumerate() {
                let same_group = grouping == 1 && prev_line == Some(e.0);
                if k > 0 { fm.push(if same_group { ',' } else { ';' }); }
                if !same_group { pcol = 0; }
                fm.push_str(&enc(&[e.1 as i64 - pcol, e.2 as i64 - pname, e.0 as i64 - pline]));
                pcol = e.1 as i64; pname = e.2 as i64; pline = e.0 as i64; prev_line = Some(e.0);
            }
            let mut toks = vec![];
            let mut col = 0u32;
            for sl in 0..=3u32 { for sc in 0..=6u32 { toks.push((0u32, col, Some((0u32, sl, sc)), None)); col += 2; } }
            toks.push((0, col, Some((1, 0, 0)), None));
            let json = format!(r#"{{"version":3,"sources":["a.js","b.js"],"names":[],"mappings":"{}","x_facebook_sources":[[{{"names":["f0","f1","f2"],"mappings":"{}"}}],null]}}"#, mappings(&toks), fm);
            cases += 1;
            let smh = match guarded(|| SourceMapHermes::from_slice(json.as_bytes())) { Ok(Ok(m)) => m, o => return r("hermes_scope", bound, cases, Some(format!("from_slice failed for function map {fm:?}: {:?}", o.map(|x| x.map(|_| ()))))) };
            for t in smh.tokens() {
                let got = match guarded(|| smh.get_scope_for_token(t).map(|s| s.to_string())) { Ok(g) => g, Err(p) => return r("hermes_scope", bound, cases, Some(format!("get_scope_for_token: {p} (function map entries {entries:?})"))) };
                let want = if t.get_src_id() != 0 { None } else {
                    let key = (t.get_src_line() as u64 + 1, t.get_src_col());
                    entries.iter().filter(|e| (e.0 as u64, e.1) <= key).last().and_then(|e| ["f0", "f1", "f2"].get(e.2 as usize).map(|s| s.to_string()))
                };
                crate::witness(want.is_some());
                if got != want { return r("hermes_scope", bound, cases, Some(format!("function map entries (line,col,name) {entries:?} encoded as {fm:?}: token at original ({},{}) of source {} resolves to {got:?}, expected {want:?}", t.get_src_line(), t.get_src_col(), t.get_src_id()))); }
            }
        }
    }
    // bytecode offsets on line 0 through a range mapping, null metadata before and after a function map, and the same answers after serialising and decoding again
    for metas in [vec![Some(0usize), None, Some(1)], vec![None, Some(0), Some(1)], vec![Some(0), Some(1), None], vec![None, None, Some(0)], vec![Some(2), Some(0), None], vec![Some(0), None, Some(2)], vec![Some(3), Some(0), Some(1)], vec![Some(0), Some(3), Some(1)]] {
        let fms = ["AAA,UCA,UDA", "AAA;KCC", "AAA", "AAA;ECC;ECg"];           // source A: <global>@1:0 foo@1:10 <global>@1:20 ; source B: <global>@1:0 bar@2:5 ; the fourth is cut off inside its last value after complete fields: it disables itself only
        let fnames = [r#"["<global>","foo"]"#, r#"["<global>","bar"]"#, "[]", r#"["<global>","x"]"#];   // the third function map has no names: its entry resolves to nothing
        // every function map is followed by a second scope mapping (other names, other entries) that must be ignored: the FIRST element is the function map
        let meta_json: Vec<String> = metas.iter().map(|m| match m { Some(k) => format!(r#"[{{"names":{},"mappings":"{}"}},{{"names":["other","another"],"mappings":"AAA,ECA"}}]"#, fnames[*k], fms[*k]), None => "null".into() }).collect();
        // one range token per source on line 0: generated columns 0, 100, 200 -> original (0,0) of source 0, 1, 2
        let json = format!(r#"{{"version":3,"sources":["s0.js","s1.js","s2.js"],"names":[],"mappings":"AAAA,oGCAA,oGCAA","rangeMappings":"H","x_facebook_sources":[{}]}}"#, meta_json.join(","));
        cases += 1;
        let smh = match guarded(|| SourceMapHermes::from_slice(json.as_bytes())) { Ok(Ok(m)) => m, o => return r("hermes_scope", bound, cases, Some(format!("from_slice failed for {json}: {:?}", o.map(|x| x.map(|_| ()))))) };
        let mut out = vec![]; smh.to_writer(&mut out).ok();
        let again = match guarded(|| SourceMapHermes::from_slice(&out)) { Ok(Ok(m)) => m, o => return r("hermes_scope", bound, cases, Some(format!("the library does not decode its own Hermes output {}: {:?}", String::from_utf8_lossy(&out), o.map(|x| x.map(|_| ()))))) };
        let entries: [Vec<(u64, u32, &str)>; 4] = [vec![(1, 0, "<global>"), (1, 10, "foo"), (1, 20, "<global>")], vec![(1, 0, "<global>"), (2, 5, "bar")], vec![], vec![]];
        for src in 0..3u32 { for off in [0u32, 4, 9, 10, 15, 19, 20, 35] {
            let col = src * 100 + off;
            let want = metas[src as usize].and_then(|k| entries[k].iter().filter(|e| (e.0, e.1) <= (1, off)).last().map(|e| e.2.to_string()));
            crate::witness(want.is_some());
            for (what, m) in [("as decoded", &smh), ("after serialising and decoding again", &again)] {
                let got = match guarded(|| m.get_original_function_name(col).map(|s| s.to_string())) { Ok(g) => g, Err(p) => return r("hermes_scope", bound, cases, Some(format!("get_original_function_name({col}) {what}: {p}"))) };
                if got != want { return r("hermes_scope", bound, cases, Some(format!("Hermes map with metadata {metas:?} (Some(k) = function map k), range tokens at generated columns 0/100/200: bytecode offset {col} {what} resolves to {got:?}, expected {want:?}"))); }
                let tok = m.lookup_token(0, col).unwrap();
                let got2 = m.get_scope_for_token(tok).map(|s| s.to_string());
                if got2 != want { return r("hermes_scope", bound, cases, Some(format!("Hermes map with metadata {metas:?}: token looked up at (0,{col}) {what} has scope {got2:?}, expected {want:?}"))); }
            }
        } }
    }
    // one-field segments (no source): a bytecode offset that resolves to one has no enclosing function, whatever precedes it; DecodedMap dispatch: nothing off line 0
    {
        // generated columns: 0 -> a.js (0,0) ; 10 -> no source ; 20 -> a.js (0,15) ; 30 -> no source
        let json = r#"{"version":3,"sources":["a.js"],"names":[],"mappings":"AAAA,U,UAAe,U","x_facebook_sources":[[{"names":["<global>","foo"],"mappings":"AAA,UCA"}]]}"#;
        cases += 1;
        let dm = match guarded(|| sourcemap::decode_slice(json.as_bytes())) { Ok(Ok(m)) => m, o => return r("hermes_scope", bound, cases, Some(format!("decode_slice failed for {json}: {:?}", o.map(|x| x.map(|_| ())))))};
        let smh = match &dm { DecodedMap::Hermes(h) => h, _ => return r("hermes_scope", bound, cases, Some(format!("{json} is not decoded as a Hermes map"))) };
        for (col, want) in [(0u32, Some("<global>")), (5, Some("<global>")), (10, None), (15, None), (20, Some("foo")), (29, Some("foo")), (30, None), (99, None)] {
            cases += 1; crate::witness(want.is_some());
            let got = smh.get_original_function_name(col);
            if got != want { return r("hermes_scope", bound, cases, Some(format!("Hermes map with source-less segments at generated columns 10 and 30: bytecode offset {col} resolves to {got:?}, expected {want:?} (a token without a source has no enclosing function)"))); }
            let got2 = dm.get_original_function_name(0, col, None, None);
            if got2 != want { return r("hermes_scope", bound, cases, Some(format!("DecodedMap::get_original_function_name(0, {col}) = {got2:?}, expected {want:?}"))); }
            let got3 = dm.get_original_function_name(1, col, None, None);
            if got3.is_some() { return r("hermes_scope", bound, cases, Some(format!("DecodedMap::get_original_function_name(1, {col}) = {got3:?} for a Hermes map: bytecode offsets live on line 0 only"))); }
        }
    }
    r("hermes_scope", bound, cases, None)
}

// ------------------------------------------------------------------ C08
fn small_map(file: &str, src: &str, content: Option<&str>, toks: &[(u32, u32)], name: &str) -> SourceMap {
    let mut b = SourceMapBuilder::new(Some(file));
    for (i, &(l, c)) in toks.iter().enumerate() { b.add(l, c, i as u32 + 10, c + 1, Some(src), Some(name), false); }
    if let Some(ct) = content { let id = b.add_source(src); b.set_source_contents(id, Some(ct)); }
    b.into_sourcemap()
}
/// index maps: flatten == shifted sections, and index lookup agrees with the flattened map
pub fn index_flatten() -> Report {
    let bound = "2 sections, first at (0,0), second at offsets {(1,0),(1,4),(2,3)}, section tokens over {0,1}x{0,2,6} (<= 3 each, kept before the next offset), shared / distinct source names with contents present or absent; all queries in [0,4]x[0,12]; 3..4 sections starting on one line / mid-line, tokens on section line 0 or only on line 1, all queries in [0,6]x[0,40]";
    let mut cases = 0u64;
    let tokensets: Vec<Vec<(u32, u32)>> = vec![vec![], vec![(0, 0)], vec![(0, 2)], vec![(0, 0), (0, 6)], vec![(0, 2), (1, 0)], vec![(0, 0), (1, 2), (1, 6)]];
    for off in [(1u32, 0u32), (1, 4), (2, 3)] { for t1 in &tokensets { for t2 in &tokensets { for shared in [false, true] { for c1 in [None, Some("first")] { for c2 in [None, Some("second")] {
        // keep section-1 tokens before the second offset
        if t1.iter().any(|&p| p >= off) { continue; }
        cases += 1;
        let m1 = small_map("one", "s.js", c1, t1, "n1");
        let m2 = small_map("two", if shared { "s.js" } else { "t.js" }, c2, t2, "n2");
        let idx = SourceMapIndex::new(Some("idx".into()), vec![
            SourceMapSection::new((0, 0), None, Some(DecodedMap::Regular(m1))),
            SourceMapSection::new(off, None, Some(DecodedMap::Regular(m2)))]);
        let flat = match guarded(|| idx.flatten()) { Ok(Ok(f)) => f, o => return r("index_flatten", bound, cases, Some(format!("flatten failed: {:?}", o.map(|x| x.map(|_| ()))))) };
        // expected tokens: section tokens shifted (column only on the section's first line)
        let mut want: Vec<(u32, u32, String, u32)> = vec![];
        for (i, &(l, c)) in t1.iter().enumerate() { want.push((l, c, "s.js".into(), i as u32 + 10)); }
        for (i, &(l, c)) in t2.iter().enumerate() { want.push((l + off.0, if l == 0 { c + off.1 } else { c }, if shared { "s.js".into() } else { "t.js".into() }, i as u32 + 10)); }
        want.sort_by_key(|t| (t.0, t.1));
        let got: Vec<(u32, u32, String, u32)> = flat.tokens().map(|t| (t.get_dst_line(), t.get_dst_col(), t.get_source().unwrap_or("").to_string(), t.get_src_line())).collect();
        let mut g2 = got.clone(); g2.sort_by_key(|t| (t.0, t.1));
        if g2.iter().map(|t| (t.0, t.1, &t.2)).collect::<Vec<_>>() != want.iter().map(|t| (t.0, t.1, &t.2)).collect::<Vec<_>>() {
            return r("index_flatten", bound, cases, Some(format!("second section at {off:?}, section tokens {t1:?} / {t2:?}: flattened tokens {got:?}, expected {want:?}")));
        }
        // first-seen contents
        for i in 0..flat.get_source_count() {
            let name = flat.get_source(i).unwrap_or("").to_string();
            let wantc = if name == "s.js" { if !t1.is_empty() { c1 } else if shared && !t2.is_empty() { c2 } else { None } } else { c2 };
            // a source only appears if some token references it; contents come from the first section that mentions it
            let gotc = flat.get_source_contents(i);
            if name == "s.js" && shared && !t1.is_empty() && !t2.is_empty() && c1.is_some() && gotc != c1 {
                return r("index_flatten", bound, cases, Some(format!("source {name} occurs in both sections (contents {c1:?} then {c2:?}); flattened contents {gotc:?}, expected the first-seen {c1:?}")));
            }
            if !(name == "s.js" && shared) && gotc != wantc {
                return r("index_flatten", bound, cases, Some(format!("source {name}: flattened contents {gotc:?}, expected {wantc:?} (sections contents {c1:?} / {c2:?}, tokens {t1:?} / {t2:?})")));
            }
        }
        for l in 0..=4u32 { for c in 0..=12u32 {
            let a = match guarded(|| idx.lookup_token(l, c).map(|t| (t.get_source().unwrap_or("").to_string(), t.get_src_line(), t.get_src_col()))) { Ok(x) => x, Err(p) => return r("index_flatten", bound, cases, Some(format!("index lookup_token({l},{c}) with second section at {off:?}: {p}"))) };
            let b = flat.lookup_token(l, c).map(|t| (t.get_source().unwrap_or("").to_string(), t.get_src_line(), t.get_src_col()));
            crate::witness(a.is_some());
            if let Some(av) = &a { if Some(av) != b.as_ref() {
                return r("index_flatten", bound, cases, Some(format!("second section at {off:?}, tokens {t1:?} / {t2:?}: index lookup_token({l},{c}) = {a:?} but the flattened map gives {b:?}")));
            } }
        } }
    } } } } } }
    // three and four sections starting on the same generated line, and a section whose line 0 is empty (its column offset must not move later lines)
    for offs in [vec![(0u32, 0u32), (0, 10), (0, 20)], vec![(0, 0), (0, 10), (0, 20), (1, 5)], vec![(0, 0), (2, 10), (2, 30)], vec![(1, 3), (1, 9), (4, 0)]] { for lead_empty in [false, true] {
        cases += 1;
        let mut secs = vec![]; let mut flat_want: Vec<(u32, u32, String)> = vec![];
        for (k, &off) in offs.iter().enumerate() {
            // section k: tokens at (0,0),(0,4) -- or, with lead_empty, only on its line 1 when the next section leaves room
            let next = offs.get(k + 1).copied();
            let name = format!("s{k}.js");
            let mut toks: Vec<(u32, u32)> = vec![(0, 0), (0, 4)];
            if lead_empty && next.map_or(true, |n| n.0 > off.0 + 1) { toks = vec![(1, 0), (1, 4)]; }
            toks.retain(|&(l, c)| { let p = (l + off.0, if l == 0 { c + off.1 } else { c }); next.map_or(true, |n| p < n) });
            for &(l, c) in &toks { flat_want.push((l + off.0, if l == 0 { c + off.1 } else { c }, name.clone())); }
            secs.push(SourceMapSection::new(off, None, Some(DecodedMap::Regular(small_map("m", &name, None, &toks, "n")))));
        }
        let idx = SourceMapIndex::new(None, secs);
        let flat = match guarded(|| idx.flatten()) { Ok(Ok(f)) => f, o => return r("index_flatten", bound, cases, Some(format!("sections at {offs:?}: flatten failed: {:?}", o.map(|x| x.map(|_| ()))))) };
        let mut got: Vec<(u32, u32, String)> = flat.tokens().map(|t| (t.get_dst_line(), t.get_dst_col(), t.get_source().unwrap_or("").to_string())).collect();
        got.sort(); flat_want.sort();
        if got != flat_want { return r("index_flatten", bound, cases, Some(format!("sections at {offs:?} (tokens on section line {}): flattened tokens {got:?}, expected {flat_want:?}", if lead_empty { 1 } else { 0 }))); }
        for l in 0..=6u32 { for c in 0..=40u32 {
            let a = match guarded(|| idx.lookup_token(l, c).map(|t| (t.get_source().unwrap_or("").to_string(), t.get_src_line(), t.get_src_col()))) { Ok(x) => x, Err(p) => return r("index_flatten", bound, cases, Some(format!("sections at {offs:?}: index lookup_token({l},{c}): {p}"))) };
            let b = flat.lookup_token(l, c).map(|t| (t.get_source().unwrap_or("").to_string(), t.get_src_line(), t.get_src_col()));
            crate::witness(a.is_some());
            // which section must answer: the one with the greatest offset not after (l, c)
            let sec = offs.iter().rposition(|&o| o <= (l, c));
            if let (Some(k), Some(av)) = (sec, &a) { if av.0 != format!("s{k}.js") { return r("index_flatten", bound, cases, Some(format!("sections at {offs:?}: lookup_token({l},{c}) answers from {} but section {k} has the greatest offset not after the position", av.0))); } }
            if let Some(av) = &a { if Some(av) != b.as_ref() { return r("index_flatten", bound, cases, Some(format!("sections at {offs:?}: index lookup_token({l},{c}) = {a:?} but the flattened map gives {b:?}"))); } }
        } }
    } }
    r("index_flatten", bound, cases, None)
}

/// a section map with two listed sources (the second possibly without tokens), names, a range flag and an ignore list
fn rich_map(tag: &str, toks: &[(u32, u32, usize, bool)], srcs: [&str; 2], contents: [Option<&str>; 2], ignore: &[u32]) -> SourceMap {
    let raw: Vec<RawToken> = toks.iter().enumerate().map(|(i, &(l, c, s, rng))| RawToken { dst_line: l, dst_col: c, src_line: i as u32 + 7, src_col: c + 1, src_id: s as u32, name_id: (i % 2) as u32, is_range: rng }).collect();
    let names: Vec<std::sync::Arc<str>> = vec![format!("{tag}_n0").into(), format!("{tag}_n1").into()];
    let sources: Vec<std::sync::Arc<str>> = srcs.iter().map(|s| (*s).into()).collect();
    let cts: Vec<Option<std::sync::Arc<str>>> = contents.iter().map(|c| c.map(|x| x.into())).collect();
    let mut sm = SourceMap::new(Some(tag.into()), raw, names, sources, Some(cts));
    for &i in ignore { sm.add_to_ignore_list(i); }
    sm
}
type FlatTok = (u32, u32, String, u32, u32, Option<String>, bool);
/// reference flattening: tokens of a section list (maps already flat), shifted; plus ignored source names and first-seen contents
fn ref_flatten(secs: &[((u32, u32), &SourceMap)]) -> (Vec<FlatTok>, std::collections::BTreeSet<String>, Vec<(String, Option<String>)>) {
    let mut toks = vec![]; let mut ign = std::collections::BTreeSet::new(); let mut cts: Vec<(String, Option<String>)> = vec![];
    for (off, m) in secs { for t in m.tokens() {
        let src = t.get_source().map(|s| s.to_string());
        toks.push((t.get_dst_line() + off.0, if t.get_dst_line() == 0 { t.get_dst_col() + off.1 } else { t.get_dst_col() }, src.clone().unwrap_or_default(), t.get_src_line(), t.get_src_col(), t.get_name().map(|s| s.to_string()), t.is_range()));
        if let Some(name) = src {
            if m.ignore_list().any(|&i| i == t.get_src_id()) { ign.insert(name.clone()); }
            let c = m.get_source_contents(t.get_src_id()).map(|s| s.to_string());
            match cts.iter_mut().find(|e| e.0 == name) { Some(e) => if e.1.is_none() { e.1 = c; }, None => cts.push((name, c)) }
        }
    } }
    (toks, ign, cts)
}
/// index maps with a nested index section, ignore lists naming token-less sources, names and range flags
pub fn index_nested() -> Report {
    let bound = "outer index [regular @(0,0), nested index @ off in {(1,0),(1,3),(2,5)}] with the nested index = [regular @(0,0), regular @(1,0)]; each map lists 2 sources (the second with or without tokens), ignore lists over subsets of {0,1}, contents present / absent, one range token; tokens kept before the next offset; all queries in [0,5]x[0,12]";
    let mut cases = 0u64;
    let tokensets: Vec<Vec<(u32, u32, usize, bool)>> = vec![vec![(0, 0, 0, false)], vec![(0, 0, 0, false), (0, 4, 1, true)], vec![(0, 2, 0, true), (0, 6, 0, false)], vec![]];
    let ignores: Vec<Vec<u32>> = vec![vec![], vec![1], vec![0, 1]];
    for off in [(1u32, 0u32), (1, 3), (2, 5)] { for ta in &tokensets { for tb in &tokensets { for tc in &tokensets { for ia in &ignores { for ib in &ignores { for ic in &ignores { for shared in [false, true] {
        if ta.iter().any(|t| (t.0, t.1) >= off) { continue; }
        cases += 1;
        let ma = rich_map("a", ta, ["s.js", "va.js"], [Some("text of s (a)"), None], ia);
        let mb = rich_map("b", tb, [if shared { "s.js" } else { "b.js" }, "vb.js"], [Some("text of first (b)"), Some("vb text")], ib);
        let mc = rich_map("c", tc, ["c.js", if shared { "va.js" } else { "vc.js" }], [None, Some("second-source text (c)")], ic);
        let nested = SourceMapIndex::new(Some("inner".into()), vec![
            SourceMapSection::new((0, 0), None, Some(DecodedMap::Regular(mb.clone()))),
            SourceMapSection::new((1, 0), None, Some(DecodedMap::Regular(mc.clone())))]);
        if tb.iter().any(|t| (t.0, t.1) >= (1, 0)) { continue; }
        let idx = SourceMapIndex::new(Some("outer".into()), vec![
            SourceMapSection::new((0, 0), None, Some(DecodedMap::Regular(ma.clone()))),
            SourceMapSection::new(off, None, Some(DecodedMap::Index(nested)))]);
        let ctx = format!("outer [a @(0,0) tokens {ta:?} ignore {ia:?}; nested @{off:?} [b tokens {tb:?} ignore {ib:?}; c @(1,0) tokens {tc:?} ignore {ic:?}]], shared names {shared}");
        let flat = match guarded(|| idx.flatten()) { Ok(Ok(f)) => f, o => return r("index_nested", bound, cases, Some(format!("{ctx}: flatten failed: {:?}", o.map(|x| x.map(|_| ()))))) };
        // reference: flatten the nested index first, then the outer one
        let (ntoks, nign, ncts) = ref_flatten(&[((0, 0), &mb), ((1, 0), &mc)]);
        let (atoks, aign, acts) = ref_flatten(&[((0, 0), &ma)]);
        let mut want: Vec<FlatTok> = atoks.clone();
        for t in &ntoks { want.push((t.0 + off.0, if t.0 == 0 { t.1 + off.1 } else { t.1 }, t.2.clone(), t.3, t.4, t.5.clone(), t.6)); }
        want.sort();
        let mut got: Vec<FlatTok> = flat.tokens().map(|t| (t.get_dst_line(), t.get_dst_col(), t.get_source().unwrap_or("").to_string(), t.get_src_line(), t.get_src_col(), t.get_name().map(|s| s.to_string()), t.is_range())).collect();
        got.sort();
        if got != want { return r("index_nested", bound, cases, Some(format!("{ctx}: flattened tokens {got:?}, expected {want:?}"))); }
        let want_ign: std::collections::BTreeSet<String> = aign.union(&nign).cloned().collect();
        let got_ign: std::collections::BTreeSet<String> = flat.ignore_list().map(|&i| flat.get_source(i).unwrap_or("?").to_string()).collect();
        if got_ign != want_ign { return r("index_nested", bound, cases, Some(format!("{ctx}: flattened ignore list {got_ign:?}, expected {want_ign:?}"))); }
        let mut want_cts = acts.clone();
        for (n, c) in &ncts { match want_cts.iter_mut().find(|e| &e.0 == n) { Some(e) => if e.1.is_none() { e.1 = c.clone(); }, None => want_cts.push((n.clone(), c.clone())) } }
        for i in 0..flat.get_source_count() {
            let name = flat.get_source(i).unwrap_or("").to_string();
            if !want_cts.iter().any(|e| e.0 == name) { continue; }   // a source no token refers to: the statement says nothing about it
            let w = want_cts.iter().find(|e| e.0 == name).and_then(|e| e.1.clone());
            let g = flat.get_source_contents(i).map(|s| s.to_string());
            if g != w { return r("index_nested", bound, cases, Some(format!("{ctx}: contents of {name}: {g:?}, expected first-seen {w:?}"))); }
        }
        for l in 0..=5u32 { for c in 0..=12u32 {
            let a = match guarded(|| idx.lookup_token(l, c).map(|t| (t.get_source().unwrap_or("").to_string(), t.get_src_line(), t.get_src_col(), t.get_name().map(|s| s.to_string())))) { Ok(x) => x, Err(p) => return r("index_nested", bound, cases, Some(format!("{ctx}: index lookup_token({l},{c}): {p}"))) };
            let b = flat.lookup_token(l, c).map(|t| (t.get_source().unwrap_or("").to_string(), t.get_src_line(), t.get_src_col(), t.get_name().map(|s| s.to_string())));
            crate::witness(a.is_some());
            if let Some(av) = &a { if Some(av) != b.as_ref() {
                return r("index_nested", bound, cases, Some(format!("{ctx}: index lookup_token({l},{c}) = {a:?} but the flattened map gives {b:?}")));
            } }
        } }
    } } } } } } } }
    r("index_nested", bound, cases, None)
}

// ------------------------------------------------------------------ C09
/// rewrite keeps what every position resolves to
pub fn rewrite() -> Report {
    let bound = "maps over sources listed in orders different from first use (3 names, one duplicated / unreferenced), contents on a subset, names on/off, contents on/off, prefixes {none, 'pre', 'pre/'}; plus 6 sources that start with the prefix text at and off a component boundary x 10 prefix lists (several prefixes, nested prefixes, a later prefix matching what an earlier one leaves) x source root {none, relative, with '/', absolute}; flatten_and_rewrite against flatten() then rewrite() on indexes with one section at (0,0) / elsewhere / two sections (file, debug id, tables, tokens)";
    let mut cases = 0u64;
    let listed: Vec<Vec<&str>> = vec![vec!["pre/a.js", "pre/b.js"], vec!["pre/b.js", "pre/a.js"], vec!["unused.js", "pre/b.js", "pre/a.js"], vec!["pre/a.js", "pre/a.js", "pre/b.js"], vec!["pre/b.js", "unused.js", "pre/a.js", "pre/b.js"]];
    for srcs in &listed { for cmask in 0u32..(1 << srcs.len()) { for first in 0..srcs.len() { for with_names in [true, false] { for with_contents in [true, false] { for prefix in [None, Some("pre"), Some("pre/")] {
        cases += 1;
        let names: Vec<std::sync::Arc<str>> = vec!["x".into(), "y".into(), "x".into()];
        let mut raw = vec![];
        // tokens reference sources starting from `first`, skipping "unused.js"
        let mut col = 0;
        for k in 0..srcs.len() { let i = (first + k) % srcs.len(); if srcs[i] == "unused.js" { continue; }
            raw.push(RawToken { dst_line: 0, dst_col: col, src_line: i as u32, src_col: 1, src_id: i as u32, name_id: (k % 3) as u32, is_range: false }); col += 3; }
        let contents: Vec<Option<std::sync::Arc<str>>> = (0..srcs.len()).map(|i| if cmask >> i & 1 == 1 { Some(format!("// {} #{}", srcs[i], i).into()) } else { None }).collect();
        let sm = SourceMap::new(Some("f.js".into()), raw, names, srcs.iter().map(|s| (*s).into()).collect(), Some(contents.clone()));
        let before: Vec<(u32, u32, String, u32, u32, Option<String>, Option<String>)> = sm.tokens().map(|t| (t.get_dst_line(), t.get_dst_col(), t.get_source().unwrap_or("").to_string(), t.get_src_line(), t.get_src_col(), t.get_name().map(|s| s.to_string()), sm.get_source_contents(t.get_src_id()).map(|s| s.to_string()))).collect();
        let prefixes: Vec<&str> = prefix.into_iter().collect();
        let opts = RewriteOptions { with_names, with_source_contents: with_contents, strip_prefixes: &prefixes, ..Default::default() };
        let out = match guarded(|| sm.rewrite(&opts)) { Ok(Ok(m)) => m, o => return r("rewrite", bound, cases, Some(format!("rewrite failed: {:?}", o.map(|x| x.map(|_| ()))))) };
        let after: Vec<_> = out.tokens().map(|t| (t.get_dst_line(), t.get_dst_col(), t.get_source().unwrap_or("").to_string(), t.get_src_line(), t.get_src_col(), t.get_name().map(|s| s.to_string()), out.get_source_contents(t.get_src_id()).map(|s| s.to_string()))).collect();
        if before.len() != after.len() { return r("rewrite", bound, cases, Some(format!("sources {srcs:?}: token count {} -> {}", before.len(), after.len()))); }
        for (b, a) in before.iter().zip(after.iter()) {
            let want_src = match prefix { Some(_) => b.2.strip_prefix("pre/").unwrap_or(&b.2).to_string(), None => b.2.clone() };
            if (a.0, a.1, a.3, a.4) != (b.0, b.1, b.3, b.4) || a.2 != want_src { return r("rewrite", bound, cases, Some(format!("sources {srcs:?} (first use from #{first}), prefix {prefix:?}: token {:?} became {:?}", (b.0, b.1, &b.2, b.3, b.4), (a.0, a.1, &a.2, a.3, a.4)))); }
            if with_names && a.5 != b.5 { return r("rewrite", bound, cases, Some(format!("sources {srcs:?}: name {:?} became {:?}", b.5, a.5))); }
            if !with_names && a.5.is_some() { return r("rewrite", bound, cases, Some("names kept although with_names = false".into())); }
            if with_contents {
                // contents stay attached to the same source name: the first listed copy of that name with contents decides for duplicates
                let same_name_first_use = b.6.clone();
                let dup_name = srcs.iter().filter(|s| **s == b.2).count() > 1;
                if !dup_name && a.6 != same_name_first_use { return r("rewrite", bound, cases, Some(format!("sources {srcs:?} listed, first use from #{first}, contents mask {cmask:b}: source {} had contents {:?}, after rewrite {:?}", b.2, b.6, a.6))); }
                // a name listed twice: the merged source carries the contents of one of the referenced copies of that name, and some contents if any of them has
                if dup_name { let ws: Vec<String> = before.iter().filter(|x| x.2 == b.2).filter_map(|x| x.6.clone()).collect();
                    let ok = match &a.6 { Some(c) => ws.contains(c), None => ws.is_empty() };
                    if !ok { return r("rewrite", bound, cases, Some(format!("sources {srcs:?} listed, first use from #{first}, contents mask {cmask:b}: the name {} is listed twice; after rewrite its contents are {:?}, the referenced copies carry {:?}", b.2, a.6, ws))); } }
            } else if a.6.is_some() { return r("rewrite", bound, cases, Some("contents kept although with_source_contents = false".into())); }
        }
        let outs: Vec<String> = (0..out.get_source_count()).map(|i| out.get_source(i).unwrap().to_string()).collect();
        for (i, s) in outs.iter().enumerate() { if outs[..i].contains(s) { return r("rewrite", bound, cases, Some(format!("rewritten sources contain a duplicate: {outs:?}"))); }
            if !after.iter().any(|a| &a.2 == s) { return r("rewrite", bound, cases, Some(format!("rewritten sources contain the unreferenced {s}: {outs:?}"))); } }
        if out.get_file() != Some("f.js") { return r("rewrite", bound, cases, Some("file not preserved".into())); }
    } } } } } }
    // prefixes must match at a path-component boundary only; several prefixes (first match wins); a source root is folded into the names, not re-applied
    let srcs2 = ["pre/a.js", "pre-gen/b.js", "prefix.js", "pre", "other/pre/c.js", "pre/pre/d.js"];
    let prefix_sets: Vec<Vec<&str>> = vec![vec![], vec!["pre"], vec!["pre/"], vec!["zzz", "pre"], vec!["pre/pre", "pre"], vec!["root/pre"], vec!["other"], vec!["other", "pre"], vec!["pre", "other"], vec!["pre", "pre/pre"]];
    for root in [None, Some("root"), Some("root/"), Some("/abs")] { for prefixes in &prefix_sets { for first in 0..srcs2.len() {
        cases += 1;
        let raw: Vec<RawToken> = (0..srcs2.len()).map(|k| { let i = (first + k) % srcs2.len(); RawToken { dst_line: 0, dst_col: 3 * k as u32, src_line: i as u32, src_col: 1, src_id: i as u32, name_id: !0, is_range: false } }).collect();
        let mut sm = SourceMap::new(Some("f.js".into()), raw, vec![], srcs2.iter().map(|s| (*s).into()).collect(), None);
        sm.set_source_root(root);
        let before: Vec<(u32, String, u32)> = sm.tokens().map(|t| (t.get_dst_col(), t.get_source().unwrap_or("").to_string(), t.get_src_line())).collect();
        let opts = RewriteOptions { strip_prefixes: prefixes, ..Default::default() };
        let out = match guarded(|| sm.rewrite(&opts)) { Ok(Ok(m)) => m, o => return r("rewrite", bound, cases, Some(format!("rewrite failed: {:?}", o.map(|x| x.map(|_| ()))))) };
        let after: Vec<(u32, String, u32)> = out.tokens().map(|t| (t.get_dst_col(), t.get_source().unwrap_or("").to_string(), t.get_src_line())).collect();
        let strip = |s: &str| -> String { for p in prefixes.iter() { let pp = if p.ends_with('/') { p.to_string() } else { format!("{p}/") }; if let Some(rest) = s.strip_prefix(pp.as_str()) { return rest.to_string(); } } s.to_string() };
        let want: Vec<(u32, String, u32)> = before.iter().map(|b| (b.0, strip(&b.1), b.2)).collect();
        if after != want { return r("rewrite", bound, cases, Some(format!("sources {srcs2:?} with source root {root:?}, strip_prefixes {prefixes:?}: tokens (col, source, line) {before:?} became {after:?}, expected {want:?}"))); }
    } } }
    // flatten_and_rewrite is the rewrite of the flattened map, whatever the shape of the index: one section at (0,0), one section elsewhere, two sections; file and debug id
    // are those of the flattened map (the index's file, no debug id), not those of an embedded map
    {
        let id = "00000000-0000-0000-0000-00000000000a";
        let inner = |file: &str, src: &str| format!(r#"{{"version":3,"file":"{file}","debug_id":"{id}","sources":["pre/{src}"],"sourcesContent":["// {src}"],"names":["n"],"mappings":"AAAAA,EAAAA;AACA"}}"#);
        let shapes: Vec<(&str, Vec<((u32, u32), String)>)> = vec![("one section at (0,0)", vec![((0, 0), inner("chunk-a.js", "a.js"))]), ("one section at (0,7)", vec![((0, 7), inner("chunk-a.js", "a.js"))]),
            ("two sections", vec![((0, 0), inner("chunk-a.js", "a.js")), ((5, 0), inner("chunk-b.js", "b.js"))])];
        for (what, secs) in &shapes { for prefixes in [vec![], vec!["pre"]] { for with_names in [true, false] {
            cases += 1;
            let doc = format!(r#"{{"version":3,"file":"bundle.js","sections":[{}]}}"#, secs.iter().map(|(o, m)| format!(r#"{{"offset":{{"line":{},"column":{}}},"map":{m}}}"#, o.0, o.1)).collect::<Vec<_>>().join(","));
            let idx = match SourceMapIndex::from_slice(doc.as_bytes()) { Ok(i) => i, Err(e) => return r("rewrite", bound, cases, Some(format!("index document {doc}: {e}"))) };
            let opts = RewriteOptions { with_names, strip_prefixes: &prefixes, ..Default::default() };
            let want = match guarded(|| idx.flatten().and_then(|m| m.rewrite(&opts))) { Ok(Ok(m)) => m, o => return r("rewrite", bound, cases, Some(format!("index with {what}: flatten().rewrite() failed: {:?}", o.map(|x| x.map(|_| ()).map_err(|e| e.to_string()))))) };
            let got = match guarded(|| idx.flatten_and_rewrite(&opts)) { Ok(Ok(m)) => m, o => return r("rewrite", bound, cases, Some(format!("index with {what}: flatten_and_rewrite failed: {:?}", o.map(|x| x.map(|_| ()).map_err(|e| e.to_string()))))) };
            let view = |m: &SourceMap| (m.get_file().map(|s| s.to_string()), m.get_debug_id().map(|d| d.to_string()), m.sources().map(|s| s.to_string()).collect::<Vec<_>>(), m.names().map(|s| s.to_string()).collect::<Vec<_>>(),
                (0..m.get_source_count()).map(|i| m.get_source_contents(i).map(|s| s.to_string())).collect::<Vec<_>>(), m.tokens().map(|t| (t.get_dst(), t.get_src_id(), t.get_src(), t.get_name().map(|s| s.to_string()))).collect::<Vec<_>>());
            if view(&got) != view(&want) { return r("rewrite", bound, cases, Some(format!("index (file bundle.js) with {what}, strip_prefixes {prefixes:?}, names {with_names}: flatten_and_rewrite gives (file, debug id, sources, names, contents, tokens) {:?}, flatten() then rewrite() gives {:?}", view(&got), view(&want)))); }
            if got.get_file() != Some("bundle.js") { return r("rewrite", bound, cases, Some(format!("index (file bundle.js) with {what}: flatten_and_rewrite gives file {:?}", got.get_file()))); }
        } } }
    }
    r("rewrite", bound, cases, None)
}

/// Hermes maps: every token resolves to the same enclosing function before and after rewrite
pub fn hermes_rewrite() -> Report {
    let bound = "Hermes maps with 2..3 sources, one function map per source, sources listed in every order relative to first use, an optional unreferenced source; 0..2 function maps for 3 sources used in 4 orders; answers compared in memory and after serialising and decoding the rewritten map again";
    let mut cases = 0u64;
    let orders: Vec<Vec<usize>> = vec![vec![0, 1], vec![1, 0], vec![0, 1, 2], vec![2, 1, 0], vec![1, 2, 0], vec![2, 0, 1]];
    for order in &orders { for unused in [false, true] {
        cases += 1;
        let n = order.len();
        let srcs: Vec<String> = (0..n).map(|i| format!("s{i}.js")).collect();
        // token k uses source order[k] (so first use follows `order`), unless unused drops the last one
        let mut toks = vec![];
        for (k, &s) in order.iter().enumerate() { if unused && k == n - 1 { continue; } toks.push((0u32, (k * 4) as u32, Some((s as u32, 0u32, 1u32)), None)); }
        let fms: Vec<String> = (0..n).map(|i| format!(r#"[{{"names":["fn_in_s{i}"],"mappings":"AAA"}}]"#)).collect();
        let json = format!(r#"{{"version":3,"sources":[{}],"names":[],"mappings":"{}","x_facebook_sources":[{}]}}"#,
            srcs.iter().map(|s| format!("\"{s}\"")).collect::<Vec<_>>().join(","), mappings(&toks), fms.join(","));
        let smh = match SourceMapHermes::from_slice(json.as_bytes()) { Ok(m) => m, Err(e) => return r("hermes_rewrite", bound, cases, Some(format!("from_slice: {e}"))) };
        let before: Vec<(u32, String, Option<String>)> = smh.tokens().map(|t| (t.get_dst_col(), t.get_source().unwrap_or("").to_string(), smh.get_scope_for_token(t).map(|s| s.to_string()))).collect();
        let out = match guarded(|| smh.rewrite(&RewriteOptions::default())) { Ok(Ok(m)) => m, o => return r("hermes_rewrite", bound, cases, Some(format!("rewrite failed: {:?}", o.map(|x| x.map(|_| ()))))) };
        let after: Vec<(u32, String, Option<String>)> = out.tokens().map(|t| (t.get_dst_col(), t.get_source().unwrap_or("").to_string(), out.get_scope_for_token(t).map(|s| s.to_string()))).collect();
        if before != after { return r("hermes_rewrite", bound, cases, Some(format!("sources listed {srcs:?}, first used in order {order:?}, unreferenced last = {unused}: (column, source, function) before {before:?} after {after:?}"))); }
        let mut bytes = vec![]; out.to_writer(&mut bytes).ok();
        let again = match guarded(|| SourceMapHermes::from_slice(&bytes)) { Ok(Ok(m)) => m, o => return r("hermes_rewrite", bound, cases, Some(format!("rewritten Hermes map does not decode again: {:?}", o.map(|x| x.map(|_| ()))))) };
        let after2: Vec<(u32, String, Option<String>)> = again.tokens().map(|t| (t.get_dst_col(), t.get_source().unwrap_or("").to_string(), again.get_scope_for_token(t).map(|s| s.to_string()))).collect();
        if before != after2 { return r("hermes_rewrite", bound, cases, Some(format!("sources listed {srcs:?}, first used in order {order:?}, unreferenced last = {unused}, rewritten, serialised and decoded again: (column, source, function) before {before:?} after {after2:?}"))); }
    } }
    // fewer function maps than sources (malformed Hermes payloads must not make rewrite panic)
    for nfm in 0..=2usize { for used in 0..3u32 {
        cases += 1;
        let fms: Vec<String> = (0..nfm).map(|i| format!(r#"[{{"names":["f{i}"],"mappings":"AAA"}}]"#)).collect();
        let json = format!(r#"{{"version":3,"sources":["a","b","c"],"names":[],"mappings":"{}","x_facebook_sources":[{}]}}"#, mappings(&[(0, 0, Some((used, 0, 0)), None)]), fms.join(","));
        let smh = match SourceMapHermes::from_slice(json.as_bytes()) { Ok(m) => m, Err(_) => continue };
        if let Err(p) = guarded(|| smh.rewrite(&RewriteOptions::default()).map(|m| m.get_token_count()).map_err(|e| e.to_string())) {
            return r("hermes_rewrite", bound, cases, Some(format!("Hermes map with {nfm} function maps for 3 sources, token on source {used}: rewrite {p}")));
        }
    } }
    // fewer function maps than sources, several sources used in an order other than the listing order: every token keeps its enclosing function (or its lack of one)
    for nfm in 0..=2usize { for order in [vec![2u32, 0], vec![1, 0], vec![2, 1, 0], vec![0, 2]] {
        cases += 1;
        let fms: Vec<String> = (0..nfm).map(|i| format!(r#"[{{"names":["f{i}"],"mappings":"AAA"}}]"#)).collect();
        let toks: Vec<_> = order.iter().enumerate().map(|(k, &s)| (0u32, (k * 4) as u32, Some((s, 0u32, 1u32)), None)).collect();
        let json = format!(r#"{{"version":3,"sources":["a","b","c"],"names":[],"mappings":"{}","x_facebook_sources":[{}]}}"#, mappings(&toks), fms.join(","));
        let smh = match SourceMapHermes::from_slice(json.as_bytes()) { Ok(m) => m, Err(_) => continue };
        let before: Vec<(u32, String, Option<String>)> = smh.tokens().map(|t| (t.get_dst_col(), t.get_source().unwrap_or("").to_string(), smh.get_scope_for_token(t).map(|s| s.to_string()))).collect();
        let out = match guarded(|| smh.rewrite(&RewriteOptions::default())) { Ok(Ok(m)) => m, o => return r("hermes_rewrite", bound, cases, Some(format!("rewrite failed: {:?}", o.map(|x| x.map(|_| ()))))) };
        let after: Vec<(u32, String, Option<String>)> = out.tokens().map(|t| (t.get_dst_col(), t.get_source().unwrap_or("").to_string(), out.get_scope_for_token(t).map(|s| s.to_string()))).collect();
        if before != after { return r("hermes_rewrite", bound, cases, Some(format!("Hermes map with {nfm} function maps for sources [a, b, c], tokens using sources {order:?} in turn: (column, source, function) before {before:?} after {after:?}"))); }
        // the raw metadata follows too: the rewritten map answers the same after serialising and decoding again
        let mut bytes = vec![]; out.to_writer(&mut bytes).ok();
        let again = match guarded(|| SourceMapHermes::from_slice(&bytes)) { Ok(Ok(m)) => m, o => return r("hermes_rewrite", bound, cases, Some(format!("rewritten Hermes map does not decode again: {:?}", o.map(|x| x.map(|_| ()))))) };
        let after2: Vec<(u32, String, Option<String>)> = again.tokens().map(|t| (t.get_dst_col(), t.get_source().unwrap_or("").to_string(), again.get_scope_for_token(t).map(|s| s.to_string()))).collect();
        if before != after2 { return r("hermes_rewrite", bound, cases, Some(format!("Hermes map with {nfm} function maps for sources [a, b, c], tokens using sources {order:?} in turn, rewritten, serialised and decoded again: (column, source, function) before {before:?} after {after2:?}"))); }
    } }
    r("hermes_rewrite", bound, cases, None)
}

// ------------------------------------------------------------------ C03 / C01
/// serialised form: keys present / omitted as the property states, mappings read back by the reference decoder
pub fn raw_keys() -> Report {
    let bound = "maps with 1..3 sources, contents on every subset (non-empty or empty-string texts), root / file / ignore list present or absent, tokens with and without source / name; debug ids with and without an appendix, read from either key, alone and in an index section";
    let mut cases = 0u64;
    for nsrc in 1..=3usize { for cmask in 0u32..(1 << nsrc) { for root in [None, Some("r")] { for file in [None, Some("f.js")] { for ignore in [false, true] { for empty_text in [false, true] {
        cases += 1;
        let text = |i: usize| if empty_text { String::new() } else { format!("// {i}") };
        let mut b = SourceMapBuilder::new(file);
        for i in 0..nsrc { let id = b.add_source(&format!("s{i}.js")); if cmask >> i & 1 == 1 { b.set_source_contents(id, Some(&text(i))); } }
        b.add(0, 0, 1, 2, Some("s0.js"), Some("n"), false);
        b.add(0, 4, 0, 0, None, None, false);
        b.add(1, 1, 3, 1, Some(&format!("s{}.js", nsrc - 1)), None, false);
        if ignore { b.add_to_ignore_list(0); }
        b.set_source_root(root);
        let sm = b.into_sourcemap();
        let mut out = vec![];
        if let Err(e) = sm.to_writer(&mut out) { return r("raw_keys", bound, cases, Some(format!("to_writer: {e}"))); }
        let v: serde_json::Value = match serde_json::from_slice(&out) { Ok(v) => v, Err(e) => return r("raw_keys", bound, cases, Some(format!("output is not JSON: {e}"))) };
        let o = v.as_object().unwrap();
        let ctx = format!("{nsrc} sources, contents mask {cmask:b}{}, root {root:?}, file {file:?}, ignore {ignore}", if empty_text { " (contents are empty strings)" } else { "" });
        if o.get("version") != Some(&serde_json::json!(3)) { return r("raw_keys", bound, cases, Some(format!("{ctx}: version is {:?}", o.get("version")))); }
        let want_sc: Option<Vec<Option<String>>> = if cmask == 0 { None } else { Some((0..nsrc).map(|i| if cmask >> i & 1 == 1 { Some(text(i)) } else { None }).collect()) };
        let got_sc: Option<Vec<Option<String>>> = o.get("sourcesContent").map(|x| x.as_array().unwrap().iter().map(|y| y.as_str().map(|s| s.to_string())).collect());
        if got_sc != want_sc { return r("raw_keys", bound, cases, Some(format!("{ctx}: sourcesContent is {got_sc:?}, expected {want_sc:?}"))); }
        for (key, present) in [("sourceRoot", root.is_some()), ("file", file.is_some()), ("ignoreList", ignore)] {
            match o.get(key) { Some(x) if x.is_null() => return r("raw_keys", bound, cases, Some(format!("{ctx}: key {key} written as null"))),
                Some(_) if !present => return r("raw_keys", bound, cases, Some(format!("{ctx}: key {key} written although the map has no value"))),
                None if present => return r("raw_keys", bound, cases, Some(format!("{ctx}: key {key} missing"))), _ => {} }
        }
        let srcs: Vec<String> = o["sources"].as_array().unwrap().iter().map(|x| x.as_str().unwrap().to_string()).collect();
        if srcs != (0..nsrc).map(|i| format!("s{i}.js")).collect::<Vec<_>>() { return r("raw_keys", bound, cases, Some(format!("{ctx}: sources written as {srcs:?} (raw names expected)"))); }
        let m = o["mappings"].as_str().unwrap();
        let dec = refs::mappings_decode(m, "", nsrc as i128, 1);
        let want = vec![refs::Tok { dl: 0, dc: 0, src: Some((0, 1, 2)), name: Some(0), range: false }, refs::Tok { dl: 0, dc: 4, src: None, name: None, range: false }, refs::Tok { dl: 1, dc: 1, src: Some((nsrc as u32 - 1, 3, 1)), name: None, range: false }];
        if dec != Ok(want.clone()) { return r("raw_keys", bound, cases, Some(format!("{ctx}: mappings {m:?} read back as {dec:?}, expected {want:?}"))); }
    } } } } } }
    // debug_id carries the map's value verbatim (appendix included), also in the embedded map of an index section; the key is left out when there is none
    for id in [None, Some("00000000-0000-0000-0000-000000000001"), Some("dfb8e43a-f242-3d73-a453-aeb6a777ef75-a"), Some("dfb8e43a-f242-3d73-a453-aeb6a777ef75-ff12")] { for key in ["debug_id", "debugId"] { for nested in [false, true] {
        cases += 1;
        let inner = format!(r#"{{"version":3,{}"sources":["a.js"],"names":[],"mappings":"AAAA"}}"#, id.map(|i| format!(r#""{key}":"{i}","#)).unwrap_or_default());
        let doc = if nested { format!(r#"{{"version":3,"sections":[{{"offset":{{"line":0,"column":0}},"map":{inner}}}]}}"#) } else { inner.clone() };
        let dm = match sourcemap::decode_slice(doc.as_bytes()) { Ok(m) => m, Err(e) => return r("raw_keys", bound, cases, Some(format!("document {doc}: {e}"))) };
        let held: Option<String> = match &dm { DecodedMap::Regular(m) => m.get_debug_id().map(|d| d.to_string()), DecodedMap::Index(i) => i.sections().next().and_then(|s| match s.get_sourcemap() { Some(DecodedMap::Regular(m)) => m.get_debug_id().map(|d| d.to_string()), _ => None }), _ => None };
        if held.as_deref() != id { return r("raw_keys", bound, cases, Some(format!("document {doc}: the decoded map reports debug id {held:?}, the document says {id:?}"))); }
        let mut out = vec![];
        if let Err(e) = dm.to_writer(&mut out) { return r("raw_keys", bound, cases, Some(format!("to_writer: {e}"))); }
        let v: serde_json::Value = match serde_json::from_slice(&out) { Ok(v) => v, Err(e) => return r("raw_keys", bound, cases, Some(format!("output is not JSON: {e}"))) };
        let o = if nested { &v["sections"][0]["map"] } else { &v };
        let written = o.get("debug_id").map(|x| x.as_str().map(|s| s.to_string()));
        let want = id.map(|i| Some(i.to_string()));
        if written != want { return r("raw_keys", bound, cases, Some(format!("map with debug id {id:?} (read from key {key}{}): the output carries debug_id = {written:?}, expected {want:?}", if nested { ", in an index section" } else { "" }))); }
    } } }
    r("raw_keys", bound, cases, None)
}

type T4 = (u32, u32, Option<(u32, u32, u32)>, Option<u32>);
/// write -> read gives the same tokens (up to exact consecutive duplicates) and fields
pub fn roundtrip() -> Report {
    let bound = "token lists of length <= 4 over positions {0,2}x{0,3}, each token sourceless / with source (2 sources, original positions {0,5}) / with name, duplicates allowed; root present / absent / removed / empty string; 32 whole documents (file, partial contents, ignore list, debug id, range token) alone and as a section of an index map next to a Hermes section, a nested index and an unresolved section with a url (a section with both url and map included); 3 top-level Hermes maps with null metadata and a function map without names";
    let mut cases = 0u64;
    let kinds: Vec<(Option<(u32, u32, u32)>, Option<u32>)> = vec![(None, None), (Some((0, 5, 5)), None), (Some((1, 0, 5)), Some(1)), (Some((0, 0, 0)), Some(0))];
    let pos: Vec<(u32, u32)> = vec![(0, 0), (0, 3), (2, 0), (2, 3)];
    let mut lists: Vec<Vec<T4>> = vec![vec![]];
    let mut layer: Vec<Vec<T4>> = vec![vec![]];
    for _ in 0..3 { let mut next = vec![]; for l in &layer { for &p in &pos { if l.last().map_or(false, |t: &T4| (t.0, t.1) > p) { continue; } for k in &kinds { let mut t = l.clone(); t.push((p.0, p.1, k.0, k.1)); next.push(t); } } } lists.extend(next.iter().cloned()); layer = next; }
    for l in &lists { for rootmode in 0..4 {
        cases += 1;
        let mut b = SourceMapBuilder::new(None);
        b.add_source("a.js"); b.add_source("b.js"); b.add_name("n0"); b.add_name("n1");
        for t in l { b.add_raw(t.0, t.1, t.2.map_or(0, |s| s.1), t.2.map_or(0, |s| s.2), t.2.map(|s| s.0), t.3, false); }
        let mut sm = b.into_sourcemap();
        if rootmode >= 1 { sm.set_source_root(Some("root")); }
        if rootmode == 2 { sm.set_source_root(None::<&str>); }
        if rootmode == 3 { sm.set_source_root(Some("")); }
        let view = |m: &SourceMap| -> Vec<(u32, u32, Option<String>, Option<(u32, u32)>, Option<String>)> {
            let mut v: Vec<_> = m.tokens().map(|t| (t.get_dst_line(), t.get_dst_col(), t.get_source().map(|s| s.to_string()), if t.has_source() { Some((t.get_src_line(), t.get_src_col())) } else { None }, t.get_name().map(|s| s.to_string()))).collect();
            v.dedup(); v };
        let mut out = vec![];
        if let Err(e) = sm.to_writer(&mut out) { return r("roundtrip", bound, cases, Some(format!("to_writer: {e}"))); }
        let back = match guarded(|| SourceMap::from_slice(&out)) { Ok(Ok(m)) => m, o => return r("roundtrip", bound, cases, Some(format!("tokens {l:?}: output {:?} does not decode: {:?}", String::from_utf8_lossy(&out), o.map(|x| x.map(|_| ()))))) };
        if view(&sm) != view(&back) { return r("roundtrip", bound, cases, Some(format!("tokens (line,col,source,name) {l:?}, root mode {rootmode}: before {:?} after write/read {:?} (json {})", view(&sm), view(&back), String::from_utf8_lossy(&out)))); }
        let srcs = |m: &SourceMap| (0..m.get_source_count()).map(|i| m.get_source(i).unwrap().to_string()).collect::<Vec<_>>();
        if srcs(&sm) != srcs(&back) { return r("roundtrip", bound, cases, Some(format!("root mode {rootmode}: sources {:?} became {:?}", srcs(&sm), srcs(&back)))); }
        if sm.get_source_root() != back.get_source_root() { return r("roundtrip", bound, cases, Some(format!("root mode {rootmode} (0 none, 1 'root', 2 set then removed, 3 empty string): source root {:?} became {:?} (json {})", sm.get_source_root(), back.get_source_root(), String::from_utf8_lossy(&out)))); }
        let mut out2 = vec![]; back.to_writer(&mut out2).ok();
        if out != out2 { return r("roundtrip", bound, cases, Some(format!("re-serialising the decoded map changes the bytes: {:?} vs {:?}", String::from_utf8_lossy(&out), String::from_utf8_lossy(&out2)))); }
    } }
    // whole documents: file, names, contents (partial), ignore list, debug id; index maps whose sections are regular / Hermes / nested index maps
    {
        use sourcemap::decode_slice;
        let hermes_doc = r#"{"version":3,"sources":["h.js"],"names":[],"mappings":"AAAA,KAAK","x_facebook_sources":[[{"names":["<global>","foo"],"mappings":"AAA,GCA"}]]}"#;
        let full = |m: &SourceMap| (m.get_file().map(|s| s.to_string()), m.get_source_root().map(|s| s.to_string()), m.sources().map(|s| s.to_string()).collect::<Vec<_>>(), m.names().map(|s| s.to_string()).collect::<Vec<_>>(),
            (0..m.get_source_count()).map(|i| m.get_source_contents(i).map(|s| s.to_string())).collect::<Vec<_>>(), m.ignore_list().cloned().collect::<Vec<u32>>(), m.get_debug_id().map(|d| d.to_string()),
            m.tokens().map(|t| (t.get_dst(), t.get_src_id(), t.get_src(), t.get_name_id(), t.is_range())).collect::<Vec<_>>());
        for cmask in 0u32..4 { for with_file in [false, true] { for ign in [false, true] { for dbg in [false, true] {
            cases += 1;
            let toks = vec![RawToken { dst_line: 0, dst_col: 0, src_line: 1, src_col: 2, src_id: 0, name_id: 0, is_range: false }, RawToken { dst_line: 1, dst_col: 4, src_line: 3, src_col: 0, src_id: 1, name_id: !0, is_range: true }];
            let cts: Vec<Option<std::sync::Arc<str>>> = (0..2).map(|i| if cmask >> i & 1 == 1 { Some(format!("text {i}").into()) } else { None }).collect();
            let mut sm = SourceMap::new(if with_file { Some("out.js".into()) } else { None }, toks, vec!["nm".into()], vec!["a.js".into(), "b.js".into()], Some(cts));
            if ign { sm.add_to_ignore_list(1); }
            if dbg { sm.set_debug_id(Some("00000000-0000-0000-0000-00000000000a".parse().unwrap())); }
            let mut out = vec![]; sm.to_writer(&mut out).ok();
            let back = match guarded(|| SourceMap::from_slice(&out)) { Ok(Ok(m)) => m, o => return r("roundtrip", bound, cases, Some(format!("document {} does not decode: {:?}", String::from_utf8_lossy(&out), o.map(|x| x.map(|_| ()))))) };
            if full(&sm) != full(&back) { return r("roundtrip", bound, cases, Some(format!("document {}: (file, root, sources, names, contents, ignore list, debug id, tokens) {:?} reads back as {:?}", String::from_utf8_lossy(&out), full(&sm), full(&back)))); }
            // the same map as a section of an index map, next to a Hermes section and a nested index
            let hermes = match decode_slice(hermes_doc.as_bytes()) { Ok(m) => m, Err(e) => return r("roundtrip", bound, cases, Some(format!("hermes fixture: {e}"))) };
            let nested = SourceMapIndex::new(None, vec![SourceMapSection::new((0, 0), None, Some(DecodedMap::Regular(sm.clone())))]);
            let idx = SourceMapIndex::new(Some("idx.js".into()), vec![SourceMapSection::new((0, 0), Some("https://h/a.js.map".into()), Some(DecodedMap::Regular(sm.clone()))), SourceMapSection::new((10, 0), None, Some(hermes)), SourceMapSection::new((20, 0), None, Some(DecodedMap::Index(nested))), SourceMapSection::new((30, 0), Some("later.map".into()), None)]);
            let mut o2 = vec![]; idx.to_writer(&mut o2).ok();
            let iback = match guarded(|| decode_slice(&o2)) { Ok(Ok(DecodedMap::Index(i))) => i, o => return r("roundtrip", bound, cases, Some(format!("index document {} does not decode as an index map: {:?}", String::from_utf8_lossy(&o2), o.map(|x| x.map(|_| ()).map_err(|e| e.to_string()))))) };
            let kinds: Vec<&str> = iback.sections().map(|s| match s.get_sourcemap() { Some(DecodedMap::Regular(_)) => "regular", Some(DecodedMap::Hermes(_)) => "hermes", Some(DecodedMap::Index(_)) => "index", None => "none" }).collect();
            if kinds != ["regular", "hermes", "index", "none"] { return r("roundtrip", bound, cases, Some(format!("index map with sections [regular, hermes, index, unresolved] reads back with sections {kinds:?} (json {})", String::from_utf8_lossy(&o2)))); }
            let urls = |i: &SourceMapIndex| i.sections().map(|s| (s.get_offset(), s.get_url().map(|u| u.to_string()))).collect::<Vec<_>>();
            if urls(&idx) != urls(&iback) { return r("roundtrip", bound, cases, Some(format!("index map: section (offset, url) {:?} reads back as {:?}", urls(&idx), urls(&iback)))); }
            for (s0, s1) in idx.sections().zip(iback.sections()) { match (s0.get_sourcemap(), s1.get_sourcemap()) {
                (Some(DecodedMap::Regular(a)), Some(DecodedMap::Regular(b))) => if full(a) != full(b) { return r("roundtrip", bound, cases, Some("regular section of an index map changed on write/read".into())); },
                (Some(DecodedMap::Hermes(a)), Some(DecodedMap::Hermes(b))) => { for c in [0u32, 3, 5, 9] { if a.get_original_function_name(c) != b.get_original_function_name(c) { return r("roundtrip", bound, cases, Some(format!("Hermes section of an index map: function at offset {c} was {:?}, after write/read {:?}", a.get_original_function_name(c), b.get_original_function_name(c)))); } } },
                _ => {} } }
            if idx.lookup_token(10, 5).map(|t| t.get_src()) != iback.lookup_token(10, 5).map(|t| t.get_src()) || idx.lookup_token(21, 9).map(|t| t.get_src()) != iback.lookup_token(21, 9).map(|t| t.get_src()) { return r("roundtrip", bound, cases, Some("index lookups change on write/read".into())); }
        } } } }
    }
    // in-place updates under a source root, then write / read: the reader must see what the in-memory map shows
    for root in [None, Some("r"), Some("/abs/"), Some("")] { for order in 0..3 {
        cases += 1;
        let mut b = SourceMapBuilder::new(Some("f.js"));
        b.add(0, 0, 0, 0, Some("a.js"), Some("n"), false); b.add(0, 5, 1, 0, Some("b.js"), None, false);
        let mut sm = b.into_sourcemap();
        match order { 0 => { sm.set_source_root(root); sm.set_source(1, "new.js"); sm.set_source_contents(0, Some("text")); }
                      1 => { sm.set_source(1, "new.js"); sm.set_source_root(root); sm.set_source_contents(1, Some("text")); }
                      _ => { sm.set_source_root(Some("old")); sm.set_source(0, "x.js"); sm.set_source_root(root); sm.set_source(1, "new.js"); } }
        let mut out = vec![]; sm.to_writer(&mut out).ok();
        let back = match guarded(|| SourceMap::from_slice(&out)) { Ok(Ok(m)) => m, o => return r("roundtrip", bound, cases, Some(format!("map after set_source under root {root:?} does not decode again: {:?}", o.map(|x| x.map(|_| ())))) ) };
        let srcs = |m: &SourceMap| (m.sources().map(|s| s.to_string()).collect::<Vec<_>>(), m.tokens().map(|t| t.get_source().map(|s| s.to_string())).collect::<Vec<_>>(), (0..m.get_source_count()).map(|i| m.get_source_contents(i).map(|s| s.to_string())).collect::<Vec<_>>());
        if srcs(&sm) != srcs(&back) { return r("roundtrip", bound, cases, Some(format!("root {root:?}, update order #{order}: the map shows {:?}, after write/read {:?}", srcs(&sm), srcs(&back)))); }
    } }
    // top-level Hermes maps: null metadata before / after function maps, a function map without names, no function map at all
    {
        use sourcemap::decode_slice;
        for metas in [r#"[null,[{"names":["<global>","foo"],"mappings":"AAA,GCA"}],[{"names":["<global>","bar"],"mappings":"AAA,KCA"}]]"#,
                      r#"[[{"names":["<global>","foo"],"mappings":"AAA,GCA"}],null,[{"names":[],"mappings":"AAA"}]]"#,
                      r#"[[{"names":[],"mappings":"AAA"}],[{"names":["<global>","bar"],"mappings":"AAA,KCA"}],null]"#,
                      r#"[null,null,null]"#, r#"[]"#, r#"[null]"#] {
            cases += 1;
            let doc = format!(r#"{{"version":3,"sources":["a.js","b.js","c.js"],"names":[],"mappings":"AAAA,UCAA,UCAA","x_facebook_sources":{metas}}}"#);
            let h = match guarded(|| decode_slice(doc.as_bytes())) { Ok(Ok(DecodedMap::Hermes(h))) => h, o => return r("roundtrip", bound, cases, Some(format!("Hermes document {doc} does not decode as a Hermes map: {:?}", o.map(|x| x.map(|_| ()).map_err(|e| e.to_string()))))) };
            let mut out = vec![]; h.to_writer(&mut out).ok();
            let back = match guarded(|| decode_slice(&out)) { Ok(Ok(DecodedMap::Hermes(h2))) => h2, o => return r("roundtrip", bound, cases, Some(format!("the library does not read its own Hermes output back as a Hermes map: {} -> {:?}", String::from_utf8_lossy(&out), o.map(|x| x.map(|_| ()).map_err(|e| e.to_string()))))) };
            for c in [0u32, 4, 10, 14, 20, 24, 30] { let (a, b) = (h.get_original_function_name(c).map(|s| s.to_string()), back.get_original_function_name(c).map(|s| s.to_string()));
                if a != b { return r("roundtrip", bound, cases, Some(format!("Hermes map with metadata {metas}: function at offset {c} is {a:?}, after write/read {b:?}"))); } }
            let mut out2 = vec![]; back.to_writer(&mut out2).ok();
            if out != out2 { return r("roundtrip", bound, cases, Some("Hermes map: re-serialising the decoded map changes the bytes".into())); }
        }
    }
    // a decoded map whose names were removed afterwards (tokens keep their old name ids): what is written must still decode, to the same tokens without names
    {
        cases += 1;
        let doc = r#"{"version":3,"sources":["a.js"],"names":["n0","n1"],"mappings":"AAAAA,CAACC;AACA,CAAAD"}"#;
        let mut sm = match SourceMap::from_slice(doc.as_bytes()) { Ok(m) => m, Err(e) => return r("roundtrip", bound, cases, Some(format!("{doc}: {e}"))) };
        sm.remove_names();
        let mut out = vec![];
        match guarded(|| sm.to_writer(&mut out)) { Ok(Ok(())) => {}, o => return r("roundtrip", bound, cases, Some(format!("after remove_names: to_writer {:?}", o.map(|x| x.map_err(|e| e.to_string()))))) }
        let back = match guarded(|| SourceMap::from_slice(&out)) { Ok(Ok(m)) => m, o => return r("roundtrip", bound, cases, Some(format!("a decoded map whose names were removed (remove_names) serialises to {} which does not decode again: {:?}", String::from_utf8_lossy(&out), o.map(|x| x.map(|_| ()).map_err(|e| e.to_string()))))) };
        let a: Vec<_> = sm.tokens().map(|t| (t.get_dst(), t.get_source().map(|s| s.to_string()), t.get_src(), t.get_name().map(|s| s.to_string()))).collect();
        let b: Vec<_> = back.tokens().map(|t| (t.get_dst(), t.get_source().map(|s| s.to_string()), t.get_src(), t.get_name().map(|s| s.to_string()))).collect();
        if a != b { return r("roundtrip", bound, cases, Some(format!("after remove_names: tokens {a:?} read back as {b:?}"))); }
    }
    r("roundtrip", bound, cases, None)
}

/// C07 writer/reader pair: range flags survive serialisation wherever they sit
pub fn rmi_roundtrip() -> Report {
    let bound = "lines of 1..20 tokens on 3 lines (some empty), every single range position, pairs at the ends, a duplicated token before the range token; two lines of 12 tokens (adjacent or one empty line between) with every pair of range positions";
    let mut cases = 0u64;
    for n in 1..=20usize { for line in [0u32, 1, 3] { for dup in [false, true] {
        let mut sets: Vec<Vec<usize>> = (0..n).map(|i| vec![i]).collect();
        sets.push(vec![0, n - 1]); sets.push((0..n).collect()); sets.push(vec![]);
        for set in sets {
            cases += 1;
            let mut b = SourceMapBuilder::new(None);
            b.add(0, 0, 0, 0, Some("a.js"), None, false);
            if dup { b.add(line, 1, 0, 0, Some("a.js"), None, false); b.add(line, 1, 0, 0, Some("a.js"), None, false); }
            for i in 0..n { b.add(line, (i as u32 + 1) * 2, 0, i as u32, Some("a.js"), None, set.contains(&i)); }
            b.add(line + 1, 0, 0, 0, Some("a.js"), None, set.len() == 1 && set[0] == 0);
            let sm = b.into_sourcemap();
            let flags = |m: &SourceMap| { let mut v: Vec<(u32, u32, bool)> = m.tokens().map(|t| (t.get_dst_line(), t.get_dst_col(), t.is_range())).collect(); v.dedup(); v };
            let mut out = vec![];
            match guarded(|| sm.to_writer(&mut out)) { Ok(Ok(())) => {}, o => return r("rmi_roundtrip", bound, cases, Some(format!("{n} tokens on line {line}, range at {set:?}, dup={dup}: to_writer {:?}", o.map(|x| x.map_err(|e| e.to_string()))))) }
            let back = match guarded(|| SourceMap::from_slice(&out)) { Ok(Ok(m)) => m, o => return r("rmi_roundtrip", bound, cases, Some(format!("output does not decode: {:?}", o.map(|x| x.map(|_| ()))))) };
            if flags(&sm) != flags(&back) { return r("rmi_roundtrip", bound, cases, Some(format!("{n} tokens on line {line}, range flags at {set:?}, duplicate before = {dup}: flags before {:?} after {:?}", flags(&sm), flags(&back)))); }
        }
    } } }
    // two range-carrying lines of 12 tokens: every pair (range position on the first line, range position on the second line); the flags of one line must not leak into the other
    for i in 0..12usize { for j in 0..12usize { for gap in [1u32, 2] {
        cases += 1;
        let mut b = SourceMapBuilder::new(None);
        for k in 0..12usize { b.add(0, k as u32 * 2, 0, k as u32, Some("a.js"), None, k == i); }
        for k in 0..12usize { b.add(gap, k as u32 * 2, 1, k as u32, Some("a.js"), None, k == j); }
        let sm = b.into_sourcemap();
        let flags = |m: &SourceMap| -> Vec<(u32, u32, bool)> { m.tokens().map(|t| (t.get_dst_line(), t.get_dst_col(), t.is_range())).collect() };
        let mut out = vec![];
        match guarded(|| sm.to_writer(&mut out)) { Ok(Ok(())) => {}, o => return r("rmi_roundtrip", bound, cases, Some(format!("two lines of 12 tokens, ranges at {i} / {j}: to_writer {:?}", o.map(|x| x.map_err(|e| e.to_string()))))) }
        let back = match guarded(|| SourceMap::from_slice(&out)) { Ok(Ok(m)) => m, o => return r("rmi_roundtrip", bound, cases, Some(format!("output does not decode: {:?}", o.map(|x| x.map(|_| ()))))) };
        if flags(&sm) != flags(&back) { return r("rmi_roundtrip", bound, cases, Some(format!("lines 0 and {gap} with 12 tokens each, range token at index {i} on the first and {j} on the second: range flags (line, col, range) before {:?} after {:?}", flags(&sm).iter().filter(|f| f.2).collect::<Vec<_>>(), flags(&back).iter().filter(|f| f.2).collect::<Vec<_>>()))); }
    } } }
    r("rmi_roundtrip", bound, cases, None)
}

// ------------------------------------------------------------------ C13
fn join(root: Option<&str>, raw: &str) -> String {
    match root { Some(r) if !r.is_empty() => { if !raw.is_empty() && (raw.starts_with('/') || raw.starts_with("http:") || raw.starts_with("https:")) { raw.to_string() } else { format!("{}/{}", r.strip_suffix('/').unwrap_or(r), raw) } } _ => raw.to_string() }
}
/// every source reads as raw name joined with the current root, after any sequence of setter calls
pub fn root_setters() -> Report {
    let bound = "all sequences of <= 3 operations from set_source_root(None | '' | 'r' | 'r/' | 'r//' | '/' | 'w:///' | 'w://') and set_source(0 | 1, 'x.js' | '/abs.js' | 'http://h/y.js' | '' | 'r/x.js' | 'rx.js' | 'http/c.js' | 'https-agent.js') on a 2-source map";
    let mut cases = 0u64;
    #[derive(Clone, Debug)] enum Op { Root(Option<&'static str>), Src(u32, &'static str) }
    let mut ops = vec![];
    for rt in [None, Some(""), Some("r"), Some("r/"), Some("r//"), Some("/"), Some("w:///"), Some("w://")] { ops.push(Op::Root(rt)); }
    // names that merely START with the root text or with "http" are ordinary relative names
    for i in 0..2 { for s in ["x.js", "/abs.js", "http://h/y.js", "", "r/x.js", "rx.js", "http/c.js", "https-agent.js"] { ops.push(Op::Src(i, s)); } }
    let mut seqs: Vec<Vec<Op>> = vec![vec![]]; let mut layer: Vec<Vec<Op>> = vec![vec![]];
    for _ in 0..3 { let mut next = vec![]; for s in &layer { for o in &ops { let mut t = s.clone(); t.push(o.clone()); next.push(t); } } seqs.extend(next.iter().cloned()); layer = next; }
    for seq in &seqs {
        cases += 1;
        let mut sm = SourceMap::new(None, vec![], vec![], vec!["a.js".into(), "sub/b.js".into()], None);
        let mut raw = vec!["a.js".to_string(), "sub/b.js".to_string()]; let mut root: Option<&str> = None;
        for o in seq { match o { Op::Root(rt) => { sm.set_source_root(*rt); root = *rt; } Op::Src(i, s) => { sm.set_source(*i, s); raw[*i as usize] = s.to_string(); } } }
        for i in 0..2u32 { let got = sm.get_source(i).map(|s| s.to_string()); let want = Some(join(root, &raw[i as usize]));
            if got != want { return r("root_setters", bound, cases, Some(format!("after {seq:?}: get_source({i}) = {got:?}, expected {want:?}"))); } }
        let mut out = vec![]; sm.to_writer(&mut out).ok();
        let v: serde_json::Value = serde_json::from_slice(&out).unwrap();
        let ws: Vec<String> = v["sources"].as_array().unwrap().iter().map(|x| x.as_str().unwrap_or("").to_string()).collect();
        if ws != raw { return r("root_setters", bound, cases, Some(format!("after {seq:?}: serialised sources {ws:?}, raw names are {raw:?}"))); }
        let back = SourceMap::from_slice(&out).unwrap();
        for i in 0..2u32 { if back.get_source(i) != sm.get_source(i) { return r("root_setters", bound, cases, Some(format!("after {seq:?}: save/load changes source {i}: {:?} -> {:?}", sm.get_source(i), back.get_source(i)))); } }
    }
    r("root_setters", bound, cases, None)
}
/// builder as an interning model
pub fn builder_model() -> Report {
    let bound = "all sequences of <= 4 operations from add_source / add_name over {'a','b',''} and set_source_contents(id, Some/None) over ids {0,1,2} and add_to_ignore_list over ids {0,1} (before or after the source exists) and set_source(0, new / already used string); all triples of 15 look-alike strings (./a.js, a.js/, A.js, NFC / NFD, ...) through add_source and add_name; all sequences of <= 3 add() calls over 6 source/name combinations (each present or absent)";
    let mut cases = 0u64;
    #[derive(Clone, Debug)] enum Op { Src(&'static str), Name(&'static str), Cont(u32, Option<&'static str>), Ign(u32), Rename(u32, &'static str) }
    let mut ops = vec![]; for s in ["a", "b", ""] { ops.push(Op::Src(s)); ops.push(Op::Name(s)); } for i in 0..3 { ops.push(Op::Cont(i, Some("c"))); ops.push(Op::Cont(i, None)); } for i in 0..2 { ops.push(Op::Ign(i)); }
    // set_source renames a table entry in place; the interning of later adds still goes by the strings ADDED so far (a renamed entry keeps its id, its old string stays taken, its new string is not interned)
    ops.push(Op::Rename(0, "z")); ops.push(Op::Rename(0, "b"));
    let mut seqs: Vec<Vec<Op>> = vec![vec![]]; let mut layer: Vec<Vec<Op>> = vec![vec![]];
    for _ in 0..4 { let mut next = vec![]; for s in &layer { for o in &ops { let mut t = s.clone(); t.push(o.clone()); next.push(t); } } seqs.extend(next.iter().cloned()); layer = next; }
    for seq in &seqs {
        cases += 1;
        let mut b = SourceMapBuilder::new(None);
        let (mut srcs, mut names): (Vec<&str>, Vec<&str>) = (vec![], vec![]); let mut cont: Vec<Option<String>> = vec![];
        let mut shown: Vec<&str> = vec![];   // what each source id reads as (differs from `srcs`, the strings added, after a set_source)
        let mut ign: std::collections::BTreeSet<u32> = Default::default();
        let mut skip = false;
        for o in seq { match o {
            Op::Rename(i, s) => { if *i as usize >= srcs.len() { skip = true; break; } b.set_source(*i, s); shown[*i as usize] = s; }
            Op::Src(s) => { let id = b.add_source(s); let want = srcs.iter().position(|x| x == s).unwrap_or_else(|| { srcs.push(s); shown.push(s); srcs.len() - 1 }); if id as usize != want { return r("builder_model", bound, cases, Some(format!("{seq:?}: add_source({s:?}) = {id}, model says {want}"))); } }
            Op::Name(s) => { let id = b.add_name(s); let want = names.iter().position(|x| x == s).unwrap_or_else(|| { names.push(s); names.len() - 1 }); if id as usize != want { return r("builder_model", bound, cases, Some(format!("{seq:?}: add_name({s:?}) = {id}, model says {want}"))); } }
            Op::Ign(i) => { b.add_to_ignore_list(*i); ign.insert(*i); }
            Op::Cont(i, c) => { if *i as usize >= srcs.len() { skip = true; break; } if cont.len() < srcs.len() { cont.resize(srcs.len(), None); } cont[*i as usize] = c.map(|s| s.to_string()); b.set_source_contents(*i, *c); }
        } }
        if skip { continue; }
        for i in 0..3u32 { let got = b.get_source_contents(i).map(|s| s.to_string()); let want = cont.get(i as usize).cloned().flatten(); if got != want { return r("builder_model", bound, cases, Some(format!("{seq:?}: builder contents of source {i} = {got:?}, model {want:?}"))); } }
        let sm = b.into_sourcemap();
        for (i, s) in shown.iter().enumerate() { if sm.get_source(i as u32) != Some(s) { return r("builder_model", bound, cases, Some(format!("{seq:?}: finished map source {i} = {:?}, model {s:?}", sm.get_source(i as u32)))); }
            let want = cont.get(i).cloned().flatten(); if sm.get_source_contents(i as u32).map(|x| x.to_string()) != want { return r("builder_model", bound, cases, Some(format!("{seq:?}: finished map contents of source {i} = {:?}, model {want:?}", sm.get_source_contents(i as u32)))); } }
        for (i, s) in names.iter().enumerate() { if sm.get_name(i as u32) != Some(s) { return r("builder_model", bound, cases, Some(format!("{seq:?}: finished map name {i} wrong"))); } }
        let gi: std::collections::BTreeSet<u32> = sm.ignore_list().cloned().collect();
        if gi != ign { return r("builder_model", bound, cases, Some(format!("{seq:?}: finished map ignore list {gi:?}, the ids passed to add_to_ignore_list were {ign:?}"))); }
    }
    // add(): every added token resolves to exactly the strings it was added with, whatever mix of source / name is given
    // interning is by exact string: look-alike strings (a normalisation would conflate them) must get ids of their own
    {
        let pool = ["a.js", "./a.js", "a.js/", "/a.js", "A.js", "a.js ", "a\\b.js", "a/b.js", "\u{e9}.js", "e\u{301}.js", "", ".", "../a.js", "a.js?x", "http://h/a.js"];
        for i in 0..pool.len() { for j in 0..pool.len() { for k in 0..pool.len() { for via in 0..2 {
            cases += 1;
            let seq = [pool[i], pool[j], pool[k], pool[i]];
            let mut b = SourceMapBuilder::new(None);
            let mut model: Vec<&str> = vec![];
            for s in seq {
                let id = if via == 0 { b.add_source(s) } else { b.add_name(s) };
                let want = model.iter().position(|x| *x == s).unwrap_or_else(|| { model.push(s); model.len() - 1 });
                if id as usize != want { return r("builder_model", bound, cases, Some(format!("{} of {seq:?} in turn: {s:?} got id {id}, the interning model (equal string -> same id, new string -> next unused id) says {want}", if via == 0 { "add_source" } else { "add_name" }))); }
            }
            let sm = b.into_sourcemap();
            let got: Vec<String> = if via == 0 { sm.sources().map(|x| x.to_string()).collect() } else { sm.names().map(|x| x.to_string()).collect() };
            if got != model.iter().map(|x| x.to_string()).collect::<Vec<_>>() { return r("builder_model", bound, cases, Some(format!("after adding {seq:?} the finished map lists {got:?}, model {model:?}"))); }
        } } } }
    }
    let opts: Vec<(Option<&str>, Option<&str>)> = vec![(None, None), (Some("a.js"), None), (None, Some("n")), (Some("a.js"), Some("n")), (Some("b.js"), Some("m")), (None, Some("m"))];
    let mut tseqs: Vec<Vec<usize>> = vec![vec![]]; let mut tlayer: Vec<Vec<usize>> = vec![vec![]];
    for _ in 0..3 { let mut next = vec![]; for s in &tlayer { for o in 0..opts.len() { let mut t = s.clone(); t.push(o); next.push(t); } } tseqs.extend(next.iter().cloned()); tlayer = next; }
    for seq in &tseqs {
        cases += 1;
        let mut b = SourceMapBuilder::new(None);
        let (mut srcs, mut names): (Vec<&str>, Vec<&str>) = (vec![], vec![]);
        for (k, &o) in seq.iter().enumerate() {
            let (sname, nname) = opts[o];
            let raw = b.add(0, 2 * k as u32, k as u32, 1, sname, nname, false);
            let ws = sname.map(|s| srcs.iter().position(|x| *x == s).unwrap_or_else(|| { srcs.push(s); srcs.len() - 1 }) as u32).unwrap_or(!0);
            let wn = nname.map(|s| names.iter().position(|x| *x == s).unwrap_or_else(|| { names.push(s); names.len() - 1 }) as u32).unwrap_or(!0);
            if (raw.src_id, raw.name_id) != (ws, wn) { return r("builder_model", bound, cases, Some(format!("add calls {:?}: call #{k} returned (src_id, name_id) = ({}, {}), the interning model says ({ws}, {wn})", seq.iter().map(|&o| opts[o]).collect::<Vec<_>>(), raw.src_id, raw.name_id))); }
        }
        let sm = b.into_sourcemap();
        for (k, &o) in seq.iter().enumerate() { let t = sm.get_token(k).unwrap();
            if (t.get_source(), t.get_name()) != opts[o] { return r("builder_model", bound, cases, Some(format!("add calls {:?}: token #{k} resolves to ({:?}, {:?})", seq.iter().map(|&o| opts[o]).collect::<Vec<_>>(), t.get_source(), t.get_name()))); } }
        if sm.get_name_count() as usize != names.len() || sm.get_source_count() as usize != srcs.len() { return r("builder_model", bound, cases, Some(format!("add calls {:?}: {} sources / {} names in the finished map, model {} / {}", seq.iter().map(|&o| opts[o]).collect::<Vec<_>>(), sm.get_source_count(), sm.get_name_count(), srcs.len(), names.len()))); }
    }
    r("builder_model", bound, cases, None)
}

// ------------------------------------------------------------------ C10
type P = (u32, u32);
fn stretches(mut starts: Vec<(P, usize)>) -> Vec<(P, P, usize)> {
    starts.sort_by_key(|s| s.0);
    let mut out = vec![];
    for i in 0..starts.len() {
        let s = starts[i].0;
        let next = if i + 1 < starts.len() { starts[i + 1].0 } else { (u32::MAX, u32::MAX) };
        out.push((s, std::cmp::min(next, (s.0, u32::MAX)), starts[i].1));
    }
    out
}
/// adjust_mappings against the interval-by-interval composition the property states.
/// `dups`: allow duplicated positions (the statement's "non-empty overlap" clause; see known finding D10)
pub fn adjust(dups: bool) -> Report {
    let name: &'static str = if dups { "adjust_dups" } else { "adjust" };
    let bound = "original maps of <= 3 tokens over generated positions {0,1}x{0,3,6} and adjustment maps of <= 3 tokens over original positions {0,1}x{0,2,3,6} with generated displacement {(0,0),(0,+2),(+1,0),(+2,+5),(0,-2),(-1,0),(-1,-2)} wherever the generated position stays >= 0, every order of the adjustment tokens; every 2-token adjustment also with a third token on original line 3 (after every original token)";
    let mut cases = 0u64;
    let mut known: Option<String> = None;
    let opos: Vec<P> = vec![(0, 0), (0, 3), (0, 6), (1, 0), (1, 3)];
    let apos: Vec<P> = vec![(0, 0), (0, 2), (0, 3), (0, 6), (1, 0), (1, 2)];
    let disp: Vec<(i32, i32)> = vec![(0, 0), (0, 2), (1, 0), (2, 5), (0, -2), (-1, 0), (-1, -2)];
    let mut olists: Vec<Vec<P>> = vec![vec![]]; let mut layer: Vec<Vec<P>> = vec![vec![]];
    for _ in 0..3 { let mut next = vec![]; for l in &layer { for &p in &opos { if l.last().map_or(false, |q| if dups { *q > p } else { *q >= p }) { continue; } let mut t = l.clone(); t.push(p); next.push(t); } } olists.extend(next.iter().cloned()); layer = next; }
    let mut alists: Vec<Vec<(P, usize)>> = vec![vec![]]; let mut alayer: Vec<Vec<(P, usize)>> = vec![vec![]];
    for _ in 0..2 { let mut next = vec![]; for l in &alayer { for &p in &apos { if l.iter().any(|q| q.0 == p) { continue; } for d in 0..disp.len() { if (p.0 as i32 + disp[d].0) < 0 || (p.1 as i32 + disp[d].1) < 0 { continue; } let mut t = l.clone(); t.push((p, d)); next.push(t); } } } alists.extend(next.iter().cloned()); alayer = next; }
    // every adjustment list also with one more token on a later original line than any original token (identity displacement)
    let extra: Vec<Vec<(P, usize)>> = alists.iter().filter(|l| l.len() == 2).map(|l| { let mut t = l.clone(); t.push(((3, 0), 0)); t }).collect();
    alists.extend(extra);
    for ol in &olists { for al in &alists {
        cases += 1;
        let otoks: Vec<RawToken> = ol.iter().enumerate().map(|(i, &(l, c))| RawToken { dst_line: l, dst_col: c, src_line: 10 + i as u32, src_col: i as u32, src_id: 0, name_id: !0, is_range: i == 1 }).collect();
        let atoks: Vec<RawToken> = al.iter().map(|&((l, c), d)| RawToken { dst_line: (l as i32 + disp[d].0) as u32, dst_col: (c as i32 + disp[d].1) as u32, src_line: l, src_col: c, src_id: 0, name_id: !0, is_range: false }).collect();
        let mut sm = SourceMap::new(None, otoks.clone(), vec![], vec!["o.js".into()], None);
        let adj = SourceMap::new(None, atoks.clone(), vec![], vec!["x".into()], None);
        if let Err(p) = guarded(|| sm.adjust_mappings(&adj)) { return r(name, bound, cases, Some(format!("original {ol:?}, adjustment {al:?}: {p}"))); }
        // reference
        let os = stretches(otoks.iter().enumerate().map(|(i, t)| ((t.dst_line, t.dst_col), i)).collect());
        let as_ = stretches(atoks.iter().enumerate().map(|(i, t)| ((t.src_line, t.src_col), i)).collect());
        let mut want: Vec<(u32, u32, u32, u32, bool)> = vec![];
        for o in &os { for a in &as_ {
            let lo = std::cmp::max(o.0, a.0); let hi = std::cmp::min(o.1, a.1);
            if lo < hi { let at = &atoks[a.2]; let ot = &otoks[o.2];
                want.push(((lo.0 as i32 + (at.dst_line as i32 - at.src_line as i32)) as u32, (lo.1 as i32 + (at.dst_col as i32 - at.src_col as i32)) as u32, ot.src_line, ot.src_col, ot.is_range)); }
        } }
        want.sort();
        // known finding D10: an original token whose stretch is EMPTY (another original token starts at the same
        // position) still yields a token when it lies strictly inside an adjustment stretch
        let mut want_d10 = want.clone();
        for o in &os { if o.0 == o.1 { for a in &as_ { if a.0 < o.0 && o.0 < a.1 { let at = &atoks[a.2]; let ot = &otoks[o.2];
            want_d10.push(((o.0.0 as i32 + (at.dst_line as i32 - at.src_line as i32)) as u32, (o.0.1 as i32 + (at.dst_col as i32 - at.src_col as i32)) as u32, ot.src_line, ot.src_col, ot.is_range)); } } } }
        want_d10.sort();
        let mut got: Vec<(u32, u32, u32, u32, bool)> = sm.tokens().map(|t| (t.get_dst_line(), t.get_dst_col(), t.get_src_line(), t.get_src_col(), t.is_range())).collect();
        let ordered = got.windows(2).all(|w| (w[0].0, w[0].1) <= (w[1].0, w[1].1));
        got.sort();
        if !ordered { return r(name, bound, cases, Some(format!("original {ol:?}, adjustment (orig pos, displacement#) {al:?}: result not ordered by generated position"))); }
        if dups && got != want && (got == want_d10 || { let mut a = got.clone(); let mut b = want_d10.clone(); a.iter_mut().for_each(|t| { t.2 = 0; t.3 = 0; t.4 = false; }); b.iter_mut().for_each(|t| { t.2 = 0; t.3 = 0; t.4 = false; }); a.sort(); b.sort(); a == b }) {
            if known.is_none() { known = Some(format!("original tokens at {ol:?} (duplicate position => empty stretch), adjustment tokens {al:?}: {} tokens come out, the statement's non-empty overlaps give {}", got.len(), want.len())); }
            continue;
        }
        if got != want { return r(name, bound, cases, Some(format!("original tokens at {ol:?}, adjustment tokens (original position, displacement# of {disp:?}) {al:?}: result (gen line, gen col, orig line, orig col, range) {got:?}, interval composition gives {want:?}"))); }
        if sm.get_source(0) != Some("o.js") { return r(name, bound, cases, Some("sources touched".into())); }
    } }
    if let Some(k) = known { println!("{}", serde_json::json!({"known_finding": "D10", "first_input": k})); }
    r(name, bound, cases, None)
}

// ------------------------------------------------------------------ C05 / C06 / C02
/// decoding documents with extreme numbers: never a panic; agrees with the reference reader while all running sums stay in range
pub fn decode_extreme() -> Report {
    use sourcemap::decode_slice;
    let bound = "mappings of <= 3 segments (on 1..2 lines) whose fields are drawn from {0, 1, -1, 2^31, 2^32-1, -(2^32-1), +-2^61, +-(2^62-1)} with 1..6 fields, against 0..2 sources / names; every returned map is queried, serialised and re-read";
    let mut cases = 0u64;
    let vals: Vec<i64> = vec![0, 1, -1, 1 << 31, (1 << 32) - 1, -((1 << 32) - 1), 1 << 61, -(1 << 61), (1 << 62) - 1, -((1 << 62) - 1)];
    let mut segs: Vec<Vec<i64>> = vec![];
    for n in 1..=6usize { for &a in &vals { for &b in &vals { let mut v = vec![0i64; n]; v[0] = a; if n > 1 { v[n - 1] = b; } if n > 2 { v[1] = if b < 0 { 0 } else { b.min(1) }; } segs.push(v.clone()); if n >= 4 { let mut w = v.clone(); w[2] = a; w[3] = b; segs.push(w); } } } }
    segs.sort(); segs.dedup();
    let pick: Vec<&Vec<i64>> = segs.iter().step_by(3).collect();
    for (i, s1) in pick.iter().enumerate() { for s2 in pick.iter().skip(i % 7).step_by(11) { for sep in [",", ";"] { for (nsrc, nnames) in [(0usize, 0usize), (1, 1), (2, 2)] {
        cases += 1;
        let m = format!("{}{}{}{}{}", enc(s1), sep, enc(s2), sep, enc(s1));
        let json = format!(r#"{{"version":3,"sources":[{}],"names":[{}],"mappings":"{}"}}"#, (0..nsrc).map(|i| format!("\"s{i}\"")).collect::<Vec<_>>().join(","), (0..nnames).map(|i| format!("\"n{i}\"")).collect::<Vec<_>>().join(","), m);
        let got = match guarded(|| decode_slice(json.as_bytes())) { Ok(g) => g, Err(p) => return r("decode_extreme", bound, cases, Some(format!("decode_slice with mappings {m:?} (segments {s1:?} {s2:?} {s1:?}), {nsrc} sources: {p}"))) };
        let want = refs::mappings_decode(&m, "", nsrc as i128, nnames as i128);
        // running sums of positions in range?
        let in_range = { let (mut dc, mut sl, mut sc) = (0i128, 0i128, 0i128); let mut ok = true;
            for line in m.split(';') { dc = 0; for seg in line.split(',') { if let Some(v) = refs::vlq_parse(seg.as_bytes()) { dc += v[0]; if v.len() >= 4 { sl += v[2]; sc += v[3]; } for x in [dc, sl, sc] { if x < 0 || x > u32::MAX as i128 { ok = false; } } } } } ok };
        match (&got, &want) {
            (Ok(_), Err(())) if in_range => return r("decode_extreme", bound, cases, Some(format!("mappings {m:?} (segments {s1:?} {s2:?} {s1:?}) with {nsrc} sources / {nnames} names is accepted, the reference reader rejects it"))),
            (Err(e), Ok(_)) if in_range => return r("decode_extreme", bound, cases, Some(format!("mappings {m:?} rejected ({e}) although well-formed"))),
            _ => {}
        }
        if let Ok(DecodedMap::Regular(sm)) = got {
            let res = guarded(|| { for t in sm.tokens() { let _ = (t.get_source(), t.get_name(), t.to_tuple(), format!("{t}")); } let _ = sm.lookup_token(u32::MAX, u32::MAX); let _ = sm.lookup_token(0, 0);
                let mut out = vec![]; if sm.tokens().map(|t| t.get_dst_line()).max().unwrap_or(0) < 100000 { sm.to_writer(&mut out).map_err(|e| e.to_string())?; SourceMap::from_slice(&out).map(|_| ()).map_err(|e| format!("re-read: {e}"))?; } Ok::<(), String>(()) });
            match res { Ok(Ok(())) => {}, Ok(Err(e)) => return r("decode_extreme", bound, cases, Some(format!("mappings {m:?}: {e}"))), Err(p) => return r("decode_extreme", bound, cases, Some(format!("mappings {m:?}: query / serialisation of the returned map: {p}"))) }
        }
    } } } }
    r("decode_extreme", bound, cases, None)
}

// ------------------------------------------------------------------ C02 (document-level reading)
/// kind dispatch, lenient conversions, debug id precedence, sourceRoot joining, optional keys in any combination
pub fn decode_document() -> Report {
    use sourcemap::decode_slice;
    let bound = "documents with every combination of 9 optional keys (sections / x_facebook_sources / file string|number / names with numbers and null / null sources / sourceRoot / debug_id / debugId / junk header), keys in two orders; names of every JSON type before a numeric and a string name; index documents with two sections of every kind pair (regular / Hermes / nested index), offsets given in and out of order";
    let mut cases = 0u64;
    let id1 = "00000000-0000-0000-0000-000000000001"; let id2 = "00000000-0000-0000-0000-000000000002";
    for mask in 0u32..(1 << 9) { for reversed in [false, true] {
        cases += 1;
        let has = |b: u32| mask >> b & 1 == 1;
        let mut keys: Vec<String> = vec![r#""version":3"#.into()];
        keys.push(if has(0) { r#""sources":["a.js",null,"/abs.js","http://h/x.js"]"#.into() } else { r#""sources":["a.js","b.js","/abs.js","http://h/x.js"]"#.into() });
        keys.push(if has(1) { r#""names":["n0",7,null,true]"#.into() } else { r#""names":["n0","n1","n2","n3"]"#.into() });
        keys.push(r#""mappings":"AAAAA,CCAAC;;CCAAC,EADA""#.into());
        if has(2) { keys.push(r#""file":"out.js""#.into()); } else if has(3) { keys.push(r#""file":12"#.into()); }
        if has(4) { keys.push(r#""sourceRoot":"root/""#.into()); }
        if has(5) { keys.push(format!(r#""debug_id":"{id1}""#)); }
        if has(6) { keys.push(format!(r#""debugId":"{id2}""#)); }
        if has(7) { keys.push(r#""x_facebook_sources":[null,null,null,null]"#.into()); }
        let sections = has(8) && !has(7) && !has(4) && !has(5);
        if sections { keys.push(r#""sections":[{"offset":{"line":0,"column":0},"map":{"version":3,"sources":[],"names":[],"mappings":""}}]"#.into()); }
        if reversed { keys.reverse(); }
        let mut doc = format!("{{{}}}", keys.join(","));
        if mask % 3 == 0 { doc = format!(")]}}'\n{doc}"); }
        let dm = match guarded(|| decode_slice(doc.as_bytes())) { Ok(Ok(m)) => m, o => return r("decode_document", bound, cases, Some(format!("document {doc} does not decode: {:?}", o.map(|x| x.map(|_| ()).map_err(|e| e.to_string()))))) };
        let sm: &SourceMap = match (&dm, sections, has(7)) {
            (DecodedMap::Index(_), true, _) => continue,
            (DecodedMap::Hermes(h), false, true) => h,
            (DecodedMap::Regular(m), false, false) => m,
            _ => return r("decode_document", bound, cases, Some(format!("document {doc}: decoded as the wrong kind (sections={sections}, x_facebook_sources={})", has(7)))),
        };
        let root = if has(4) { Some("root") } else { None };
        let raw = [if true { "a.js" } else { "" }, if has(0) { "" } else { "b.js" }, "/abs.js", "http://h/x.js"];
        for (i, rs) in raw.iter().enumerate() {
            let want = match root { Some(rt) if !(rs.starts_with('/') || rs.starts_with("http:") || rs.starts_with("https:")) || rs.is_empty() => format!("{rt}/{rs}"), _ => rs.to_string() };
            if sm.get_source(i as u32) != Some(&want) { return r("decode_document", bound, cases, Some(format!("document {doc}: source {i} reads {:?}, expected {want:?}", sm.get_source(i as u32)))); }
        }
        let wn = if has(1) { ["n0", "7", "", ""] } else { ["n0", "n1", "n2", "n3"] };
        // what a null / boolean name reads as is not part of the statement: only string and numeric names are compared
        for (i, n) in wn.iter().enumerate() { if has(1) && i >= 2 { continue; } if sm.get_name(i as u32) != Some(n) { return r("decode_document", bound, cases, Some(format!("document {doc}: name {i} reads {:?}, expected {n:?}", sm.get_name(i as u32)))); } }
        let wf = if has(2) { Some("out.js") } else if has(3) { Some("<invalid>") } else { None };
        // a non-string file: the statement does not say what it reads as, only that decoding succeeds
        if !(has(3) && !has(2)) && sm.get_file() != wf { return r("decode_document", bound, cases, Some(format!("document {doc}: file {:?}, expected {wf:?}", sm.get_file()))); }
        let wd = if has(5) { Some(id1) } else if has(6) { Some(id2) } else { None };
        if sm.get_debug_id().map(|d| d.to_string()) != wd.map(|s| s.to_string()) { return r("decode_document", bound, cases, Some(format!("document {doc}: debug id {:?}, expected {wd:?}", sm.get_debug_id()))); }
        let toks: Vec<(u32, u32, u32, u32, u32, Option<&str>)> = sm.tokens().map(|t| (t.get_dst_line(), t.get_dst_col(), t.get_src_id(), t.get_src_line(), t.get_src_col(), t.get_name())).collect();
        let wt = vec![(0u32, 0u32, 0u32, 0u32, 0u32, Some(wn[0])), (0, 1, 1, 0, 0, Some(wn[1])), (2, 1, 2, 0, 0, Some(wn[2])), (2, 3, 2, 0, 0, None)];
        let wt: Vec<(u32, u32, u32, u32, u32, Option<&str>)> = wt.into_iter().map(|t| (t.0, t.1, t.2, t.3, t.4, t.5)).collect();
        let got_short: Vec<_> = toks.iter().map(|t| (t.0, t.1, t.2)).collect(); let want_short: Vec<_> = wt.iter().map(|t| (t.0, t.1, t.2)).collect();
        if got_short != want_short { return r("decode_document", bound, cases, Some(format!("document {doc}: tokens (line, col, source) {got_short:?}, expected {want_short:?}"))); }
    } }
    // numeric names of every JSON number shape read as their decimal text
    {
        cases += 1;
        let doc = r#"{"version":3,"sources":["a.js"],"names":[7,-7,2.5,0,"n"],"mappings":"AAAAA,CAAAC,CAAAC,CAAAC,CAAAC"}"#;
        let want = ["7", "-7", "2.5", "0", "n"];
        match guarded(|| decode_slice(doc.as_bytes())) {
            Ok(Ok(DecodedMap::Regular(sm))) => { for (i, w) in want.iter().enumerate() {
                if sm.get_name(i as u32) != Some(w) { return r("decode_document", bound, cases, Some(format!("document {doc}: numeric name {i} reads {:?}, expected its decimal text {w:?}", sm.get_name(i as u32)))); }
                if sm.get_token(i).and_then(|t| t.get_name()) != Some(w) { return r("decode_document", bound, cases, Some(format!("document {doc}: token {i} resolves to name {:?}, expected {w:?}", sm.get_token(i).and_then(|t| t.get_name())))); } } },
            o => return r("decode_document", bound, cases, Some(format!("document {doc} does not decode as a regular map: {:?}", o.map(|x| x.map(|_| ()).map_err(|e| e.to_string()))))),
        }
    }
    // names that are neither strings nor numbers keep their slot: the names after them keep their indices
    {
        cases += 1;
        let doc = r#"{"version":3,"sources":["a.js"],"names":[null,true,7,"real",[1],{"k":1},"last"],"mappings":"AAAAE,CAAAC,CAAAG"}"#;
        match guarded(|| decode_slice(doc.as_bytes())) {
            Ok(Ok(DecodedMap::Regular(sm))) => {
                let got: Vec<Option<String>> = sm.tokens().map(|t| t.get_name().map(|s| s.to_string())).collect();
                let want = vec![Some("7".to_string()), Some("real".to_string()), Some("last".to_string())];
                if got != want { return r("decode_document", bound, cases, Some(format!("document {doc}: tokens with name indices 2, 3, 6 resolve to {got:?}, expected {want:?}"))); }
                if sm.get_name_count() != 7 { return r("decode_document", bound, cases, Some(format!("document {doc}: {} names, 7 listed", sm.get_name_count()))); } },
            o => return r("decode_document", bound, cases, Some(format!("document {doc} does not decode as a regular map: {:?}", o.map(|x| x.map(|_| ()).map_err(|e| e.to_string()))))),
        }
    }
    for doc in [r#"{"version":3,"sections":[]}"#, r#"{"version":3,"file":"out.js","sections":[]}"#, r#"{"version":3,"sections":[{"offset":{"line":0,"column":0},"map":{"version":3,"sections":[]}}]}"#] {
        cases += 1;
        match guarded(|| decode_slice(doc.as_bytes())) {
            Ok(Ok(DecodedMap::Index(i))) => { for s in i.sections() { if !matches!(s.get_sourcemap(), Some(DecodedMap::Index(_))) { return r("decode_document", bound, cases, Some(format!("document {doc}: the nested document with an empty 'sections' array is not decoded as an index map"))); } } },
            o => return r("decode_document", bound, cases, Some(format!("document {doc} has a 'sections' key but is not decoded as an index map: {:?}", o.map(|x| x.map(|m| match m { DecodedMap::Regular(_) => "regular", DecodedMap::Hermes(_) => "hermes", DecodedMap::Index(_) => "index" }).map_err(|e| e.to_string()))))),
        }
    }
    // index documents: every section goes through the same kind dispatch (regular / Hermes / nested index), sections come out ordered by offset
    let kinds = [("regular", r#"{"version":3,"sources":["a.js"],"names":[],"mappings":"AAAA"}"#),
                 ("hermes", r#"{"version":3,"sources":["a.js"],"names":[],"mappings":"AAAA","x_facebook_sources":[[{"names":["<global>","foo"],"mappings":"AAA,CCA"}]]}"#),
                 ("index", r#"{"version":3,"sections":[{"offset":{"line":0,"column":0},"map":{"version":3,"sources":["n.js"],"names":[],"mappings":"AAAA"}}]}"#)];
    for (k1, d1) in &kinds { for (k2, d2) in &kinds { for swapped in [false, true] {
        cases += 1;
        let (o1, o2) = if swapped { ((3, 0), (0, 0)) } else { ((0, 0), (3, 0)) };
        let doc = format!(r#"{{"version":3,"sections":[{{"offset":{{"line":{},"column":{}}},"map":{d1}}},{{"offset":{{"line":{},"column":{}}},"map":{d2}}}]}}"#, o1.0, o1.1, o2.0, o2.1);
        let dm = match guarded(|| decode_slice(doc.as_bytes())) { Ok(Ok(m)) => m, o => return r("decode_document", bound, cases, Some(format!("index document {doc} does not decode: {:?}", o.map(|x| x.map(|_| ()).map_err(|e| e.to_string()))))) };
        let idx = match dm { DecodedMap::Index(i) => i, _ => return r("decode_document", bound, cases, Some(format!("document {doc} with sections is not decoded as an index map"))) };
        let want: Vec<((u32, u32), &str)> = if swapped { vec![((0, 0), *k2), ((3, 0), *k1)] } else { vec![((0, 0), *k1), ((3, 0), *k2)] };
        let got: Vec<((u32, u32), &str)> = idx.sections().map(|s| (s.get_offset(), match s.get_sourcemap() { Some(DecodedMap::Regular(_)) => "regular", Some(DecodedMap::Hermes(_)) => "hermes", Some(DecodedMap::Index(_)) => "index", None => "none" })).collect();
        if got != want { return r("decode_document", bound, cases, Some(format!("index document {doc}: sections (offset, kind) {got:?}, expected {want:?}"))); }
        for s in idx.sections() { if let Some(DecodedMap::Hermes(h)) = s.get_sourcemap() { let t = h.get_token(0).unwrap();
            if h.get_scope_for_token(t) != Some("<global>") { return r("decode_document", bound, cases, Some(format!("index document {doc}: the Hermes section lost its function map (scope {:?})", h.get_scope_for_token(t)))); } } }
    } } }
    // index documents listing 3..4 sections in EVERY order (several on one line, lines repeated): sections come out ordered by (line, column) and every lookup resolves in the right one
    {
        let offs_all: Vec<Vec<(u32, u32)>> = vec![vec![(0, 0), (0, 20), (0, 40)], vec![(0, 0), (0, 20), (1, 5)], vec![(0, 10), (2, 0), (2, 30), (3, 0)], vec![(0, 0), (0, 20), (0, 40), (1, 5)]];
        for offs in &offs_all {
            let n = offs.len();
            let mut perms: Vec<Vec<usize>> = vec![vec![]];
            for _ in 0..n { let mut next = vec![]; for p in &perms { for i in 0..n { if !p.contains(&i) { let mut q = p.clone(); q.push(i); next.push(q); } } } perms = next; }
            for perm in &perms {
                cases += 1;
                let secs: Vec<String> = perm.iter().map(|&i| format!(r#"{{"offset":{{"line":{},"column":{}}},"map":{{"version":3,"sources":["s{i}.js"],"names":[],"mappings":"AAAA"}}}}"#, offs[i].0, offs[i].1)).collect();
                let doc = format!(r#"{{"version":3,"sections":[{}]}}"#, secs.join(","));
                let idx = match guarded(|| decode_slice(doc.as_bytes())) { Ok(Ok(DecodedMap::Index(i))) => i, o => return r("decode_document", bound, cases, Some(format!("index document {doc} does not decode as an index map: {:?}", o.map(|x| x.map(|_| ()).map_err(|e| e.to_string()))))) };
                let got: Vec<(u32, u32)> = idx.sections().map(|s| s.get_offset()).collect();
                if got != *offs { return r("decode_document", bound, cases, Some(format!("index document listing its sections in the order {perm:?} of {offs:?}: sections() come out as {got:?}, expected them ordered by offset"))); }
                for (i, o) in offs.iter().enumerate() { for dc in [0u32, 3] {
                    let t = idx.lookup_token(o.0, o.1 + dc).and_then(|t| t.get_source().map(|s| s.to_string()));
                    if t != Some(format!("s{i}.js")) { return r("decode_document", bound, cases, Some(format!("index document listing its sections in the order {perm:?} of {offs:?}: lookup at ({}, {}) resolves to {t:?}, expected the section at {o:?} (s{i}.js)", o.0, o.1 + dc))); }
                } }
            }
        }
    }
    r("decode_document", bound, cases, None)
}

// ------------------------------------------------------------------ C06 (document-level rejection)
/// a malformed mappings string makes decoding fail wherever it sits in the document and whichever entry point reads it
pub fn decode_reject() -> Report {
    use sourcemap::{decode, decode_data_url, decode_slice};
    let bound = "9 kinds of malformed segment (2 / 3 / 6 fields, source or name index past the array, index driven negative, cut-off value, 14 digits, foreign character) on the first line / after empty lines / as last segment of a later line; sources / names absent, null, empty or present, sourcesContent longer than sources; rangeMappings absent / empty / shorter / longer; as a regular document, a Hermes document, an index section (with and without url, nested); through decode_slice, decode, the typed from_slice constructors and a data URL; each with a well-formed control";
    let mut cases = 0u64;
    // (sources json or None, names json or None, number of sources, number of names)
    let tables: Vec<(Option<&str>, Option<&str>, usize, usize)> = vec![(Some(r#"["a.js"]"#), Some(r#"["n"]"#), 1, 1), (None, None, 0, 0), (Some("null"), Some("null"), 0, 0), (Some("[]"), Some("[]"), 0, 0), (Some(r#"["a.js","b.js"]"#), None, 2, 0)];
    let contents = [None, Some(r#"["x","y","z"]"#)];
    let rmis = [None, Some(""), Some("B"), Some("B;;;;;;")];
    for (srcs, names, nsrc, nnames) in &tables { for sc in &contents { for rmi in &rmis {
        // a well-formed segment for these tables, and the malformed ones
        let good = if *nsrc > 0 { "AAAA" } else { "A" };
        let mut bads: Vec<(&str, String)> = vec![("2 fields", "AA".into()), ("3 fields", "AAA".into()), ("6 fields", "AAAAAA".into()), ("cut-off value", "g".into()), ("14 digits", "gggggggggggggA".into()), ("foreign character", "A*".into())];
        bads.push(("source index past the array", enc(&[0, *nsrc as i64, 0, 0])));
        bads.push(("source index driven negative", enc(&[0, -1, 0, 0])));
        if *nsrc > 0 { bads.push(("name index past the array", enc(&[0, 0, 0, 0, *nnames as i64]))); }
        for (what, bad) in &bads { for place in 0..3 {
            let mappings = match place { 0 => format!("{bad},{good}"), 1 => format!("{good};;;{bad}"), _ => format!("{good};{good},{bad}") };
            let control = match place { 0 => format!("{good},{good}"), 1 => format!("{good};;;{good}"), _ => format!("{good};{good},{good}") };
            for (is_control, m) in [(true, &control), (false, &mappings)] {
                let mut keys = vec![r#""version":3"#.to_string()];
                if let Some(s) = srcs { keys.push(format!(r#""sources":{s}"#)); }
                if let Some(n) = names { keys.push(format!(r#""names":{n}"#)); }
                if let Some(c) = sc { keys.push(format!(r#""sourcesContent":{c}"#)); }
                if let Some(x) = rmi { keys.push(format!(r#""rangeMappings":"{x}""#)); }
                keys.push(format!(r#""mappings":"{m}""#));
                let regular = format!("{{{}}}", keys.join(","));
                let hermes = format!("{{{},\"x_facebook_sources\":[null]}}", keys.join(","));
                let wrap = |inner: &str, url: bool| format!(r#"{{"version":3,"sections":[{{"offset":{{"line":0,"column":0}},{}"map":{inner}}}]}}"#, if url { r#""url":"x.map","# } else { "" });
                let docs: Vec<(&str, String)> = vec![("regular document", regular.clone()), ("Hermes document", hermes.clone()), ("index section", wrap(&regular, false)), ("index section with a url", wrap(&regular, true)),
                    ("Hermes map in an index section with a url", wrap(&hermes, true)), ("section of a nested index", wrap(&wrap(&regular, true), false))];
                for (kind, doc) in &docs {
                    cases += 1;
                    let b = doc.as_bytes();
                    let url = format!("data:application/json;base64,{}", refs::base64(b));
                    let outcomes = match guarded(|| vec![("decode_slice", decode_slice(b).is_ok()), ("decode", decode(b).is_ok()), ("decode_data_url", decode_data_url(&url).is_ok()),
                        ("typed from_slice", SourceMap::from_slice(b).is_ok() || SourceMapHermes::from_slice(b).is_ok() || SourceMapIndex::from_slice(b).is_ok())]) { Ok(o) => o, Err(p) => return r("decode_reject", bound, cases, Some(format!("{kind} {doc}: {p}"))) };
                    for (entry, ok) in outcomes {
                        if is_control { crate::witness(ok); if !ok { return r("decode_reject", bound, cases, Some(format!("{kind} {doc}: well-formed, but {entry} fails"))); } }
                        else if ok { return r("decode_reject", bound, cases, Some(format!("{kind} {doc}: the mappings hold a segment with {what} ({bad:?}), yet {entry} returns a map"))); }
                    }
                }
            }
        } }
    } } }
    r("decode_reject", bound, cases, None)
}
