use crate::{guarded, Report};
use sourcemap::{decode_data_url, is_sourcemap_slice, locate_sourcemap_reference_slice, make_relative_path, DecodedMap, SourceMap, SourceMapBuilder, SourceMapRef, SourceView};

fn r(h: &'static str, bound: &str, cases: u64, cex: Option<String>) -> Report { Report { harness: h, bound: bound.into(), cases, cex } }

// ------------------------------------------------------------------ C19
/// resolving make_relative_path(base, target) against the directory of base gives target
pub fn relpath() -> Report {
    let depth = if crate::deep() { 5 } else { 4 };
    let bound_s = format!("all pairs of '/'-separated absolute or relative paths of 1..{depth} components over names {{a,b,ab}} -- one name a string prefix of another -- (plus '\\\\'-separated variants of the base)");
    let bound = bound_s.as_str();
    let mut cases = 0u64;
    let names = ["a", "b", "ab"];
    let mut paths: Vec<Vec<&str>> = vec![]; let mut layer: Vec<Vec<&str>> = vec![vec![]];
    for _ in 0..depth { let mut next = vec![]; for l in &layer { for n in names { let mut t = l.clone(); t.push(n); next.push(t); } } paths.extend(next.iter().cloned()); layer = next; }
    for abs in [true, false] { for sep in ["/", "\\"] { for b in &paths { for t in &paths {
        cases += 1;
        let base = format!("{}{}", if abs { sep } else { "" }, b.join(sep));
        let target = format!("{}{}", if abs { "/" } else { "" }, t.join("/"));
        let rel = match guarded(|| make_relative_path(&base, &target)) { Ok(x) => x, Err(p) => return r("relpath", bound, cases, Some(format!("make_relative_path({base:?}, {target:?}): {p}"))) };
        // resolve rel against dir(base)
        let mut dir: Vec<&str> = b[..b.len() - 1].to_vec();
        let mut ok = true;
        if rel != "." { for comp in rel.split('/') { match comp { "" => {}, ".." => { if dir.pop().is_none() { ok = false; } }, c => dir.push(c) } } }
        crate::witness(rel.starts_with("../") && !rel.ends_with("../"));
        if !ok || dir != *t { return r("relpath", bound, cases, Some(format!("make_relative_path({base:?}, {target:?}) = {rel:?}; resolved against the base directory this gives {:?}, not the target", dir.join("/")))); }
        if rel == "." && *t != b[..b.len() - 1] { return r("relpath", bound, cases, Some(format!("make_relative_path({base:?}, {target:?}) = \".\" although the target is not the base directory"))); }
    } } } }
    r("relpath", bound, cases, None)
}

// ------------------------------------------------------------------ C18
pub fn discover() -> Report {
    let bound = "large texts (5 000 / 9 000 / 70 000 bytes in lines of 40 / 8 190 / 8 192 bytes) with the comment on the first / a middle / the last line / twice / absent, via slice and reader; texts of <= 4 lines drawn from {code, both comment forms, indented / mid-line look-alikes, empty URL}, \\n and \\r\\n endings, with/without final newline, each through the slice locator, the reader locator and SourceView::sourcemap_reference; data URLs of maps with 0..2 tokens, placed in a comment and rediscovered; detection (slice and reader) on the serialisation of regular maps (3 sources, every contents subset incl. null entries, names, root, ignore list, range token on/off), index maps over them with an unresolved section, Hermes maps with null / partial metadata and contents";
    let mut cases = 0u64;
    let lines: Vec<(&str, Option<(&str, bool)>)> = vec![
        ("var a = 1;", None), ("//# sourceMappingURL=foo.js.map", Some(("foo.js.map", false))), ("//@ sourceMappingURL=old.map  ", Some(("old.map", true))),
        ("//# sourceMappingURL= spaced.map", Some(("spaced.map", false))), ("//# sourceMappingURL=\tt.map\t", Some(("t.map", false))),
        (" //# sourceMappingURL=indented.map", None), ("x //# sourceMappingURL=mid.map", None), ("//# sourceMappingURL=", Some(("", false))), ("// # sourceMappingURL=no.map", None), ("", None)];
    let mut texts: Vec<Vec<usize>> = vec![]; let mut layer: Vec<Vec<usize>> = vec![vec![]];
    for _ in 0..3 { let mut next = vec![]; for l in &layer { for i in 0..lines.len() { let mut t = l.clone(); t.push(i); next.push(t); } } texts.extend(next.iter().cloned()); layer = next; }
    for t in &texts { for nl in ["\n", "\r\n"] { for fin in [false, true] {
        cases += 1;
        let mut s = t.iter().map(|&i| lines[i].0).collect::<Vec<_>>().join(nl); if fin { s.push_str(nl); }
        let want = t.iter().filter_map(|&i| lines[i].1).next();
        let got = match guarded(|| locate_sourcemap_reference_slice(s.as_bytes())) { Ok(Ok(g)) => g, o => return r("discover", bound, cases, Some(format!("locate_sourcemap_reference_slice({s:?}) = {:?}", o.map(|x| x.map(|_| ()))))) };
        let g2 = got.as_ref().map(|x| match x { SourceMapRef::Ref(u) => (u.as_str(), false), SourceMapRef::LegacyRef(u) => (u.as_str(), true) });
        crate::witness(want.is_some());
        if g2 != want { return r("discover", bound, cases, Some(format!("text {s:?}: discovered {g2:?}, the first line beginning with a sourceMappingURL comment gives {want:?}"))); }
        // the same through a SourceView and through the reader variant
        let gv = match guarded(|| SourceView::new(s.as_str().into()).sourcemap_reference()) { Ok(Ok(g)) => g, o => return r("discover", bound, cases, Some(format!("SourceView::sourcemap_reference on {s:?} = {:?}", o.map(|x| x.map(|_| ()))))) };
        let gv2 = gv.as_ref().map(|x| match x { SourceMapRef::Ref(u) => (u.as_str(), false), SourceMapRef::LegacyRef(u) => (u.as_str(), true) });
        if gv2 != want { return r("discover", bound, cases, Some(format!("text {s:?}: SourceView::sourcemap_reference discovered {gv2:?}, the first line beginning with a sourceMappingURL comment gives {want:?}"))); }
        let gr = match guarded(|| sourcemap::locate_sourcemap_reference(s.as_bytes())) { Ok(Ok(g)) => g, o => return r("discover", bound, cases, Some(format!("locate_sourcemap_reference (reader) on {s:?} = {:?}", o.map(|x| x.map(|_| ()))))) };
        let gr2 = gr.as_ref().map(|x| match x { SourceMapRef::Ref(u) => (u.as_str(), false), SourceMapRef::LegacyRef(u) => (u.as_str(), true) });
        if gr2 != want { return r("discover", bound, cases, Some(format!("text {s:?}: locate_sourcemap_reference (reader) discovered {gr2:?}, expected {want:?}"))); }
    } } }
    // large files: the comment on the first / a middle / the last line of a text of 5 000 .. 70 000 bytes (beyond any read-buffer or "tail" size), two comments (the first wins),
    // through the slice and the reader entry point
    for total in [5_000usize, 9_000, 70_000] { for filler in [40usize, 8_190, 8_192] { for place in 0..5usize {
        cases += 1;
        let nlines = (total / (filler + 1)).max(3);
        let mut ls: Vec<String> = (0..nlines).map(|i| format!("{}{}", i % 10, "x".repeat(filler - 1))).collect();
        let want: Option<(&str, bool)> = match place {
            0 => { ls[0] = "//# sourceMappingURL=first.map".into(); Some(("first.map", false)) }
            1 => { ls[nlines / 2] = "//@ sourceMappingURL=middle.map".into(); Some(("middle.map", true)) }
            2 => { ls[nlines - 1] = "//# sourceMappingURL=last.map".into(); Some(("last.map", false)) }
            3 => { ls[1] = "//# sourceMappingURL=one.map".into(); ls[nlines - 1] = "//# sourceMappingURL=two.map".into(); Some(("one.map", false)) }
            _ => None };
        let text = ls.join("\n");
        for via in ["slice", "reader"] {
            let got = match guarded(|| if via == "slice" { locate_sourcemap_reference_slice(text.as_bytes()) } else { sourcemap::locate_sourcemap_reference(text.as_bytes()) }) { Ok(Ok(g)) => g, o => return r("discover", bound, cases, Some(format!("locate_sourcemap_reference ({via}) on a text of {} bytes: {:?}", text.len(), o.map(|x| x.map(|_| ()).map_err(|e| e.to_string()))))) };
            let g2 = got.as_ref().map(|x| match x { SourceMapRef::Ref(u) => (u.as_str(), false), SourceMapRef::LegacyRef(u) => (u.as_str(), true) });
            if g2 != want { return r("discover", bound, cases, Some(format!("text of {} bytes in lines of {filler} bytes, reference comment placement #{place} ({via}): discovered {g2:?}, the first line beginning with a sourceMappingURL comment gives {want:?}", text.len()))); }
        }
    } } }
    for ntok in 0..3u32 { for root in [None, Some("r")] { for pad in 0..4usize { for blank in ["", " "] {
        cases += 1;
        // source names with '>' '?' '~' at every alignment: their base64 uses the digits 62 and 63
        let odd = format!("{}>>>???~~~\u{ff}\u{3ff}.js", "x".repeat(pad));
        let mut b = SourceMapBuilder::new(Some("f.js"));
        b.add_source(&odd);
        for i in 0..ntok { b.add(i, i * 3, i, 1, Some("a.js"), Some("n"), false); }
        b.set_source_root(root);
        let sm = b.into_sourcemap();
        let url = match sm.to_data_url() { Ok(u) => u, Err(e) => return r("discover", bound, cases, Some(format!("to_data_url: {e}"))) };
        let view = |m: &SourceMap| m.tokens().map(|t| (t.get_dst(), t.get_source().map(|s| s.to_string()), t.get_src(), t.get_name().map(|s| s.to_string()))).collect::<Vec<_>>();
        let mut embs = vec![];
        for form in ["//#", "//@"] {
            let text = format!("var x;\n{form} sourceMappingURL={blank}{url}\n");
            let found = locate_sourcemap_reference_slice(text.as_bytes()).ok().flatten();
            embs.push(found.as_ref().and_then(|f| f.get_embedded_sourcemap().ok().flatten()));
        }
        let emb_legacy = embs.pop().unwrap(); let emb = embs.pop().unwrap();
        for (what, dm) in [("decode_data_url", guarded(|| decode_data_url(&url)).ok().and_then(|x| x.ok())), ("discovered from a //# comment + get_embedded_sourcemap", emb), ("discovered from a legacy //@ comment + get_embedded_sourcemap", emb_legacy)] {
            match dm { Some(DecodedMap::Regular(m2)) => { if view(&m2) != view(&sm) { return r("discover", bound, cases, Some(format!("{what}: map with {ntok} tokens, root {root:?} comes back different"))); } }
                _ => return r("discover", bound, cases, Some(format!("{what} fails for the library's own data URL ({ntok} tokens, root {root:?}): {}", &url[..url.len().min(60)]))) }
        }
        let mut out = vec![]; sm.to_writer(&mut out).ok();
        if !is_sourcemap_slice(&out) { return r("discover", bound, cases, Some(format!("serialised map not recognised by is_sourcemap_slice: {}", String::from_utf8_lossy(&out)))); }
    } } } }
    // every serialised map, index or Hermes map is recognised by the detection predicate (slice and reader form)
    {
        use sourcemap::{is_sourcemap, RawToken, SourceMapHermes, SourceMapIndex, SourceMapSection};
        let mut docs: Vec<(String, Vec<u8>)> = vec![];
        for cmask in 0u32..8 { for with_names in [false, true] { for with_root in [false, true] { for ign in [false, true] { for rng in [false, true] {
            let srcs: Vec<std::sync::Arc<str>> = vec!["a.js".into(), "b.js".into(), "c.js".into()];
            let names: Vec<std::sync::Arc<str>> = if with_names { vec!["n".into()] } else { vec![] };
            let toks: Vec<RawToken> = (0..3u32).map(|i| RawToken { dst_line: i / 2, dst_col: (i % 2) * 4, src_line: i, src_col: 1, src_id: i, name_id: if with_names { 0 } else { !0 }, is_range: rng && i == 1 }).collect();
            let cts: Vec<Option<std::sync::Arc<str>>> = (0..3).map(|i| if cmask >> i & 1 == 1 { Some(format!("text {i}").into()) } else { None }).collect();
            let mut sm = SourceMap::new(Some("out.js".into()), toks, names, srcs, Some(cts));
            if with_root { sm.set_source_root(Some("root")); }
            if ign { sm.add_to_ignore_list(1); }
            let mut out = vec![]; sm.to_writer(&mut out).ok();
            docs.push((format!("regular map, contents mask {cmask:03b}, names {with_names}, root {with_root}, ignore list {ign}, range token {rng}"), out));
            if cmask % 3 == 1 && !with_root {
                let idx = SourceMapIndex::new(Some("idx.js".into()), vec![SourceMapSection::new((0, 0), None, Some(DecodedMap::Regular(sm.clone()))), SourceMapSection::new((5, 0), Some("other.map".into()), None)]);
                let mut o2 = vec![]; idx.to_writer(&mut o2).ok();
                docs.push((format!("index map over the regular map (contents mask {cmask:03b}) plus an unresolved section"), o2));
            }
        } } } } }
        for fm in ["null", "[{\"names\":[\"<global>\",\"f\"],\"mappings\":\"AAA,CCA\"}]"] { for sc in ["", ",\"sourcesContent\":[null,\"b();\"]", ",\"sourcesContent\":[\"a();\",null]"] {
            let doc = format!("{{\"version\":3,\"sources\":[\"a.js\",\"b.js\"],\"names\":[],\"mappings\":\"AAAA,CCAA\",\"x_facebook_sources\":[{fm},null]{sc}}}");
            match guarded(|| SourceMapHermes::from_slice(doc.as_bytes())) { Ok(Ok(h)) => { let mut o3 = vec![]; h.to_writer(&mut o3).ok(); docs.push((format!("Hermes map written back from {doc}"), o3)); }, o => return r("discover", bound, cases, Some(format!("Hermes document {doc} does not decode: {:?}", o.map(|x| x.map(|_| ()).map_err(|e| e.to_string()))))) }
        } }
        for (what, bytes) in &docs {
            cases += 1;
            if guarded(|| sourcemap::decode_slice(bytes)).ok().and_then(|x| x.ok()).is_none() { return r("discover", bound, cases, Some(format!("{what}: the library does not decode its own output {}", String::from_utf8_lossy(bytes)))); }
            if !is_sourcemap_slice(bytes) { return r("discover", bound, cases, Some(format!("{what}: not recognised by is_sourcemap_slice: {}", String::from_utf8_lossy(bytes)))); }
            if !is_sourcemap(&bytes[..]) { return r("discover", bound, cases, Some(format!("{what}: not recognised by is_sourcemap (reader): {}", String::from_utf8_lossy(bytes)))); }
        }
    }
    r("discover", bound, cases, None)
}

// ------------------------------------------------------------------ C15
fn ref_lines(s: &str) -> Vec<&str> {
    let b = s.as_bytes(); let mut out = vec![]; let mut start = 0; let mut i = 0;
    while i < b.len() { if b[i] == b'\n' { out.push(&s[start..i]); i += 1; start = i; } else if b[i] == b'\r' { out.push(&s[start..i]); i += if i + 1 < b.len() && b[i + 1] == b'\n' { 2 } else { 1 }; start = i; } else { i += 1; } }
    out.push(&s[start..]); out
}
fn ref_slice(line: &str, col: u64, span: u64) -> Option<&str> {
    let (mut off, mut idx) = (0usize, 0u64); let mut it = line.chars().peekable();
    while let Some(&c) = it.peek() { if idx >= col { break; } it.next(); off += c.len_utf8(); idx += c.len_utf16() as u64; }
    let mut end = off;
    for c in it { if idx >= col + span { break; } end += c.len_utf8(); idx += c.len_utf16() as u64; }
    if idx < col + span { None } else { line.get(off..end) }
}
pub fn sourceview() -> Report {
    let maxlen = if crate::deep() { 7 } else { 5 };
    let bound_s = format!("all texts of length <= {maxlen} over {{a, LF, CR, e-acute, U+20AC, U+1F600}}; access orders per text: reverse, forward with the count first, missing line first, late line first, every single line then the count, every adjacent pair late one first then the count; the iterator after each; a clone taken after the first request and a clone of the fully read view (built by from_string) read backwards, then counted; all (col, span) in 0..=len+1 per line plus extreme values");
    let bound = bound_s.as_str();
    let mut cases = 0u64;
    let alpha = ['a', '\n', '\r', 'é', '€', '😀'];
    let mut texts: Vec<String> = vec![String::new()]; let mut layer: Vec<String> = vec![String::new()];
    for _ in 0..maxlen { let mut next = vec![]; for l in &layer { for c in alpha { let mut t = l.clone(); t.push(c); next.push(t); } } texts.extend(next.iter().cloned()); layer = next; }
    for t in &texts {
        let want = ref_lines(t); let n = want.len() as u32;
        let mut orders: Vec<Vec<u32>> = vec![(0..=n).rev().collect(), (0..=n).collect(), vec![n + 3, 0, n.saturating_sub(1)], vec![n.saturating_sub(1), 0, n]];
        for i in 0..n { orders.push(vec![i]); if i + 1 < n { orders.push(vec![i + 1, i]); } }   // one line (or two, late one first), then the count
        for (k, ord) in orders.iter().enumerate() {
            cases += 1;
            let sv = SourceView::new(t.as_str().into());
            if k == 1 { let c = match guarded(|| sv.line_count()) { Ok(c) => c, Err(p) => return r("sourceview", bound, cases, Some(format!("line_count on {t:?}: {p}"))) }; if c != want.len() { return r("sourceview", bound, cases, Some(format!("text {t:?}: line_count() = {c} before any access, expected {}", want.len()))); } }
            for &i in ord {
                let g = match guarded(|| sv.get_line(i).map(|s| s.to_string())) { Ok(g) => g, Err(p) => return r("sourceview", bound, cases, Some(format!("get_line({i}) on {t:?}: {p}"))) };
                let w = want.get(i as usize).map(|s| s.to_string());
                if g != w { return r("sourceview", bound, cases, Some(format!("text {t:?}, requests in order {ord:?}: get_line({i}) = {g:?}, expected {w:?}"))); }
            }
            let c = sv.line_count(); if c != want.len() { return r("sourceview", bound, cases, Some(format!("text {t:?} after requests {ord:?}: line_count() = {c}, expected {}", want.len()))); }
            let it: Vec<String> = sv.lines().map(|s| s.to_string()).collect();
            if it != want.iter().map(|s| s.to_string()).collect::<Vec<_>>() { return r("sourceview", bound, cases, Some(format!("text {t:?}: lines() yields {it:?}, expected {want:?}"))); }
            // a clone taken after some requests (and a view built by from_string) answers like a fresh view, in any order
            let first = SourceView::from_string(t.clone());
            if let Some(&i0) = ord.first() { let _ = first.get_line(i0); }
            for (what, v) in [("clone taken after the first request", first.clone()), ("clone of the fully read view", sv.clone())] {
                for i in (0..=n).rev() {
                    let g = match guarded(|| v.get_line(i).map(|s| s.to_string())) { Ok(g) => g, Err(p) => return r("sourceview", bound, cases, Some(format!("{what}: get_line({i}) on {t:?}: {p}"))) };
                    let w = want.get(i as usize).map(|s| s.to_string());
                    if g != w { return r("sourceview", bound, cases, Some(format!("text {t:?}, {what} (requests before: {ord:?}): get_line({i}) = {g:?}, expected {w:?}"))); }
                }
                let c = v.line_count(); if c != want.len() { return r("sourceview", bound, cases, Some(format!("text {t:?}, {what}: line_count() = {c}, expected {}", want.len()))); }
            }
        }
        let sv = SourceView::new(t.as_str().into());
        for (li, line) in want.iter().enumerate() { let len16 = line.encode_utf16().count() as u32;
            let mut triples: Vec<(u32, u32)> = vec![]; for c in 0..=len16 + 1 { for s in 0..=len16 + 1 { triples.push((c, s)); } }
            triples.extend([(u32::MAX, 1), (1, u32::MAX), (u32::MAX, u32::MAX), (0, u32::MAX)]);
            for (c, s) in triples { cases += 1;
                let g = match guarded(|| sv.get_line_slice(li as u32, c, s).map(|x| x.to_string())) { Ok(g) => g, Err(p) => return r("sourceview", bound, cases, Some(format!("get_line_slice({li}, {c}, {s}) on line {line:?}: {p}"))) };
                let w = ref_slice(line, c as u64, s as u64).map(|x| x.to_string());
                crate::witness(w.as_ref().map_or(false, |x| !x.is_empty()));
                if g != w { return r("sourceview", bound, cases, Some(format!("line {line:?}: get_line_slice({li}, {c}, {s}) = {g:?}, expected {w:?}"))); } } }
    }
    r("sourceview", bound, cases, None)
}

// ------------------------------------------------------------------ C17
fn id_start(c: char) -> bool { c == '$' || c == '_' || c.is_ascii_alphabetic() || matches!(c, 'é' | 'λ' | 'ü') }
fn id_cont(c: char) -> bool { id_start(c) || c.is_ascii_digit() || c == '\u{200c}' || c == '\u{200d}' || matches!(c, '\u{301}' | '\u{663}' | '\u{203f}') }   // ID_Continue members used by the programs below
fn ident(word: &str) -> Option<&str> {
    let mut it = word.char_indices();
    let (_, c0) = it.next()?; if !id_start(c0) { return None; }
    let mut end = c0.len_utf8();
    for (i, c) in it { if id_cont(c) { end = i + c.len_utf8(); } else { break; } }
    Some(&word[..end])
}
fn text_at(line: &str, col: u32) -> Option<&str> {
    let (mut off, mut idx) = (0usize, 0u32);
    for c in line.chars() { if idx >= col { break; } off += c.len_utf8(); idx += c.len_utf16() as u32; }
    if off >= line.len() { return None; }
    line[off..].split_whitespace().next().and_then(ident)
}
pub fn function_name() -> Report {
    let bound = "10 minified programs (several functions per line, two lines, non-ASCII / astral characters before and inside identifiers, names that are prefixes of one another, a joiner directly after `function`, the same function name declared twice), tokens every 1 / 2 / 3 / 5 UTF-16 columns plus every word start, and on word starts only (so that `function NAME` token pairs exist) (and past the end; never inside a surrogate pair), all tokens named or every 2nd / 3rd / 4th one without a name, names starting with / consisting of '_' and '$' or starting with a joiner, identifiers continued by a combining mark / non-ASCII digit / U+203F, every start token x 33 candidate names, through the token and through positions (on the token, one column after it, on the line after the last token); the two-line programs again as index maps with one section per line; one 140-token line for the 128-token window";
    let mut cases = 0u64;
    let programs: Vec<Vec<&str>> = vec![
        vec!["function fn1(){} var é2=function g(){}", "function fn(){}function fn1 (){}"],
        vec!["/*😀*/function λx(a){return a}", "x=function(){};function $_(){}"],
        vec!["x;function f(){\"😀\";g()} function g(){\"😀😀\";f()}"],
        vec!["function\u{200d}f(){}", "function f\u{200d}g(){} function   h(){}"],
        vec!["", "function a(){}"],
        vec!["function é(){} function fé (){}", "var λ=function ü(){}"],
        vec!["function _(){}function _a(){}function a_(){}", "function $(){} function $1(){} function _0x1f(){}"],
        vec!["function e\u{301}(){} function e(){}", "function k\u{663}(){} function a\u{203f}b(){}"],
        vec!["function \u{200d}n(){} function n(){}", "function \u{200c}m(){} function m\u{200c}(){}"],
        vec!["function r(){} function q(){} function r(){} x"],
    ];
    let names = ["fn1", "fn", "g", "é2", "λx", "$_", "f\u{200d}g", "function", "1x", "", "h", "a", "é", "fé", "ü", "λ", "_", "_a", "a_", "$", "$1", "_0x1f", "e\u{301}", "e", "k\u{663}", "k", "a\u{203f}b", "\u{200d}n", "n", "\u{200c}m", "m\u{200c}", "r", "q"];
    for prog in &programs {
        let text = prog.join("\n");
        let sv = SourceView::new(text.as_str().into());
        for (stride, nameless) in [(1u32, 0usize), (2, 0), (3, 0), (5, 0), (1000, 0), (1000, 2), (1000, 3), (1000, 4), (1, 2), (1, 3)] {
        let mut b = SourceMapBuilder::new(None);
        let mut pos = vec![];
        for (l, line) in prog.iter().enumerate() { let n16 = line.encode_utf16().count() as u32; let mut c = 0; while c <= n16 + 1 { pos.push((l as u32, c)); c += stride; }
            // always also a token on every identifier / keyword start so that pairs exist for sparse strides
            let mut col = 0u32; let mut prev_ws = true; for ch in line.chars() { if prev_ws && !ch.is_whitespace() && !pos.contains(&(l as u32, col)) { pos.push((l as u32, col)); } prev_ws = ch.is_whitespace() || ch == '(' || ch == '=' || ch == ';' || ch == '}'; col += ch.len_utf16() as u32; } }
        // columns inside a surrogate pair are not positions of any character: excluded (the property places tokens on, before and after declarations)
        pos.retain(|&(l, c)| { let mut col = 0u32; for ch in prog[l as usize].chars() { if ch.len_utf16() == 2 && c == col + 1 { return false; } col += ch.len_utf16() as u32; } true });
        pos.sort(); pos.dedup();
        // `nameless` = m > 0: every m-th token (index m-1, 2m-1, ...) carries no name (a pair found there resolves to nothing; the walk must stop all the same)
        let tok_name = |k: usize| if nameless > 0 && k % nameless == nameless - 1 { None } else { Some(format!("orig{k}")) };
        for (k, &(l, c)) in pos.iter().enumerate() { b.add(l, c, k as u32, 0, Some("o.js"), tok_name(k).as_deref(), false); }
        let sm = b.into_sourcemap();
        let texts: Vec<Option<&str>> = pos.iter().map(|&(l, c)| text_at(prog[l as usize], c)).collect();
        for start in 0..pos.len() { for name in names {
            cases += 1;
            let tok = sm.get_token(start).unwrap();
            let got = match guarded(|| sv.get_original_function_name(tok, name).map(|s| s.to_string())) { Ok(g) => g, Err(p) => return r("function_name", bound, cases, Some(format!("program {prog:?}, token #{start} at {:?}, name {name:?}: {p}", pos[start]))) };
            let valid = ident(name).map_or(false, |i| i.len() == name.len());
            let mut want = None;
            if valid { let lo = start.saturating_sub(127);
                for j in (lo..=start).rev() { if texts[j] == Some(name) && j > lo && j >= 1 && texts[j - 1] == Some("function") { want = tok_name(j); break; } } }
            crate::witness(want.is_some() && name != "function");
            if got != want { return r("function_name", bound, cases, Some(format!("program {prog:?}, tokens every {stride} columns: resolving {name:?} from token #{start} at (line,col) {:?} gives {got:?}, expected {want:?}", pos[start]))); }
            // the position-based entry points: the walk starts at the token looked up for the position (C04: greatest position not after it); queried on the token and one column after it
            for dc in [0u32, 1] {
                let (ql, qc) = (pos[start].0, pos[start].1 + dc);
                if dc == 1 && pos.get(start + 1) == Some(&(ql, qc)) { continue; }   // that position belongs to the next token
                cases += 1;
                let got2 = match guarded(|| sm.get_original_function_name(ql, qc, name, &sv).map(|s| s.to_string())) { Ok(g) => g, Err(p) => return r("function_name", bound, cases, Some(format!("program {prog:?}: SourceMap::get_original_function_name({ql}, {qc}, {name:?}): {p}"))) };
                if got2 != want { return r("function_name", bound, cases, Some(format!("program {prog:?}, tokens every {stride} columns: SourceMap::get_original_function_name({ql}, {qc}, {name:?}) gives {got2:?}, but walking back from the token looked up there (#{start} at {:?}) the first `function {name}` pair gives {want:?}", pos[start]))); }
            }
            // a position on a LATER line than the last token (a line without tokens of its own) resolves through the closest preceding token all the same
            if start + 1 == pos.len() {
                cases += 1;
                let (ql, qc) = (pos[start].0 + 1, 0u32);
                let got3 = match guarded(|| sm.get_original_function_name(ql, qc, name, &sv).map(|s| s.to_string())) { Ok(g) => g, Err(p) => return r("function_name", bound, cases, Some(format!("program {prog:?}: SourceMap::get_original_function_name({ql}, {qc}, {name:?}): {p}"))) };
                if got3 != want { return r("function_name", bound, cases, Some(format!("program {prog:?}, tokens every {stride} columns: SourceMap::get_original_function_name({ql}, {qc}, {name:?}) -- a position on the line after the last token -- gives {got3:?}, but the closest preceding token is #{start} at {:?} and walking back from it gives {want:?}", pos[start]))); }
            }
        } }
        }
    }
    // index maps: one section per line of the minified text; a position resolves through the section it falls in, and the text of that
    // section's tokens sits at their ABSOLUTE position in the view.  Known finding D18: for a section at a non-zero offset the library reads
    // the view at section-relative positions (the answer then equals what the section's map gives on the unshifted view).
    let mut known_d18: Option<String> = None;
    for prog in programs.iter().filter(|p| p.len() == 2) {
        let text = prog.join("\n");
        let sv = SourceView::new(text.as_str().into());
        let mut maps = vec![]; let mut views = vec![]; let mut poss = vec![];
        for line in prog.iter() {
            let mut b = SourceMapBuilder::new(None); let mut pos = vec![];
            let mut col = 0u32; let mut prev_ws = true; for ch in line.chars() { if prev_ws && !ch.is_whitespace() { pos.push(col); } prev_ws = ch.is_whitespace() || ch == '(' || ch == '=' || ch == ';' || ch == '}'; col += ch.len_utf16() as u32; }
            for (k, &c) in pos.iter().enumerate() { b.add(0, c, k as u32, 0, Some("o.js"), Some(&format!("orig{k}")), false); }
            maps.push(b.into_sourcemap()); views.push(SourceView::new((*line).into())); poss.push(pos);
        }
        let idx = sourcemap::SourceMapIndex::new(None, vec![
            sourcemap::SourceMapSection::new((0, 0), None, Some(DecodedMap::Regular(maps[0].clone()))),
            sourcemap::SourceMapSection::new((1, 0), None, Some(DecodedMap::Regular(maps[1].clone())))]);
        for sec in 0..2usize { for &c in &poss[sec] { for name in names {
            cases += 1;
            // what the section's own map answers on its own line of text
            let want = maps[sec].get_original_function_name(0, c, name, &views[sec]).map(|s| s.to_string());
            crate::witness(want.is_some() && name != "function");
            let got = match guarded(|| idx.get_original_function_name(sec as u32, c, name, &sv).map(|s| s.to_string())) { Ok(g) => g, Err(p) => return r("function_name", bound, cases, Some(format!("index map over {prog:?}: get_original_function_name({sec}, {c}, {name:?}): {p}"))) };
            if got == want { continue; }
            let relative = maps[sec].get_original_function_name(0, c, name, &sv).map(|s| s.to_string());
            if sec > 0 && got == relative { if known_d18.is_none() { known_d18 = Some(format!("index map with one section per line of {prog:?}: SourceMapIndex::get_original_function_name({sec}, {c}, {name:?}) = {got:?}, the section's map on its own line gives {want:?}")); } continue; }
            return r("function_name", bound, cases, Some(format!("index map with one section per line of {prog:?}: SourceMapIndex::get_original_function_name({sec}, {c}, {name:?}) = {got:?}, the section's map on its own line of text gives {want:?}")));
        } } }
    }
    if let Some(k) = known_d18 { println!("{}", serde_json::json!({"known_finding": "D18", "first_input": k})); }
    // the 128-token window
    for dist in [120usize, 126, 127, 128, 130] {
        cases += 1;
        let line = format!("function f(){{}}{}", " x".repeat(200));
        let sv = SourceView::new(line.as_str().into());
        let mut b = SourceMapBuilder::new(None);
        b.add(0, 0, 0, 0, Some("o.js"), Some("kw"), false);
        b.add(0, 9, 0, 0, Some("o.js"), Some("orig_f"), false);
        for i in 0..dist { b.add(0, 15 + 2 * i as u32, 0, 0, Some("o.js"), Some("x"), false); }
        let sm = b.into_sourcemap();
        let start = sm.get_token_count() as usize - 1;
        let got = sv.get_original_function_name(sm.get_token(start).unwrap(), "f").map(|s| s.to_string());
        // walk covers tokens start..start-127; the name token is at index 1 and its predecessor at index 0
        let want = if start - 0 <= 127 { Some("orig_f".to_string()) } else { None };
        if got != want { return r("function_name", bound, cases, Some(format!("{dist} tokens after the declaration: got {got:?}, expected {want:?} (walk of at most 128 tokens incl. the 'function' keyword token)"))); }
    }
    r("function_name", bound, cases, None)
}

// ------------------------------------------------------------------ C20
pub fn ram_bundle() -> Report {
    use sourcemap::ram_bundle::{is_ram_bundle_slice, RamBundle};
    let bound = "indexed bundles with 0..3 table slots (each empty, or a module of stored length 1..4 incl. a non-UTF-8 one and one that is only its trailing NUL, in either physical order), non-empty startup code of length 1..2; every truncation of each bundle and every single-field corruption from {0, 1, 0x7fffffff, 0xffffffff}";
    let mut cases = 0u64;
    let mods: Vec<Option<Vec<u8>>> = vec![None, Some(vec![b'a']), Some(vec![0xff, b'b', b'c']), Some(vec![])];
    let mut tables: Vec<Vec<usize>> = vec![vec![]]; let mut layer: Vec<Vec<usize>> = vec![vec![]];
    for _ in 0..3 { let mut next = vec![]; for l in &layer { for m in 0..mods.len() { let mut t = l.clone(); t.push(m); next.push(t); } } tables.extend(next.iter().cloned()); layer = next; }
    for t in &tables { for sc in 1..=2usize { for rev in [false, true] {
        let n = t.len();
        let startup: Vec<u8> = (0..sc).map(|i| b'S' + i as u8).collect();
        // layout module data after the startup code
        let mut data: Vec<u8> = startup.clone();
        let mut entries = vec![(0u32, 0u32); n];
        let order: Vec<usize> = if rev { (0..n).rev().collect() } else { (0..n).collect() };
        for &i in &order { if let Some(m) = &mods[t[i]] { entries[i] = (data.len() as u32, m.len() as u32 + 1); data.extend_from_slice(m); data.push(0); } }
        let mut bytes = vec![]; bytes.extend(0xFB0B_D1E5u32.to_le_bytes()); bytes.extend((n as u32).to_le_bytes()); bytes.extend((sc as u32).to_le_bytes());
        for e in &entries { bytes.extend(e.0.to_le_bytes()); bytes.extend(e.1.to_le_bytes()); }
        bytes.extend(&data);
        cases += 1;
        let ctx = format!("table {t:?} (0 = empty slot), startup code {sc} bytes, reversed layout {rev}");
        let rb = match guarded(|| RamBundle::parse_indexed_from_slice(&bytes)) { Ok(Ok(b)) => b, o => return r("ram_bundle", bound, cases, Some(format!("{ctx}: parse failed {:?}", o.map(|x| x.map(|_| ()).map_err(|e| e.to_string()))))) };
        if rb.module_count() != n { return r("ram_bundle", bound, cases, Some(format!("{ctx}: module_count {} != {n}", rb.module_count()))); }
        if rb.startup_code().ok() != Some(&startup[..]) { return r("ram_bundle", bound, cases, Some(format!("{ctx}: startup code {:?}", rb.startup_code().ok()))); }
        for i in 0..n { let g = rb.get_module(i).map(|m| m.map(|m| m.data().to_vec())); let w = mods[t[i]].clone(); crate::witness(w.is_some());
            match g { Ok(x) if x == w => {}, o => return r("ram_bundle", bound, cases, Some(format!("{ctx}: module {i} = {:?}, expected {w:?}", o.map_err(|e| e.to_string())))) } }
        if rb.get_module(n).is_ok() { return r("ram_bundle", bound, cases, Some(format!("{ctx}: id {n} past the table is not an error"))); }
        let ids: Vec<usize> = rb.iter_modules().filter_map(|m| m.ok()).map(|m| m.id()).collect();
        let wids: Vec<usize> = (0..n).filter(|&i| mods[t[i]].is_some()).collect();
        if ids != wids { return r("ram_bundle", bound, cases, Some(format!("{ctx}: iterator yields ids {ids:?}, expected {wids:?}"))); }
        // truncations and corruptions: never a panic; recognition iff complete header with magic
        let mut variants: Vec<Vec<u8>> = (0..bytes.len()).map(|k| bytes[..k].to_vec()).collect();
        for field in 0..(3 + 2 * n) { for v in [0u32, 1, 0x7fff_ffff, 0xffff_ffff] { let mut c = bytes.clone(); c[4 * field..4 * field + 4].copy_from_slice(&v.to_le_bytes()); variants.push(c); } }
        for v in &variants { cases += 1;
            let want_rec = v.len() >= 12 && v[..4] == 0xFB0B_D1E5u32.to_le_bytes();
            let res = guarded(|| { let rec = is_ram_bundle_slice(v); let p = RamBundle::parse_indexed_from_slice(v);
                if let Ok(b) = &p { let _ = b.startup_code(); for i in 0..b.module_count().min(6) { let _ = b.get_module(i); } for m in b.iter_modules().take(8) { let _ = m; } } (rec, p.is_ok()) });
            match res { Ok((rec, _)) => if rec != want_rec { return r("ram_bundle", bound, cases, Some(format!("{ctx}: variant of length {}: is_ram_bundle_slice = {rec}, expected {want_rec}", v.len()))); },
                Err(p) => return r("ram_bundle", bound, cases, Some(format!("{ctx}: corrupted / truncated variant {v:?}: {p}"))) }
        }
    } } }
    r("ram_bundle", bound, cases, None)
}

// ------------------------------------------------------------------ C05 (every entry point and every query on whatever comes back, over mutated documents)
/// everything the property lists for a returned map: iteration, lookups, accessors with any index, formatting, function-name resolution,
/// serialisation (whose output must decode again), rewriting with every combination of the in-memory options, flattening
fn exercise(dm: &DecodedMap, text: &str) -> Result<(), String> {
    use sourcemap::RewriteOptions;
    let sv = SourceView::new(text.into());
    let probe = [0u32, 1, 2, 3, 7, 100, u32::MAX - 1, u32::MAX];
    let _ = format!("{dm:?}");
    let reg = |sm: &SourceMap| -> Result<(), String> {
        for t in sm.tokens() { let _ = (format!("{t}"), format!("{t:#}"), format!("{t:?}"), t.to_tuple(), t.get_source(), t.get_name(), t.get_source_view().map(|v| v.source().len()), t.get_raw_token()); }
        for &i in &probe { let _ = (sm.get_token(i as usize).map(|t| t.get_dst()), sm.get_source(i), sm.get_name(i), sm.get_source_contents(i), sm.get_source_view(i).map(|v| v.line_count())); }
        let _ = (sm.get_file(), sm.get_source_root(), sm.get_debug_id(), sm.get_token_count(), sm.get_source_count(), sm.get_name_count(), sm.sources().count(), sm.names().count(), sm.source_contents().count(), sm.ignore_list().count());
        for &l in &probe { for &c in &probe { let _ = sm.lookup_token(l, c).map(|t| (t.get_src(), format!("{t}"))); for name in ["f", "", "é", "function"] { let _ = sm.get_original_function_name(l, c, name, &sv); } } }
        let mut out = vec![]; sm.to_writer(&mut out).map_err(|e| format!("to_writer: {e}"))?;
        sourcemap::decode_slice(&out).map_err(|e| format!("the serialised form does not decode again: {e}"))?;
        let _ = sm.to_data_url().map_err(|e| format!("to_data_url: {e}"))?;
        for mask in 0..8u32 { let pre: &[&str] = if mask & 4 != 0 { &["~", "a", "/"] } else { &[] };
            let o = RewriteOptions { with_names: mask & 1 != 0, with_source_contents: mask & 2 != 0, load_local_source_contents: false, strip_prefixes: pre, ..Default::default() };
            let r = sm.clone().rewrite(&o).map_err(|e| format!("rewrite: {e}"))?; let _ = r.tokens().count(); }
        Ok(())
    };
    match dm {
        DecodedMap::Regular(sm) => reg(sm)?,
        DecodedMap::Hermes(h) => { reg(h)?; for &c in &probe { let _ = h.get_original_function_name(c); } for t in h.tokens() { let _ = h.get_scope_for_token(t); }
            let mut out = vec![]; h.to_writer(&mut out).map_err(|e| format!("to_writer: {e}"))?; sourcemap::decode_slice(&out).map_err(|e| format!("the serialised Hermes map does not decode again: {e}"))?;
            let _ = h.clone().rewrite(&RewriteOptions::default()).map(|m| m.get_token_count()); }
        DecodedMap::Index(idx) => {
            let _ = (idx.get_file(), idx.get_section_count());
            for s in idx.sections() { let _ = (s.get_offset(), s.get_url(), s.get_sourcemap().is_some()); }
            for &l in &probe { for &c in &probe { let _ = idx.lookup_token(l, c).map(|t| format!("{t:#}")); let _ = idx.get_original_function_name(l, c, "f", &sv); } }
            let mut out = vec![]; idx.to_writer(&mut out).map_err(|e| format!("to_writer: {e}"))?; sourcemap::decode_slice(&out).map_err(|e| format!("the serialised index map does not decode again: {e}"))?;
            if let Ok(flat) = idx.flatten() { reg(&flat)?; }
            let _ = idx.clone().flatten_and_rewrite(&RewriteOptions::default()).map(|m| m.get_token_count());
        }
    }
    for &l in &probe { for &c in &probe { let _ = dm.lookup_token(l, c).map(|t| t.get_src()); let _ = dm.get_original_function_name(l, c, Some("f"), Some(&sv)); let _ = dm.get_original_function_name(l, c, None, None); } }
    Ok(())
}
pub fn decode_mutants() -> Report {
    let bound_s = format!("9 seed documents (regular with names / contents / root / ignoreList / rangeMappings, Hermes with metadata, index with nested and unresolved sections, junk header) and every single-byte {} of each: every decoding and detection entry point (slice, reader, data URL, reference discovery), then every query / serialisation / rewrite / flatten on whatever is returned", if crate::deep() { "replacement by one of 24 bytes or by U+20AC / U+1F600, deletion and duplication" } else { "replacement by one of 12 bytes or by U+20AC / U+1F600, deletion and duplication" });
    let bound = bound_s.as_str();
    let mut cases = 0u64;
    let docs: Vec<&str> = vec![
        r#"{"version":3,"file":"o.js","sourceRoot":"r/","sources":["a.js",null,"/b.js"],"sourcesContent":["function f(){}",null,"x"],"names":["n",7],"mappings":"AAAAA,CCAAC;;CCAAC,EADA","ignoreList":[1]}"#,
        r#"{"version":3,"sources":["a.js"],"names":[],"mappings":"AAAA,UAAU;AACA","rangeMappings":"B;A","debug_id":"00000000-0000-0000-0000-000000000001"}"#,
        r#"{"version":3,"sources":["a.js","b.js"],"names":[],"mappings":"AAAA,oGCAA","x_facebook_sources":[[{"names":["<global>","foo"],"mappings":"AAA,UCA;CCC"}],null]}"#,
        r#"{"version":3,"sources":["a.js"],"names":[],"mappings":"AAAA","x_facebook_sources":[[{"names":[],"mappings":"AAA;ECg"}]],"x_facebook_offsets":[0,null],"x_metro_module_paths":["m"]}"#,
        r#"{"version":3,"file":"i.js","sections":[{"offset":{"line":0,"column":0},"map":{"version":3,"sources":["a.js"],"names":["n"],"mappings":"AAAAA,CAAC"}},{"offset":{"line":1,"column":5},"map":{"version":3,"sources":["a.js"],"sourcesContent":["c"],"names":[],"mappings":"AAAA;AACA","ignoreList":[0]}}]}"#,
        r#"{"version":3,"sections":[{"offset":{"line":0,"column":3},"map":{"version":3,"sections":[{"offset":{"line":2,"column":1},"map":{"version":3,"sources":["n.js"],"names":[],"mappings":"AAAA"}}]}},{"offset":{"line":9,"column":0},"url":"x.map"}]}"#,
        ")]}'\n{\"version\":3,\"sources\":[\"a.js\"],\"names\":[],\"mappings\":\"AAAA\"}",
        r#"{"version":3,"sources":["/x/y/a.js","/x/y/b.js","/x/z.js","c:\\q\\d.js"],"names":["é"],"mappings":"AAAAA,CCAA,CCAA,CCAA"}"#,
        r#"{"version":3,"sources":[],"names":[],"mappings":";;;,,;"}"#,
    ];
    let mut alphabet: Vec<u8> = vec![b'"', b',', b':', b'[', b'{', b'}', b'0', b'9', b'-', b'A', b'/', b'\\'];
    if crate::deep() { alphabet.extend([b']', b';', b'g', b'n', b't', b'e', b'.', b' ', b'\n', b'\r', 0xff, 0x00]); }
    let text = "function f(){}\n x=function g(){};\u{e9}";
    let check = |v: &[u8], what: &str| -> Option<String> {
        let show = || String::from_utf8_lossy(v).into_owned();
        let res = guarded(|| -> Result<(), String> {
            let a = sourcemap::decode_slice(v);
            let b = sourcemap::decode(v);
            if a.is_ok() != b.is_ok() { return Err(format!("decode_slice is {} but decode (reader) is {}", if a.is_ok() { "Ok" } else { "Err" }, if b.is_ok() { "Ok" } else { "Err" })); }
            let _ = (sourcemap::is_sourcemap_slice(v), sourcemap::is_sourcemap(v), locate_sourcemap_reference_slice(v).map(|r| r.map(|r| r.get_url().len())), SourceMap::from_slice(v).is_ok(), sourcemap::SourceMapIndex::from_slice(v).is_ok(), sourcemap::SourceMapHermes::from_slice(v).is_ok());
            if let Ok(s) = std::str::from_utf8(v) { let _ = decode_data_url(s); let _ = decode_data_url(&format!("data:application/json;base64,{s}")); let _ = SourceView::new(s.into()).lines().count(); }
            if let Ok(dm) = a { exercise(&dm, text)?; }
            Ok(())
        });
        match res { Ok(Ok(())) => None, Ok(Err(e)) => Some(format!("{what} {:?}: {e}", show())), Err(p) => Some(format!("{what} {:?}: {p}", show())) }
    };
    for doc in &docs {
        let bytes = doc.as_bytes();
        cases += 1;
        if let Some(c) = check(bytes, "seed document") { return r("decode_mutants", bound, cases, Some(c)); }
        crate::witness(sourcemap::decode_slice(bytes).is_ok());
        for i in 0..bytes.len() {
            let mut variants: Vec<Vec<u8>> = vec![];
            for &a in &alphabet { if a != bytes[i] { let mut v = bytes.to_vec(); v[i] = a; variants.push(v); } }
            let mut v = bytes.to_vec(); v.remove(i); variants.push(v);
            let mut v = bytes.to_vec(); v.insert(i, bytes[i]); variants.push(v);
            // a character beyond Latin-1 / beyond the BMP in place (inside "mappings" it is a foreign character of a VLQ text)
            for ch in ["\u{20ac}", "\u{1f600}"] { let mut v = bytes[..i].to_vec(); v.extend_from_slice(ch.as_bytes()); v.extend_from_slice(&bytes[i + 1..]); variants.push(v); }
            for v in &variants { cases += 1;
                if let Some(c) = check(v, &format!("document with byte {i} changed:")) { return r("decode_mutants", bound, cases, Some(c)); }
                if sourcemap::decode_slice(v).is_ok() { crate::witness(true); } }
        }
    }
    r("decode_mutants", bound, cases, None)
}
