use crate::{guarded, refs, Report};
use sourcemap::vlq::{generate_vlq_segment, parse_vlq_segment};

fn interesting() -> Vec<i64> {
    let mut v: Vec<i64> = (-(1i64 << 12)..=(1i64 << 12)).collect();
    for k in 12..=62u32 {
        let p = 1i64 << k;
        for d in [-1i64, 0, 1] { let x = p.saturating_add(d); if x.unsigned_abs() < (1u64 << 62) { v.push(x); v.push(-x); } }
    }
    for a in [0u32, 1, 15, 16, 31, 32, 1023, 1024, u32::MAX - 1, u32::MAX] { for b in [0u32, 1, 16, 31, 32, 1024, u32::MAX] { v.push(a as i64 - b as i64); } }
    v
}

/// C11 (encoder side): generate_vlq_segment == reference encoder, and the crate's decoder reads it back
pub fn encode() -> Report {
    let vals = interesting();
    let mut cases = 0u64;
    let mut check = |xs: &[i64]| -> Option<String> {
        let want: Vec<u8> = xs.iter().flat_map(|&x| refs::vlq_enc(x as i128)).collect();
        match guarded(|| generate_vlq_segment(xs)) {
            Ok(Ok(s)) => {
                if s.as_bytes() != &want[..] { return Some(format!("generate_vlq_segment({xs:?}) = {s:?}, reference {:?}", String::from_utf8_lossy(&want))); }
                match guarded(|| parse_vlq_segment(&s)) {
                    Ok(Ok(v)) if v == xs => None,
                    o => Some(format!("parse_vlq_segment(generate_vlq_segment({xs:?}) = {s:?}) = {o:?}")),
                }
            }
            o => Some(format!("generate_vlq_segment({xs:?}) = {o:?}")),
        }
    };
    for &x in &vals { cases += 1; if let Some(c) = check(&[x]) { return Report { harness: "vlq_encode", bound: bound_enc(), cases, cex: Some(c) }; } }
    let small = [-17i64, -16, -15, -1, 0, 1, 15, 16, 17, 511, 512, -1024];
    for &a in &small { for &b in &small { cases += 1; if let Some(c) = check(&[a, b, 3]) { return Report { harness: "vlq_encode", bound: bound_enc(), cases, cex: Some(c) }; } } }
    Report { harness: "vlq_encode", bound: bound_enc(), cases, cex: None }
}
fn bound_enc() -> String { "single values: [-4096,4096], +-2^k and +-(2^k+-1) for k<=62, selected u32 differences; triples over 12 small values".into() }

/// C11 / C06 (decoder side): parse_vlq_segment agrees with the reference decoder
pub fn decode() -> Report {
    let alpha: &[u8] = b"ABCDEgh/+90f!~\x7f,;";
    let maxlen = if crate::deep() { 5 } else { 4 };
    let bound_s = format!("all strings of length <= {maxlen} over a 17-byte alphabet (digits with/without continuation, foreign bytes), plus digit runs of length 1..16");
    let bound = bound_s.as_str();
    let mut cases = 0u64;
    let mut check = |s: &[u8]| -> Option<String> {
        let st = match std::str::from_utf8(s) { Ok(x) => x, Err(_) => return None };
        let want = refs::vlq_parse(s);
        match (guarded(|| parse_vlq_segment(st)), want) {
            (Ok(Ok(g)), Some(w)) => {
                if g.len() != w.len() { return Some(format!("parse_vlq_segment({st:?}) = {g:?}, reference {w:?}")); }
                for (a, b) in g.iter().zip(w.iter()) { if b.unsigned_abs() < (1u128 << 62) && *a as i128 != *b { return Some(format!("parse_vlq_segment({st:?}) = {g:?}, reference {w:?}")); } }
                None
            }
            (Ok(Err(_)), None) => None,
            (Ok(Ok(g)), None) => Some(format!("parse_vlq_segment({st:?}) = Ok({g:?}) but the reference rejects it")),
            (Ok(Err(e)), Some(w)) => Some(format!("parse_vlq_segment({st:?}) = Err({e:?}) but the reference reads {w:?}")),
            (Err(p), _) => Some(format!("parse_vlq_segment({st:?}): {p}")),
        }
    };
    let mut buf = vec![];
    fn rec(alpha: &[u8], buf: &mut Vec<u8>, depth: usize, cases: &mut u64, check: &mut dyn FnMut(&[u8]) -> Option<String>) -> Option<String> {
        *cases += 1;
        if let Some(c) = check(buf) { return Some(c); }
        if depth == 0 { return None; }
        for &a in alpha { buf.push(a); if let Some(c) = rec(alpha, buf, depth - 1, cases, check) { return Some(c); } buf.pop(); }
        None
    }
    if let Some(c) = rec(alpha, &mut buf, maxlen, &mut cases, &mut check) { return Report { harness: "vlq_decode", bound: bound.into(), cases, cex: Some(c) }; }
    for n in 0..=15usize { for last in [b'A', b'B', b'D', b'P', b'f', b'g'] { for fill in [b'g', b'h', b'/', b'+'] {
        let mut s = vec![fill; n]; s.push(last); cases += 1;
        if let Some(c) = check(&s) { return Report { harness: "vlq_decode", bound: bound.into(), cases, cex: Some(c) }; }
        let mut t = b"AAAA".to_vec(); t.extend_from_slice(&s); cases += 1;
        if let Some(c) = check(&t) { return Report { harness: "vlq_decode", bound: bound.into(), cases, cex: Some(c) }; }
    } } }
    Report { harness: "vlq_decode", bound: bound.into(), cases, cex: None }
}
