//! Bounded contract checks on the real crate (public API only), with executable reference
//! implementations written from the format / property statements.  They are NOT proofs: each harness
//! enumerates a stated finite space.  Used (a) as the bounded stand-in for an item that cannot be
//! brought under contract on the current tree and (b) to attach a concrete failing input to a failed
//! obligation.  Output: one JSON object on stdout; exit 1 iff a counterexample was found.
use std::io::Read;
use std::panic::{catch_unwind, AssertUnwindSafe};

mod refs;
mod h_vlq;
mod h_lookup;
mod h_header;
mod h_maps;
mod h_misc;

/// number of cases in which the expected answer was non-trivial (a token found, a name resolved, a slice returned ...):
/// a harness that only ever expects `None` would pass on any code, so 0 witnesses makes the run unusable, not a pass
pub static WITNESSES: std::sync::atomic::AtomicU64 = std::sync::atomic::AtomicU64::new(0);
pub fn witness(yes: bool) { if yes { WITNESSES.fetch_add(1, std::sync::atomic::Ordering::Relaxed); } }

/// thorough tier: VERIF_DEEP=1 widens the enumerated spaces (each harness states the bound it actually used)
pub fn deep() -> bool { std::env::var("VERIF_DEEP").map_or(false, |v| v == "1") }

pub struct Report { pub harness: &'static str, pub bound: String, pub cases: u64, pub cex: Option<String> }

fn main() {
    std::panic::set_hook(Box::new(|_| {}));
    let name = std::env::args().nth(1).unwrap_or_default();
    let r = match name.as_str() {
        "vlq_encode" => h_vlq::encode(),
        "vlq_decode" => h_vlq::decode(),
        "lookup" => h_lookup::lookup(),
        "ordering" => h_lookup::ordering(),
        "header" => h_header::header(),
        "hermes_scope" => h_maps::hermes_scope(),
        "index_flatten" => h_maps::index_flatten(),
        "index_nested" => h_maps::index_nested(),
        "rewrite" => h_maps::rewrite(),
        "hermes_rewrite" => h_maps::hermes_rewrite(),
        "raw_keys" => h_maps::raw_keys(),
        "roundtrip" => h_maps::roundtrip(),
        "rmi_roundtrip" => h_maps::rmi_roundtrip(),
        "root_setters" => h_maps::root_setters(),
        "builder_model" => h_maps::builder_model(),
        "relpath" => h_misc::relpath(),
        "discover" => h_misc::discover(),
        "sourceview" => h_misc::sourceview(),
        "function_name" => h_misc::function_name(),
        "ram_bundle" => h_misc::ram_bundle(),
        "decode_extreme" => h_maps::decode_extreme(),
        "decode_document" => h_maps::decode_document(),
        "decode_reject" => h_maps::decode_reject(),
        "decode_mutants" => h_misc::decode_mutants(),
        "adjust" => h_maps::adjust(false),
        "adjust_dups" => h_maps::adjust(true),
        _ => { eprintln!("unknown harness {name}"); std::process::exit(2); }
    };
    let cex = match &r.cex { Some(c) => serde_json::Value::String(c.clone()), None => serde_json::Value::Null };
    println!("{}", serde_json::json!({"harness": r.harness, "bound": r.bound, "cases": r.cases, "counterexample": cex, "witnesses": WITNESSES.load(std::sync::atomic::Ordering::Relaxed)}));
    std::process::exit(if r.cex.is_some() { 1 } else { 0 });
}

pub fn guarded<T>(f: impl FnOnce() -> T) -> Result<T, String> {
    catch_unwind(AssertUnwindSafe(f)).map_err(|e| {
        if let Some(s) = e.downcast_ref::<String>() { format!("PANIC: {s}") }
        else if let Some(s) = e.downcast_ref::<&str>() { format!("PANIC: {s}") } else { "PANIC".to_string() }
    })
}

/// a reader that hands out its bytes in the given chunk sizes (then one byte at a time)
pub struct Chunked<'a> { pub data: &'a [u8], pub pos: usize, pub cuts: Vec<usize>, pub k: usize }
impl<'a> Read for Chunked<'a> {
    fn read(&mut self, buf: &mut [u8]) -> std::io::Result<usize> {
        if self.pos >= self.data.len() || buf.is_empty() { return Ok(0); }
        let want = if self.k < self.cuts.len() { let w = self.cuts[self.k]; self.k += 1; w.max(1) } else { self.data.len() - self.pos };
        let n = want.min(buf.len()).min(self.data.len() - self.pos);
        buf[..n].copy_from_slice(&self.data[self.pos..self.pos + n]);
        self.pos += n;
        Ok(n)
    }
}
