//! Executable reference implementations (mirrors of spec/*.rs in plain Rust).
pub fn b64_index(c: u8) -> i32 {
    match c { b'A'..=b'Z' => (c - b'A') as i32, b'a'..=b'z' => (c - b'a') as i32 + 26, b'0'..=b'9' => (c - b'0') as i32 + 52, b'+' => 62, b'/' => 63, _ => -1 }
}
pub fn b64_char(d: u32) -> u8 { b"ABCDEFGHIJKLMNOPQRSTUVWXYZabcdefghijklmnopqrstuvwxyz0123456789+/"[d as usize] }

/// reference decoder over i128; None = malformed (foreign byte, 14th digit, cut-off value, no value)
pub fn vlq_parse(s: &[u8]) -> Option<Vec<i128>> {
    let mut out = Vec::new();
    let (mut cur, mut ndig) = (0i128, 0u32);
    for &c in s {
        let d = b64_index(c);
        if d < 0 || ndig >= 13 { return None; }
        cur += ((d % 32) as i128) << (5 * ndig);
        if d >= 32 { ndig += 1; } else { out.push(if cur % 2 == 1 { -(cur / 2) } else { cur / 2 }); cur = 0; ndig = 0; }
    }
    if ndig != 0 || out.is_empty() { None } else { Some(out) }
}
pub fn vlq_enc(n: i128) -> Vec<u8> {
    let mut raw: u128 = if n < 0 { ((-n) as u128) * 2 + 1 } else { (n as u128) * 2 };
    let mut out = vec![];
    loop {
        let mut d = (raw % 32) as u32; raw /= 32;
        if raw > 0 { d += 32; }
        out.push(b64_char(d));
        if raw == 0 { break; }
    }
    out
}

#[derive(Clone, Debug, PartialEq, Eq)]
pub struct Tok { pub dl: u32, pub dc: u32, pub src: Option<(u32, u32, u32)>, pub name: Option<u32>, pub range: bool }

/// reference mappings decoder (math integers); Err(()) = must be rejected
pub fn mappings_decode(mappings: &str, rmi: &str, nsrc: i128, nnames: i128) -> Result<Vec<Tok>, ()> {
    let rmis: Vec<&str> = rmi.split(';').collect();
    let (mut sid, mut sl, mut sc, mut nid) = (0i128, 0i128, 0i128, 0i128);
    let mut out = vec![];
    for (ln, line) in mappings.split(';').enumerate() {
        if line.is_empty() { continue; }
        let r = rmis.get(ln).copied().unwrap_or("");
        let mut bits = vec![];
        for &c in r.as_bytes() { let d = b64_index(c); if d < 0 { return Err(()); } for k in 0..6 { bits.push((d >> k) & 1 == 1); } }
        let mut dc = 0i128;
        for (si, seg) in line.split(',').enumerate() {
            if seg.is_empty() { continue; }
            let v = vlq_parse(seg.as_bytes()).ok_or(())?;
            dc += v[0];
            let range = bits.get(si).copied().unwrap_or(false);
            if v.len() == 1 { out.push(Tok { dl: ln as u32, dc: dc as u32, src: None, name: None, range }); continue; }
            if v.len() != 4 && v.len() != 5 { return Err(()); }
            sid += v[1]; if sid < 0 || sid >= nsrc { return Err(()); }
            sl += v[2]; sc += v[3];
            let mut name = None;
            if v.len() == 5 { nid += v[4]; if nid < 0 || nid >= nnames { return Err(()); } name = Some(nid as u32); }
            out.push(Tok { dl: ln as u32, dc: dc as u32, src: Some((sid as u32, sl as u32, sc as u32)), name, range });
        }
    }
    Ok(out)
}

/// XSSI header rule on a whole byte string: Some(rest) = bytes handed to the JSON parser, None = rejected (bare CR)
pub fn strip_header(p: &[u8]) -> Option<&[u8]> {
    if p.is_empty() || !matches!(p[0], b')' | b']' | b'}' | b'\'') { return Some(p); }
    let mut i = 0;
    while i < p.len() {
        if p[i] == b'\r' { return if i + 1 >= p.len() { Some(&p[p.len()..]) } else if p[i + 1] == b'\n' { Some(&p[i + 2..]) } else { None }; }
        if p[i] == b'\n' { return Some(&p[i + 1..]); }
        i += 1;
    }
    Some(&p[p.len()..])
}

/// standard base64 with padding
pub fn base64(data: &[u8]) -> String {
    const A: &[u8; 64] = b"ABCDEFGHIJKLMNOPQRSTUVWXYZabcdefghijklmnopqrstuvwxyz0123456789+/";
    let mut out = String::new();
    for ch in data.chunks(3) {
        let b = [ch[0], *ch.get(1).unwrap_or(&0), *ch.get(2).unwrap_or(&0)];
        let n = ((b[0] as u32) << 16) | ((b[1] as u32) << 8) | b[2] as u32;
        out.push(A[(n >> 18) as usize & 63] as char); out.push(A[(n >> 12) as usize & 63] as char);
        out.push(if ch.len() > 1 { A[(n >> 6) as usize & 63] as char } else { '=' });
        out.push(if ch.len() > 2 { A[n as usize & 63] as char } else { '=' });
    }
    out
}
