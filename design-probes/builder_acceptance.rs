use vstd::prelude::*;
use vstd::std_specs::iter::*;
use std::sync::Arc;
use std::collections::HashMap;
use std::collections::BTreeSet;
verus! {
pub struct SourceMapBuilder {
    names: Vec<Arc<str>>,
    name_map: HashMap<Arc<str>, u32>,
    source_map: HashMap<Arc<str>, u32>,
    sources: Vec<Arc<str>>,
    source_contents: Vec<Option<Arc<str>>>,
    sources_mapping: Vec<u32>,
    ignore_list: BTreeSet<u32>,
}
impl SourceMapBuilder {
    fn add_source_with_id(&mut self, src: &str, old_id: u32) -> u32 {
        let count = self.sources.len() as u32;
        let id = *self.source_map.entry(src.into()).or_insert(count);
        if id == count {
            self.sources.push(src.into());
            self.sources_mapping.push(old_id);
        }
        id
    }
    pub fn add_to_ignore_list(&mut self, src_id: u32) {
        self.ignore_list.insert(src_id);
    }
    pub fn set_source_contents(&mut self, src_id: u32, contents: Option<&str>) {
        assert!(src_id != !0, "Cannot set sources for tombstone source id");
        if self.sources.len() > self.source_contents.len() {
            self.source_contents.resize(self.sources.len(), None);
        }
        self.source_contents[src_id as usize] = contents.map(Into::into);
    }
    pub fn get_source_contents(&self, src_id: u32) -> Option<&str> {
        self.source_contents
            .get(src_id as usize)
            .and_then(|x| x.as_ref().map(|x| &x[..]))
    }
}
}
fn main() {}
