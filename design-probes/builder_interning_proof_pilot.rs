use vstd::prelude::*;
use vstd::std_specs::hash::*;
use std::sync::Arc;
use std::collections::HashMap;
verus! {

// ---- trusted: Arc<str> as an immutable string value ----
pub uninterp spec fn arc_chars(a: &Arc<str>) -> Seq<char>;
pub assume_specification<'a, 'b>[ <Arc<str> as From<&'a str>>::from ](s: &'b str) -> (r: Arc<str>)
    ensures arc_chars(&r) == s@;
#[verifier::external_body]
pub broadcast proof fn axiom_arc_from_str(s: &str, r: Arc<str>)
    requires #[trigger] call_ensures(<Arc<str> as From<&str>>::from, (s,), r)
    ensures arc_chars(&r) == s@
{}
#[verifier::external_body]
pub broadcast proof fn axiom_arc_str_ext(a: Arc<str>, b: Arc<str>)
    ensures #[trigger] arc_chars(&a) == #[trigger] arc_chars(&b) ==> a == b
{}
#[verifier::external_body]
pub proof fn axiom_arc_str_key_model()
    ensures obeys_key_model::<Arc<str>>()
{}

pub struct B {
    source_map: HashMap<Arc<str>, u32>,
    sources: Vec<Arc<str>>,
    sources_mapping: Vec<u32>,
}

pub open spec fn strs(v: Seq<Arc<str>>) -> Seq<Seq<char>> { v.map_values(|a: Arc<str>| arc_chars(&a)) }

impl B {
    pub closed spec fn wf(&self) -> bool {
        &&& self.sources@.len() == self.sources_mapping@.len()
        &&& forall|k: Arc<str>| #[trigger] self.source_map@.contains_key(k) ==> self.source_map@[k] < self.sources@.len()
    }

    fn add_source_with_id(&mut self, src: &str, old_id: u32) -> (id: u32)
        requires old(self).wf(), old(self).sources@.len() < 0xffff_fff0,
        ensures
            final(self).wf(),
            id < final(self).sources@.len(),
            exists|key: Arc<str>| arc_chars(&key) == src@ && #[trigger] final(self).source_map@.contains_key(key) && final(self).source_map@[key] == id
              && (old(self).source_map@.contains_key(key) ==> final(self).source_map@ == old(self).source_map@ && final(self).sources@ == old(self).sources@ && id == old(self).source_map@[key])
              && (!old(self).source_map@.contains_key(key) ==> id == old(self).sources@.len() && final(self).source_map@ == old(self).source_map@.insert(key, id)
                    && strs(final(self).sources@) == strs(old(self).sources@).push(src@)),
    {
        proof { axiom_arc_str_key_model(); broadcast use axiom_arc_str_ext, axiom_arc_from_str; broadcast use vstd::std_specs::hash::group_hash_axioms; }
        let count = self.sources.len() as u32;
        let id = *self.source_map.entry(src.into()).or_insert(count);
        if id == count {
            self.sources.push(src.into());
            self.sources_mapping.push(old_id);
        }
        proof {
            let m0 = old(self).source_map@;
            assert(exists|key: Arc<str>| arc_chars(&key) == src@ && (m0.contains_key(key) ==> id == m0[key] && self.source_map@ == m0) && (!m0.contains_key(key) ==> id == count && self.source_map@ == m0.insert(key, count)));
            let key = choose|key: Arc<str>| arc_chars(&key) == src@ && (m0.contains_key(key) ==> id == m0[key] && self.source_map@ == m0) && (!m0.contains_key(key) ==> id == count && self.source_map@ == m0.insert(key, count));
            if !m0.contains_key(key) {
                assert(strs(self.sources@) =~= strs(old(self).sources@).push(src@));
            } else {
                assert(id < count);
            }
            assert(self.source_map@.contains_key(key));
        }
        id
    }
}
}
fn main() {}
