
use vstd::prelude::*;
use vstd::std_specs::iter::*;
macro_rules! fail {
    ($expr:expr) => {
        return Err(::std::convert::From::from($expr));
    };
}
verus! {
pub uninterp spec fn str_bytes(s: &str) -> Seq<u8>;
// ---- trusted shim: Iterator::enumerate() ----
#[verifier::external_body]
#[verifier::reject_recursive_types(I)]
pub struct VEnumerate<I: Iterator> { it: std::iter::Enumerate<I> }

pub uninterp spec fn venum_remaining<I: Iterator>(e: &VEnumerate<I>) -> Seq<(usize, I::Item)>;
pub uninterp spec fn venum_laws<I: Iterator>(e: &VEnumerate<I>) -> bool;

pub open spec fn enumerate_seq<T>(s: Seq<T>) -> Seq<(usize, T)> {
    Seq::new(s.len(), |i: int| (i as usize, s[i]))
}

#[verifier::external_body]
pub fn verif_enumerate<I: Iterator>(it: I) -> (r: VEnumerate<I>)
    requires it.obeys_prophetic_iter_laws(),
    ensures venum_remaining(&r) == enumerate_seq(it.remaining()),
{ VEnumerate { it: it.enumerate() } }

impl<I: Iterator> Iterator for VEnumerate<I> {
    type Item = (usize, I::Item);
    #[verifier::external_body]
    fn next(&mut self) -> (r: Option<(usize, I::Item)>)
    { self.it.next() }
}

impl<I: Iterator> IteratorSpecImpl for VEnumerate<I> {
    open spec fn obeys_prophetic_iter_laws(&self) -> bool { true }
    #[verifier::prophetic]
    open spec fn remaining(&self) -> Seq<(usize, I::Item)> { venum_remaining(self) }
    #[verifier::prophetic]
    open spec fn will_return_none(&self) -> bool { true }
    open spec fn decrease(&self) -> Option<nat> { Some(venum_remaining(self).len()) }
    open spec fn peek(&self, i: int) -> Option<(usize, I::Item)> {
        if 0 <= i < venum_remaining(self).len() { Some(venum_remaining(self)[i]) } else { None }
    }
}
// ---- trusted shim: str::split(char) for an ASCII separator ----
pub open spec fn find_sep(s: Seq<u8>, sep: u8, from: int) -> int
    decreases s.len() - from
{
    if from < 0 || from >= s.len() { s.len() as int } else if s[from] == sep { from } else { find_sep(s, sep, from + 1) }
}
/// standard split: pieces between separators, always at least one piece
pub open spec fn split_seq(s: Seq<u8>, sep: u8) -> Seq<Seq<u8>>
    decreases s.len()
{
    let k = find_sep(s, sep, 0);
    if 0 <= k < s.len() { seq![s.subrange(0, k)] + split_seq(s.subrange(k + 1, s.len() as int), sep) } else { seq![s] }
}

#[verifier::external_body]
pub struct VSplit<'a> { it: std::str::Split<'a, char> }
pub uninterp spec fn vsplit_remaining<'a>(b: &VSplit<'a>) -> Seq<&'a str>;

#[verifier::external_body]
pub fn verif_split<'a>(s: &'a str, c: char) -> (r: VSplit<'a>)
    requires (c as u32) < 128,
    ensures
        vsplit_remaining(&r).len() == split_seq(str_bytes(s), c as u8).len(),
        forall|i: int| 0 <= i < vsplit_remaining(&r).len() ==> str_bytes(#[trigger] vsplit_remaining(&r)[i]) == split_seq(str_bytes(s), c as u8)[i],
{ VSplit { it: s.split(c) } }

impl<'a> Iterator for VSplit<'a> {
    type Item = &'a str;
    #[verifier::external_body]
    fn next(&mut self) -> (r: Option<&'a str>) { self.it.next() }
}
impl<'a> IteratorSpecImpl for VSplit<'a> {
    open spec fn obeys_prophetic_iter_laws(&self) -> bool { true }
    #[verifier::prophetic]
    open spec fn remaining(&self) -> Seq<&'a str> { vsplit_remaining(self) }
    #[verifier::prophetic]
    open spec fn will_return_none(&self) -> bool { true }
    open spec fn decrease(&self) -> Option<nat> { Some(vsplit_remaining(self).len()) }
    open spec fn peek(&self, i: int) -> Option<&'a str> {
        if 0 <= i < vsplit_remaining(self).len() { Some(vsplit_remaining(self)[i]) } else { None }
    }
}

// ---- trusted shim: a.zip(b.chain(std::iter::repeat(pad))) = zip with right padding ----
#[verifier::external_body]
#[verifier::reject_recursive_types(A)]
#[verifier::reject_recursive_types(B)]
pub struct VZipPad<A: Iterator, B: Iterator> { it: std::iter::Zip<A, std::iter::Chain<B, std::iter::Repeat<B::Item>>> }
pub uninterp spec fn vzip_remaining<A: Iterator, B: Iterator>(z: &VZipPad<A, B>) -> Seq<(A::Item, B::Item)>;
pub open spec fn zip_pad_seq<X, Y>(a: Seq<X>, b: Seq<Y>, pad: Y) -> Seq<(X, Y)> {
    Seq::new(a.len(), |i: int| (a[i], if i < b.len() { b[i] } else { pad }))
}
#[verifier::external_body]
pub fn verif_zip_pad<A: Iterator, B: Iterator>(a: A, b: B, pad: B::Item) -> (r: VZipPad<A, B>)
    where B::Item: Clone
    requires a.obeys_prophetic_iter_laws(), b.obeys_prophetic_iter_laws(),
    ensures vzip_remaining(&r) == zip_pad_seq(a.remaining(), b.remaining(), pad),
{ VZipPad { it: a.zip(b.chain(std::iter::repeat(pad))) } }
impl<A: Iterator, B: Iterator> Iterator for VZipPad<A, B> where B::Item: Clone {
    type Item = (A::Item, B::Item);
    #[verifier::external_body]
    fn next(&mut self) -> (r: Option<(A::Item, B::Item)>) { self.it.next() }
}
impl<A: Iterator, B: Iterator> IteratorSpecImpl for VZipPad<A, B> where B::Item: Clone {
    open spec fn obeys_prophetic_iter_laws(&self) -> bool { true }
    #[verifier::prophetic]
    open spec fn remaining(&self) -> Seq<(A::Item, B::Item)> { vzip_remaining(self) }
    #[verifier::prophetic]
    open spec fn will_return_none(&self) -> bool { true }
    open spec fn decrease(&self) -> Option<nat> { Some(vzip_remaining(self).len()) }
    open spec fn peek(&self, i: int) -> Option<(A::Item, B::Item)> {
        if 0 <= i < vzip_remaining(self).len() { Some(vzip_remaining(self)[i]) } else { None }
    }
}

pub enum Error { VlqLeftover, VlqNoValues, VlqOverflow, BadSegmentSize(u32), BadSourceReference(u32), BadNameReference(u32), InvalidBase64(char) }
pub type Result<T> = std::result::Result<T, Error>;
#[verifier::external_body]
pub struct Value { _x: u8 }
#[derive(PartialEq, Eq, Copy, Clone, Debug)]
pub struct RawToken {
    pub dst_line: u32,
    pub dst_col: u32,
    pub src_line: u32,
    pub src_col: u32,
    pub src_id: u32,
    pub name_id: u32,
    pub is_range: bool,
}
// ---- dependency stub: bitvec ----
#[verifier::external_body]
pub struct BitVec { _x: u8 }
impl View for BitVec { type V = Seq<bool>; uninterp spec fn view(&self) -> Seq<bool>; }
impl BitVec {
    #[verifier::external_body]
    pub fn new() -> (r: BitVec) ensures r@.len() == 0 { unimplemented!() }
    #[verifier::external_body]
    pub fn get(&self, i: usize) -> (r: Option<&bool>)
        ensures i < self@.len() ==> (r matches Some(b) && *b == self@[i as int]), i >= self@.len() ==> r is None
    { unimplemented!() }
}

#[verifier::external_body]
fn decode_rmi(rmi_str: &str, val: &mut BitVec) -> Result<()> { unimplemented!() }

pub assume_specification[ <i64 as From<u32>>::from ](x: u32) -> (r: i64) ensures r == x;
pub open spec fn small(v: i64) -> bool { -0x4000_0000_0000_0000 <= v <= 0x4000_0000_0000_0000 }
#[verifier::external_body]
pub(crate) fn parse_vlq_segment_into(segment: &str, rv: &mut Vec<i64>) -> (res: Result<()>)
    ensures res is Ok ==> final(rv)@.len() >= old(rv)@.len() + 1,
            res is Ok ==> forall|k: int| old(rv)@.len() <= k < final(rv)@.len() ==> small(#[trigger] final(rv)@[k]),
{ unimplemented!() }

pub open spec fn wf_tok(t: RawToken, nsrc: int, nnames: int) -> bool {
    (t.src_id == !0u32 || t.src_id < nsrc) && (t.name_id == !0u32 || t.name_id < nnames) && (t.src_id == !0u32 ==> t.name_id == !0u32)
}

pub fn decode_regular__mappings_loop(mappings: &str, range_mappings: &str, sources: &Vec<Option<String>>, names: &Vec<Value>, tokens: &mut Vec<RawToken>) -> (res: Result<()>)
    requires
        old(tokens)@.len() == 0,
        sources@.len() < 0xffff_ffff, names@.len() < 0xffff_ffff,
    ensures
        res is Ok ==> forall|k: int| 0 <= k < final(tokens)@.len() ==> wf_tok(#[trigger] final(tokens)@[k], sources@.len() as int, names@.len() as int),
{
    let mut dst_col;
    let mut src_id = 0;
    let mut src_line = 0;
    let mut src_col = 0;
    let mut name_id = 0;

    let mut nums = Vec::with_capacity(6);
    let mut rmi = BitVec::new();

    for (dst_line, (line, rmi_str)) in it: verif_enumerate(verif_zip_pad(verif_split(mappings, ';'), verif_split(range_mappings, ';'), ""))
        invariant
            sources@.len() < 0xffff_ffff, names@.len() < 0xffff_ffff,
            forall|k: int| 0 <= k < tokens@.len() ==> wf_tok(#[trigger] tokens@[k], sources@.len() as int, names@.len() as int),
    {
        if line.is_empty() {
        } else {

        dst_col = 0;

        decode_rmi(rmi_str, &mut rmi)?;

        for (line_index, segment) in it2: verif_enumerate(verif_split(line, ','))
            invariant
                sources@.len() < 0xffff_ffff, names@.len() < 0xffff_ffff,
                forall|k: int| 0 <= k < tokens@.len() ==> wf_tok(#[trigger] tokens@[k], sources@.len() as int, names@.len() as int),
        {
            proof { assert(!0u32 == 0xffff_ffffu32) by (bit_vector); }
            if segment.is_empty() {
            } else {

            nums.clear();
            parse_vlq_segment_into(segment, &mut nums)?;
            dst_col = (i64::from(dst_col) + nums[0]) as u32;

            let mut src = !0;
            let mut name = !0;

            if nums.len() > 1 {
                if nums.len() != 4 && nums.len() != 5 {
                    fail!(Error::BadSegmentSize(nums.len() as u32));
                }
                src_id = (i64::from(src_id) + nums[1]) as u32;
                if src_id >= sources.len() as u32 {
                    fail!(Error::BadSourceReference(src_id));
                }

                src = src_id;
                src_line = (i64::from(src_line) + nums[2]) as u32;
                src_col = (i64::from(src_col) + nums[3]) as u32;

                if nums.len() > 4 {
                    name_id = (i64::from(name_id) + nums[4]) as u32;
                    if name_id >= names.len() as u32 {
                        fail!(Error::BadNameReference(name_id));
                    }
                    name = name_id;
                }
            }

            let is_range = rmi.get(line_index).map(|v: &bool| -> (b: bool) ensures b == *v { *v }).unwrap_or_default();

            tokens.push(RawToken {
                dst_line: dst_line as u32,
                dst_col,
                src_line,
                src_col,
                src_id: src,
                name_id: name,
                is_range,
            });
            }
        }
        }
    }
    Ok(())
}
}
fn main() {}
