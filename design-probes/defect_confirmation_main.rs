use sourcemap::*;
use std::panic::catch_unwind;
fn enc(sm: &SourceMap) -> String { let mut v = vec![]; sm.to_writer(&mut v).unwrap(); String::from_utf8(v).unwrap() }
fn main() {
    std::panic::set_hook(Box::new(|_| {}));
    // C06 foreign byte
    println!("vlq '!A' -> {:?}", vlq::parse_vlq_segment("!A"));
    println!("vlq '\\x7fA' -> {:?}", vlq::parse_vlq_segment("\x7fA"));
    let r = decode_slice(br#"{"version":3,"sources":["a"],"names":[],"mappings":"!AAAA"}"#);
    println!("decode '!AAAA' ok={}", r.is_ok());
    // C06 huge negative src delta wraps into range: src 0 then delta -(2^32-1) -> 1
    let d = vlq::generate_vlq_segment(&[0, -(4294967295i64), 0, 0]).unwrap();
    let doc = format!(r#"{{"version":3,"sources":["a","b"],"names":[],"mappings":"AAAA,{}"}}"#, d);
    match decode_slice(doc.as_bytes()) { Ok(DecodedMap::Regular(sm)) => println!("wrap src: ok tokens={:?}", sm.tokens().map(|t| t.get_src_id()).collect::<Vec<_>>()), Ok(_) => {}, Err(e) => println!("wrap src: err {e}") }
    // C07 first-on-line range token
    let mut b = SourceMapBuilder::new(None);
    b.add(0,0,0,0,Some("a"),None,false);
    b.add(0,5,0,5,Some("a"),None,true);
    b.add(1,0,1,0,Some("a"),None,true);
    b.add(1,4,1,4,Some("a"),None,false);
    let sm = b.into_sourcemap();
    let s = enc(&sm); println!("{s}");
    let sm2 = SourceMap::from_slice(s.as_bytes()).unwrap();
    println!("ranges before {:?} after {:?}", sm.tokens().map(|t| t.is_range()).collect::<Vec<_>>(), sm2.tokens().map(|t| t.is_range()).collect::<Vec<_>>());
    // C07 index >= 16
    let r = catch_unwind(|| { let mut b = SourceMapBuilder::new(None); for i in 0..20 { b.add(0,i,0,i,Some("a"),None,i==17); } enc(&b.into_sourcemap()) });
    println!("range idx 17: {:?}", r.map(|s| s.len()).map_err(|_| "PANIC"));
    // C07 lookup from later line
    let r = catch_unwind(|| { let mut b = SourceMapBuilder::new(None); b.add(0,10,3,7,Some("a"),None,true); let sm=b.into_sourcemap(); let t = sm.lookup_token(1,5).unwrap(); (t.get_src_line(), t.get_src_col()) });
    println!("range later line: {:?}", r.map_err(|_| "PANIC"));
    let r = catch_unwind(|| { let mut b = SourceMapBuilder::new(None); b.add(0,10,3,7,Some("a"),None,true); let sm=b.into_sourcemap(); let t = sm.lookup_token(1,15).unwrap(); (t.get_src_line(), t.get_src_col()) });
    println!("range later line col15: {:?}", r.map_err(|_| "PANIC"));
    // C05 flatten overflow
    let r = catch_unwind(|| { let doc = br#"{"version":3,"sections":[{"offset":{"line":4294967295,"column":4294967295},"map":{"version":3,"sources":["a"],"names":[],"mappings":"CAAA;AAAA"}}]}"#; match decode_slice(doc).unwrap() { DecodedMap::Index(i) => i.flatten().map(|m| m.get_token_count()).ok(), _ => None } });
    println!("flatten overflow: {:?}", r.map_err(|_| "PANIC"));
    // C04 idx in non-exact lookup
    let mut b = SourceMapBuilder::new(None); for i in 0..5 { b.add(0,i*10,0,i,Some("a"),None,false); } let sm=b.into_sourcemap();
    let mut it = sm.tokens(); it.seek(0, 15); println!("seek(0,15) then next dst_col = {:?} (expect 20)", it.next().map(|t| t.get_dst_col()));
    let mut it = sm.tokens(); it.seek(0, 10); println!("seek(0,10) then next dst_col = {:?} (expect 20)", it.next().map(|t| t.get_dst_col()));
    // duplicates + range misalignment
    let mut b = SourceMapBuilder::new(None);
    b.add(0,0,0,0,Some("a"),None,false); b.add(0,0,0,0,Some("a"),None,false); b.add(0,5,0,5,Some("a"),None,true);
    let sm=b.into_sourcemap(); let s=enc(&sm); let sm2=SourceMap::from_slice(s.as_bytes()).unwrap();
    println!("dup+range: {s} -> {:?}", sm2.tokens().map(|t| (t.get_dst_col(), t.is_range())).collect::<Vec<_>>());
}
