use sourcemap::*;
use std::panic::catch_unwind;
fn main() {
    std::panic::set_hook(Box::new(|_| {}));
    // D9: hermes token with src_line == u32::MAX
    let big = vlq::generate_vlq_segment(&[0, 0, 4294967295, 0]).unwrap();
    let doc = format!(r#"{{"version":3,"sources":["a"],"names":[],"mappings":"{}","x_facebook_sources":[[{{"names":["f"],"mappings":"AAA"}}]]}}"#, big);
    let r = catch_unwind(|| match decode_slice(doc.as_bytes()) { Ok(DecodedMap::Hermes(h)) => { let t = h.lookup_token(0,0).unwrap(); println!("src_line={}", t.get_src_line()); h.get_original_function_name(0).map(|s| s.to_string()) }, Ok(_) => Some("not hermes".into()), Err(e) => Some(format!("err {e}")) });
    println!("D9: {:?}", r.map_err(|_| "PANIC"));
    // C10 duplicates: original has two tokens at same position
    let mut b = SourceMapBuilder::new(None);
    b.add(0,5,10,0,Some("a"),None,false);
    b.add(0,5,11,0,Some("a"),None,false);
    b.add(0,9,12,0,Some("a"),None,false);
    let mut sm = b.into_sourcemap();
    let mut a = SourceMapBuilder::new(None);
    a.add(0,0,0,0,Some("x"),None,false); // identity adjustment covering line 0
    let adj = a.into_sourcemap();
    sm.adjust_mappings(&adj);
    println!("C10 dup inside: {:?}", sm.tokens().map(|t| (t.get_dst(), t.get_src_line())).collect::<Vec<_>>());
    let mut b = SourceMapBuilder::new(None);
    b.add(0,5,10,0,Some("a"),None,false);
    b.add(0,5,11,0,Some("a"),None,false);
    let mut sm = b.into_sourcemap();
    let mut a = SourceMapBuilder::new(None);
    a.add(0,5,0,5,Some("x"),None,false); // adjustment starts exactly at the duplicate position
    let adj = a.into_sourcemap();
    sm.adjust_mappings(&adj);
    println!("C10 dup at adj start: {:?}", sm.tokens().map(|t| (t.get_dst(), t.get_src_line())).collect::<Vec<_>>());
}
