
use vstd::prelude::*;
use vstd::std_specs::iter::*;
verus! {
// ---- trusted shim: Iterator::enumerate() ----
#[verifier::external_body]
#[verifier::reject_recursive_types(I)]
pub struct VEnumerate<I: Iterator> { it: std::iter::Enumerate<I> }

pub uninterp spec fn venum_remaining<I: Iterator>(e: &VEnumerate<I>) -> Seq<(usize, I::Item)>;
pub uninterp spec fn venum_laws<I: Iterator>(e: &VEnumerate<I>) -> bool;

pub open spec fn enumerate_seq<T>(s: Seq<T>) -> Seq<(usize, T)> {
    Seq::new(s.len(), |i: int| (i as usize, s[i]))
}

#[verifier::external_body]
pub fn verif_enumerate<I: Iterator>(it: I) -> (r: VEnumerate<I>)
    requires it.obeys_prophetic_iter_laws(),
    ensures venum_remaining(&r) == enumerate_seq(it.remaining()),
{ VEnumerate { it: it.enumerate() } }

impl<I: Iterator> Iterator for VEnumerate<I> {
    type Item = (usize, I::Item);
    #[verifier::external_body]
    fn next(&mut self) -> (r: Option<(usize, I::Item)>)
    { self.it.next() }
}

impl<I: Iterator> IteratorSpecImpl for VEnumerate<I> {
    open spec fn obeys_prophetic_iter_laws(&self) -> bool { true }
    #[verifier::prophetic]
    open spec fn remaining(&self) -> Seq<(usize, I::Item)> { venum_remaining(self) }
    #[verifier::prophetic]
    open spec fn will_return_none(&self) -> bool { true }
    open spec fn decrease(&self) -> Option<nat> { Some(venum_remaining(self).len()) }
    open spec fn peek(&self, i: int) -> Option<(usize, I::Item)> {
        if 0 <= i < venum_remaining(self).len() { Some(venum_remaining(self)[i]) } else { None }
    }
}

fn first_big(v: &[u8]) -> (r: Option<usize>)
    ensures match r { Some(i) => i < v@.len() && v@[i as int] >= 10 && forall|j: int| 0 <= j < i ==> v@[j] < 10, None => forall|j: int| 0 <= j < v@.len() ==> v@[j] < 10 }
{
    for (idx, x) in it: verif_enumerate(v.iter())
        invariant
            forall|j: int| 0 <= j < it.index@ ==> v@[j] < 10,
    {
        assert(it.seq().len() == v@.len());
        assert(exists|s: Seq<&u8>| it.seq() == enumerate_seq(s));
        assert(it.seq()[it.index@].0 == it.index@ as usize);
        assert((idx, x) == it.seq()[it.index@]);
        assert(idx == it.index@);
        assert(*x == v@[idx as int]);
        if *x >= 10 { return Some(idx); }
    }
    None
}
}
fn main() {}
