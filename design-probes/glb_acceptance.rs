use vstd::prelude::*;
use vstd::std_specs::iter::*;
verus! {

pub assume_specification<'a, T, B, F> [<[T]>::binary_search_by_key] (s: &'a [T], b: &B, f: F) -> (r: std::result::Result<usize, usize>)
    where B: std::cmp::Ord, F: std::ops::FnMut(&'a T,) -> B,
    requires forall|i: int| 0 <= i < s@.len() ==> call_requires(f, (&#[trigger] s@[i],)),
    ensures match r { Ok(i) => i < s@.len(), Err(i) => i <= s@.len() }
;

pub fn greatest_lower_bound<'a, T, K: Ord, F: Fn(&'a T) -> K>(
    slice: &'a [T],
    key: &K,
    map: F,
) -> Option<(usize, &'a T)> 
    requires forall|t: &T| call_requires(map, (t,)),
{
    let mut idx = match slice.binary_search_by_key(key, &map) {
        Ok(index) => index,
        Err(index) => {
            // If there is no match, then we know for certain that the index is where we should
            // insert a new token, and that the token directly before is the greatest lower bound.
            return slice.get(index.checked_sub(1)?).map(|res| (index, res));
        }
    };

    // If we get an exact match, then we need to continue looking at previous tokens to see if
    // they also match. We use a linear search because the number of exact matches is generally
    // very small, and almost certainly smaller than the number of tokens before the index.
    for i in (0..idx).rev() {
        if map(&slice[i]) == *key {
            idx = i;
        } else {
            break;
        }
    }
    slice.get(idx).map(|res| (idx, res))
}
}
fn main() {}
