use vstd::prelude::*;
use vstd::std_specs::cmp::*;
use std::cmp::Ordering;
verus! {

// what the contract needs from K's comparison: a total preorder whose Equal class is spec equality
pub open spec fn ord_laws<K: Ord>() -> bool {
    &&& K::obeys_eq_spec()
    &&& forall|a: K, b: K| #![trigger a.eq_spec(&b)] a.eq_spec(&b) <==> a == b
    &&& forall|a: K, b: K| #![trigger a.cmp_spec(&b)] (a.cmp_spec(&b) == Ordering::Equal) <==> a == b
    &&& forall|a: K, b: K| #![trigger a.cmp_spec(&b)] (a.cmp_spec(&b) == Ordering::Less) <==> (b.cmp_spec(&a) == Ordering::Greater)
    &&& forall|a: K, b: K, c: K| #![trigger a.cmp_spec(&b), b.cmp_spec(&c)] le(a, b) && le(b, c) ==> le(a, c)
}
pub open spec fn le<K: Ord>(a: K, b: K) -> bool {
    a.cmp_spec(&b) == Ordering::Less || a.cmp_spec(&b) == Ordering::Equal
}
pub open spec fn lt<K: Ord>(a: K, b: K) -> bool { a.cmp_spec(&b) == Ordering::Less }

/// kf is a spec-level key function the executable closure f agrees with wherever it returns
pub open spec fn consistent<'a, T: 'a, K, F: FnOnce(&'a T) -> K>(f: F, kf: spec_fn(T) -> K) -> bool {
    forall|t: &'a T, k: K| #[trigger] call_ensures(f, (t,), k) ==> k == kf(*t)
}
pub open spec fn sorted_kf<T, K: Ord>(s: Seq<T>, kf: spec_fn(T) -> K) -> bool {
    forall|i: int, j: int| 0 <= i <= j < s.len() ==> le(#[trigger] kf(s[i]), #[trigger] kf(s[j]))
}

/// C04's statement for one lookup, over an abstract key function
pub open spec fn glb_post<'a, T, K: Ord>(s: Seq<T>, key: K, kf: spec_fn(T) -> K, res: Option<(usize, &'a T)>) -> bool {
    &&& res is None <==> (forall|i: int| 0 <= i < s.len() ==> lt(key, #[trigger] kf(s[i])))
    &&& res matches Some((j, r)) ==> exists|p: int| 0 <= p < s.len() && r == &#[trigger] s[p]
            && le(kf(s[p]), key)
            && (forall|i: int| 0 <= i < s.len() && le(#[trigger] kf(s[i]), key) ==> le(kf(s[i]), kf(s[p])))
            && (kf(s[p]) == key ==> p == j && forall|i: int| 0 <= i < p ==> #[trigger] kf(s[i]) != key)
}

pub open spec fn err_facts<T, K: Ord>(s: Seq<T>, key: K, kf: spec_fn(T) -> K, index: int) -> bool {
    &&& 0 <= index <= s.len()
    &&& (forall|j: int| 0 <= j < index ==> lt(#[trigger] kf(s[j]), key))
    &&& (forall|j: int| index <= j < s.len() ==> lt(key, #[trigger] kf(s[j])))
}

pub assume_specification<'a, T, B, F> [<[T]>::binary_search_by_key] (s: &'a [T], b: &B, f: F) -> (r: std::result::Result<usize, usize>)
    where B: std::cmp::Ord, F: std::ops::FnMut(&'a T,) -> B,
    requires
        forall|i: int| 0 <= i < s@.len() ==> call_requires(f, (&#[trigger] s@[i],)),
    ensures
        forall|kf: spec_fn(T) -> B| consistent(f, kf) && #[trigger] sorted_kf(s@, kf) && ord_laws::<B>() ==> match r {
            Ok(i) => i < s@.len() && kf(s@[i as int]) == *b,
            Err(i) => err_facts(s@, *b, kf, i as int),
        },
        match r { Ok(i) => i < s@.len(), Err(i) => i <= s@.len() },
;

proof fn lemma_glb_err<'a, T, K: Ord>(s: Seq<T>, key: K, kf: spec_fn(T) -> K, index: int, r: &'a T)
    requires ord_laws::<K>(), sorted_kf(s, kf), err_facts(s, key, kf, index), index > 0, r == &s[index - 1],
    ensures glb_post(s, key, kf, Some((index as usize, r)))
{
    let p = index - 1;
    assert(lt(kf(s[p]), key));
    assert forall|i: int| 0 <= i < s.len() && le(#[trigger] kf(s[i]), key) implies le(kf(s[i]), kf(s[p])) by {
        if i >= index { assert(lt(key, kf(s[i]))); }
    }
    assert(!(forall|i: int| 0 <= i < s.len() ==> lt(key, #[trigger] kf(s[i]))));
}

pub fn greatest_lower_bound<'a, T, K: Ord, F: Fn(&'a T) -> K>(
    slice: &'a [T],
    key: &K,
    map: F,
) -> (res: Option<(usize, &'a T)>)
    requires
        ord_laws::<K>(),
        forall|t: &'a T| #[trigger] call_requires(map, (t,)),
    ensures
        forall|kf: spec_fn(T) -> K| consistent(map, kf) && #[trigger] sorted_kf(slice@, kf) ==> glb_post(slice@, *key, kf, res),
{
    proof {
        assert forall|kf: spec_fn(T) -> K| #[trigger] consistent(map, kf) implies consistent(&map, kf) by {
            assert forall|t: &'a T, k: K| #[trigger] call_ensures(&map, (t,), k) implies k == kf(*t) by {
                assert(call_ensures(map, (t,), k));
            }
        }
    }
    proof {
        assert forall|kf: spec_fn(T) -> K, index: int| #![trigger err_facts(slice@, *key, kf, index)]
            sorted_kf(slice@, kf) && err_facts(slice@, *key, kf, index) && index > 0
            implies glb_post(slice@, *key, kf, Some((index as usize, &slice@[index - 1]))) by { lemma_glb_err(slice@, *key, kf, index, &slice@[index - 1]); }
    }
    let mut idx = match slice.binary_search_by_key(key, &map) {
        Ok(index) => index,
        Err(index) => {
            // If there is no match, then we know for certain that the index is where we should
            // insert a new token, and that the token directly before is the greatest lower bound.
            return slice.get(index.checked_sub(1)?).map(|res: &'a T| -> (o: (usize, &'a T)) ensures o == (index, res) { (index, res) });
        }
    };
    let ghost idx0 = idx;

    // If we get an exact match, then we need to continue looking at previous tokens to see if
    // they also match. We use a linear search because the number of exact matches is generally
    // very small, and almost certainly smaller than the number of tokens before the index.
    for i in it: (0..idx).rev()
        invariant_except_break
            it.index@ == idx0 - idx,
        invariant
            ord_laws::<K>(),
            forall|t: &'a T| #[trigger] call_requires(map, (t,)),
            idx <= idx0 < slice@.len(),
            it.seq().len() == idx0,
            forall|k: int| 0 <= k < it.seq().len() ==> it.seq()[k] == idx0 - 1 - k,
            forall|kf: spec_fn(T) -> K| consistent(map, kf) && #[trigger] sorted_kf(slice@, kf) ==> (forall|j: int| idx <= j <= idx0 ==> #[trigger] kf(slice@[j]) == *key),
        ensures
            forall|kf: spec_fn(T) -> K| consistent(map, kf) && #[trigger] sorted_kf(slice@, kf) ==> (idx == 0 || kf(slice@[idx - 1]) != *key),
    {
        if map(&slice[i]) == *key {
            idx = i;
        } else {
            break;
        }
    }
    proof {
        assert forall|kf: spec_fn(T) -> K| consistent(map, kf) && #[trigger] sorted_kf(slice@, kf) implies glb_post(slice@, *key, kf, Some((idx, &slice@[idx as int]))) by {
            let p = idx as int;
            assert(kf(slice@[p]) == *key);
            assert forall|i: int| 0 <= i < p implies #[trigger] kf(slice@[i]) != *key by {
                if p > 0 {
                    assert(le(kf(slice@[i]), kf(slice@[p - 1])));
                    assert(le(kf(slice@[p - 1]), kf(slice@[p])));
                    if kf(slice@[i]) == *key {
                        assert(le(*key, kf(slice@[p - 1])));
                        assert(le(kf(slice@[p - 1]), *key));
                    }
                }
            }
            assert forall|i: int| 0 <= i < slice@.len() && le(#[trigger] kf(slice@[i]), *key) implies le(kf(slice@[i]), kf(slice@[p])) by { }
        }
    }
    slice.get(idx).map(|res: &'a T| -> (o: (usize, &'a T)) ensures o == (idx, res) { (idx, res) })
}


#[derive(PartialEq, Eq, Copy, Clone, Debug)]
pub struct RawToken {
    pub dst_line: u32,
    pub dst_col: u32,
    pub src_line: u32,
    pub src_col: u32,
    pub src_id: u32,
    pub name_id: u32,
    pub is_range: bool,
}
#[derive(Copy, Clone)]
pub struct Token<'a> {
    raw: &'a RawToken,
    pub(crate) sm: &'a SourceMap,
    pub(crate) idx: usize,
    offset: u32,
}
pub struct SourceMap {
    pub(crate) tokens: Vec<RawToken>,
}
pub open spec fn tkey(t: RawToken) -> (u32, u32) { (t.dst_line, t.dst_col) }
pub open spec fn tle(a: (u32,u32), b: (u32,u32)) -> bool { a.0 < b.0 || (a.0 == b.0 && a.1 <= b.1) }
pub open spec fn sorted_tokens(s: Seq<RawToken>) -> bool {
    forall|i: int, j: int| 0 <= i <= j < s.len() ==> tle(#[trigger] tkey(s[i]), #[trigger] tkey(s[j]))
}
impl<'a> Token<'a> {
    pub(crate) fn get_dst_col(&self) -> (r: u32) ensures r == self.raw.dst_col {
        self.raw.dst_col
    }
    pub(crate) fn is_range(&self) -> (r: bool) ensures r == self.raw.is_range {
        self.raw.is_range
    }
}
proof fn lemma_tuple_ord_laws()
    ensures ord_laws::<(u32,u32)>(),
        forall|a: (u32,u32), b: (u32,u32)| #![trigger le(a, b)] le(a, b) <==> tle(a, b),
        forall|a: (u32,u32), b: (u32,u32)| #![trigger lt(a, b)] lt(a, b) <==> !tle(b, a),
{
}
impl SourceMap {
    pub(crate) fn lookup_token(&self, line: u32, col: u32) -> (res: Option<Token<'_>>)
        requires sorted_tokens(self.tokens@),
        ensures
            res is None <==> (forall|i: int| 0 <= i < self.tokens@.len() ==> !tle(#[trigger] tkey(self.tokens@[i]), (line, col))),
            res matches Some(t) ==> tle(tkey(*t.raw), (line, col))
                && (forall|i: int| 0 <= i < self.tokens@.len() && tle(#[trigger] tkey(self.tokens@[i]), (line, col)) ==> tle(tkey(self.tokens@[i]), tkey(*t.raw)))
                && (exists|p: int| 0 <= p < self.tokens@.len() && t.raw == &#[trigger] self.tokens@[p] && (tkey(self.tokens@[p]) == (line, col) ==> forall|i: int| 0 <= i < p ==> #[trigger] tkey(self.tokens@[i]) != (line, col)))
                && t.offset == (if t.raw.is_range && t.raw.dst_line == line { (col - t.raw.dst_col) as u32 } else { 0u32 }),
    {
        let ghost kf = |t: RawToken| tkey(t);
        proof {
            lemma_tuple_ord_laws();
            assert forall|t: RawToken| #[trigger] tkey(t) == kf(t) by {}
            assert(sorted_kf(self.tokens@, kf));
        }
        let (idx, raw) =
            greatest_lower_bound(&self.tokens, &(line, col), |t: &RawToken| -> (k: (u32, u32)) ensures k == (t.dst_line, t.dst_col) { (t.dst_line, t.dst_col) })?;

        let mut token = Token {
            raw,
            sm: self,
            idx,
            offset: 0,
        };

        if token.is_range() {
            token.offset = col - token.get_dst_col();
        }

        Some(token)
    }
}
}
fn main() {}
