use vstd::prelude::*;
use vstd::std_specs::iter::*;
use std::io;
use std::io::Read;
macro_rules! fail {
    ($expr:expr) => {
        return Err(::std::convert::From::from($expr));
    };
}
verus! {

#[verifier::external_type_specification]
#[verifier::external_body]
pub struct ExIoError(std::io::Error);

#[verifier::external_type_specification]
pub struct ExErrorKind(std::io::ErrorKind);

#[verifier::external_body]
pub fn verif_io_error_new(kind: std::io::ErrorKind, msg: &'static str) -> std::io::Error { std::io::Error::new(kind, msg) }

#[verifier::external_trait_specification]
#[verifier::external_trait_extension(ReadSpec via ReadSpecImpl)]
pub trait ExRead {
    type ExternalTraitSpecificationFor: std::io::Read;
    /// bytes this reader will still deliver (ghost model of the underlying stream)
    spec fn pending(&self) -> Seq<u8>;
    fn read(&mut self, buf: &mut [u8]) -> (r: std::io::Result<usize>)
        ensures
            final(buf)@.len() == old(buf)@.len(),
            match r {
                Ok(n) => n <= old(buf)@.len()
                    && n <= old(self).pending().len()
                    && final(buf)@.subrange(0, n as int) == old(self).pending().subrange(0, n as int)
                    && final(self).pending() == old(self).pending().subrange(n as int, old(self).pending().len() as int)
                    && (n == 0 ==> old(buf)@.len() == 0 || old(self).pending().len() == 0),
                Err(_) => true,
            };
}
// ---- trusted shim: Iterator::enumerate() ----
#[verifier::external_body]
#[verifier::reject_recursive_types(I)]
pub struct VEnumerate<I: Iterator> { it: std::iter::Enumerate<I> }

pub uninterp spec fn venum_remaining<I: Iterator>(e: &VEnumerate<I>) -> Seq<(usize, I::Item)>;
pub uninterp spec fn venum_laws<I: Iterator>(e: &VEnumerate<I>) -> bool;

pub open spec fn enumerate_seq<T>(s: Seq<T>) -> Seq<(usize, T)> {
    Seq::new(s.len(), |i: int| (i as usize, s[i]))
}

#[verifier::external_body]
pub fn verif_enumerate<I: Iterator>(it: I) -> (r: VEnumerate<I>)
    requires it.obeys_prophetic_iter_laws(),
    ensures venum_remaining(&r) == enumerate_seq(it.remaining()),
{ VEnumerate { it: it.enumerate() } }

impl<I: Iterator> Iterator for VEnumerate<I> {
    type Item = (usize, I::Item);
    #[verifier::external_body]
    fn next(&mut self) -> (r: Option<(usize, I::Item)>)
    { self.it.next() }
}

impl<I: Iterator> IteratorSpecImpl for VEnumerate<I> {
    open spec fn obeys_prophetic_iter_laws(&self) -> bool { true }
    #[verifier::prophetic]
    open spec fn remaining(&self) -> Seq<(usize, I::Item)> { venum_remaining(self) }
    #[verifier::prophetic]
    open spec fn will_return_none(&self) -> bool { true }
    open spec fn decrease(&self) -> Option<nat> { Some(venum_remaining(self).len()) }
    open spec fn peek(&self, i: int) -> Option<(usize, I::Item)> {
        if 0 <= i < venum_remaining(self).len() { Some(venum_remaining(self)[i]) } else { None }
    }
}
#[derive(PartialEq, Eq)]
enum HeaderState {
    Undecided,
    Junk,
    AwaitingNewline,
    PastHeader,
}

pub struct StripHeaderReader<R: Read> {
    r: R,
    header_state: HeaderState,
}

impl<R: Read> StripHeaderReader<R> {
    pub fn new(reader: R) -> StripHeaderReader<R> {
        StripHeaderReader {
            r: reader,
            header_state: HeaderState::Undecided,
        }
    }
}

fn is_junk_json(byte: u8) -> bool {
    byte == b')' || byte == b']' || byte == b'}' || byte == b'\''
}

impl<R: Read> Read for StripHeaderReader<R> {
    #[inline(always)]
    fn read(&mut self, buf: &mut [u8]) -> io::Result<usize> {
        if self.header_state == HeaderState::PastHeader {
            return self.r.read(buf);
        }
        self.strip_head_read(buf)
    }
}

impl<R: Read> StripHeaderReader<R> {
    fn strip_head_read(&mut self, buf: &mut [u8]) -> io::Result<usize> {
        let mut backing = vec![0; buf.len()];
        let local_buf: &mut [u8] = &mut backing;

        loop {
            let read = self.r.read(local_buf)?;
            if read == 0 {
                return Ok(0);
            }
            for (offset, byte__r) in verif_enumerate(local_buf[0..read].iter()) { let byte = *byte__r;
                self.header_state = match self.header_state {
                    HeaderState::Undecided => {
                        if is_junk_json(byte) {
                            HeaderState::Junk
                        } else {
                            buf[..read].copy_from_slice(&local_buf[..read]);
                            self.header_state = HeaderState::PastHeader;
                            return Ok(read);
                        }
                    }
                    HeaderState::Junk => {
                        if byte == b'\r' {
                            HeaderState::AwaitingNewline
                        } else if byte == b'\n' {
                            HeaderState::PastHeader
                        } else {
                            HeaderState::Junk
                        }
                    }
                    HeaderState::AwaitingNewline => {
                        if byte == b'\n' {
                            HeaderState::PastHeader
                        } else {
                            fail!(verif_io_error_new(
                                io::ErrorKind::InvalidData,
                                "expected newline"
                            ));
                        }
                    }
                    HeaderState::PastHeader => {
                        let rem = read - offset;
                        buf[..rem].copy_from_slice(&local_buf[offset..read]);
                        return Ok(rem);
                    }
                };
            }
        }
    }
}
}
fn main() {}
