
use vstd::prelude::*;
use vstd::std_specs::iter::*;
use std::io;
use std::io::Read;
macro_rules! fail {
    ($expr:expr) => {
        return Err(::std::convert::From::from($expr));
    };
}
verus! {

#[verifier::external_type_specification]
#[verifier::external_body]
pub struct ExIoError(std::io::Error);

#[verifier::external_type_specification]
pub struct ExErrorKind(std::io::ErrorKind);

/// true for errors produced by the underlying reader (never for errors this crate constructs)
pub uninterp spec fn inner_error(e: &std::io::Error) -> bool;

#[verifier::external_body]
pub fn verif_io_error_new(kind: std::io::ErrorKind, msg: &'static str) -> (e: std::io::Error)
    ensures !inner_error(&e)
{ std::io::Error::new(kind, msg) }

#[verifier::external_trait_specification]
#[verifier::external_trait_extension(ReadSpec via ReadSpecImpl)]
pub trait ExRead {
    type ExternalTraitSpecificationFor: std::io::Read;
    /// bytes this reader will still deliver (ghost model of the underlying stream)
    spec fn pending(&self) -> Seq<u8>;
    fn read(&mut self, buf: &mut [u8]) -> (r: std::io::Result<usize>)
        ensures
            final(buf)@.len() == old(buf)@.len(),
            match r {
                Ok(n) => n <= old(buf)@.len()
                    && n <= old(self).pending().len()
                    && final(buf)@.subrange(0, n as int) == old(self).pending().subrange(0, n as int)
                    && final(self).pending() == old(self).pending().subrange(n as int, old(self).pending().len() as int)
                    && (n == 0 ==> old(buf)@.len() == 0 || old(self).pending().len() == 0)
                    && (n == 0 ==> final(self).pending() == old(self).pending()),
                Err(e) => inner_error(&e),
            };
}
// ---- trusted shim: Iterator::enumerate() ----
#[verifier::external_body]
#[verifier::reject_recursive_types(I)]
pub struct VEnumerate<I: Iterator> { it: std::iter::Enumerate<I> }

pub uninterp spec fn venum_remaining<I: Iterator>(e: &VEnumerate<I>) -> Seq<(usize, I::Item)>;
pub uninterp spec fn venum_laws<I: Iterator>(e: &VEnumerate<I>) -> bool;

pub open spec fn enumerate_seq<T>(s: Seq<T>) -> Seq<(usize, T)> {
    Seq::new(s.len(), |i: int| (i as usize, s[i]))
}

#[verifier::external_body]
pub fn verif_enumerate<I: Iterator>(it: I) -> (r: VEnumerate<I>)
    requires it.obeys_prophetic_iter_laws(),
    ensures venum_remaining(&r) == enumerate_seq(it.remaining()),
{ VEnumerate { it: it.enumerate() } }

impl<I: Iterator> Iterator for VEnumerate<I> {
    type Item = (usize, I::Item);
    #[verifier::external_body]
    fn next(&mut self) -> (r: Option<(usize, I::Item)>)
    { self.it.next() }
}

impl<I: Iterator> IteratorSpecImpl for VEnumerate<I> {
    open spec fn obeys_prophetic_iter_laws(&self) -> bool { true }
    #[verifier::prophetic]
    open spec fn remaining(&self) -> Seq<(usize, I::Item)> { venum_remaining(self) }
    #[verifier::prophetic]
    open spec fn will_return_none(&self) -> bool { true }
    open spec fn decrease(&self) -> Option<nat> { Some(venum_remaining(self).len()) }
    open spec fn peek(&self, i: int) -> Option<(usize, I::Item)> {
        if 0 <= i < venum_remaining(self).len() { Some(venum_remaining(self)[i]) } else { None }
    }
}


#[derive(PartialEq, Eq)]
enum HeaderState {
    Undecided,
    Junk,
    AwaitingNewline,
    PastHeader,
}

pub struct StripHeaderReader<R: Read> {
    r: R,
    header_state: HeaderState,
}

spec fn junk(b: u8) -> bool { b == 41 || b == 93 || b == 125 || b == 39 }

spec fn strip_spec(st: HeaderState, p: Seq<u8>) -> Option<Seq<u8>>
    decreases p.len()
{
    if p.len() == 0 { Some(p) } else {
        let rest = p.drop_first();
        match st {
            HeaderState::PastHeader => Some(p),
            HeaderState::Undecided => if junk(p[0]) { strip_spec(HeaderState::Junk, rest) } else { Some(p) },
            HeaderState::Junk => if p[0] == 13 { strip_spec(HeaderState::AwaitingNewline, rest) } else if p[0] == 10 { Some(rest) } else { strip_spec(HeaderState::Junk, rest) },
            HeaderState::AwaitingNewline => if p[0] == 10 { Some(rest) } else { None },
        }
    }
}

fn is_junk_json(byte: u8) -> (res: bool)
    ensures res == junk(byte)
{
    byte == b')' || byte == b']' || byte == b'}' || byte == b'\''
}

impl<R: Read> StripHeaderReader<R> {
    spec fn out(&self) -> Option<Seq<u8>> { strip_spec(self.header_state, self.r.pending()) }

    fn strip_head_read(&mut self, buf: &mut [u8]) -> (res: io::Result<usize>)
        ensures
            final(buf)@.len() == old(buf)@.len(),
            match res {
                Ok(n) => (old(buf)@.len() == 0 && n == 0 && final(self).out() == old(self).out()) || (
                    old(self).out() matches Some(o)
                    && n <= old(buf)@.len() && n <= o.len()
                    && final(buf)@.subrange(0, n as int) == o.subrange(0, n as int)
                    && (final(self).out() matches Some(o2) && o2 =~= o.subrange(n as int, o.len() as int))
                    && (n == 0 ==> o.len() == 0)),
                Err(e) => inner_error(&e) || old(self).out() is None,
            },
    {
        let mut backing = vec![0; buf.len()];
        let local_buf: &mut [u8] = &mut backing;

        let ghost o0 = old(self).out();
        loop
            invariant
                self.out() == o0,
                o0 == old(self).out(),
                buf@.len() == old(buf)@.len(),
                local_buf@.len() == buf@.len(),
            decreases self.r.pending().len(),
        {
            let ghost pend0 = self.r.pending();
            let read = self.r.read(local_buf)?;
            if read == 0 {
                return Ok(0);
            }
            let ghost chunk = pend0.subrange(0, read as int);
            let ghost after = pend0.subrange(read as int, pend0.len() as int);
            proof { assert(pend0 =~= chunk + after); assert(chunk.subrange(0, read as int) =~= chunk); }
            for (offset, byte__r) in it: verif_enumerate(local_buf[0..read].iter())
                invariant
                    0 < read <= local_buf@.len(), local_buf@.len() == buf@.len(), buf@.len() == old(buf)@.len(),
                    local_buf@.subrange(0, read as int) == chunk,
                    chunk.len() == read, it.seq().len() == read,
                    self.r.pending() == after,
                    o0 == old(self).out(),
                    strip_spec(self.header_state, chunk.subrange(it.index@, read as int) + after) == o0,
                    it.index@ > 0 ==> self.header_state != HeaderState::Undecided,
            { let byte = *byte__r;
                proof {
                    assert(offset == it.index@);
                    assert(byte == chunk[it.index@]);
                    let cur = chunk.subrange(it.index@, read as int) + after;
                    assert(cur[0] == byte);
                    assert(cur.drop_first() == chunk.subrange(it.index@ + 1, read as int) + after);
                }
                self.header_state = match self.header_state {
                    HeaderState::Undecided => {
                        if is_junk_json(byte) {
                            HeaderState::Junk
                        } else {
                            buf[..read].copy_from_slice(&local_buf[..read]);
                            self.header_state = HeaderState::PastHeader;
                            return Ok(read);
                        }
                    }
                    HeaderState::Junk => {
                        if byte == b'\r' {
                            HeaderState::AwaitingNewline
                        } else if byte == b'\n' {
                            HeaderState::PastHeader
                        } else {
                            HeaderState::Junk
                        }
                    }
                    HeaderState::AwaitingNewline => {
                        if byte == b'\n' {
                            HeaderState::PastHeader
                        } else {
                            fail!(verif_io_error_new(
                                io::ErrorKind::InvalidData,
                                "expected newline"
                            ));
                        }
                    }
                    HeaderState::PastHeader => {
                        let rem = read - offset;
                        buf[..rem].copy_from_slice(&local_buf[offset..read]);
                        return Ok(rem);
                    }
                };
            }
        }
    }
}
}
fn main() {}
