#[cfg(kani)]
mod proofs {
    use sourcemap::vlq::{generate_vlq_segment, parse_vlq_segment};

    // bounded: all 2-byte ASCII strings
    #[kani::proof]
    #[kani::unwind(4)]
    fn parse_two_bytes() {
        let a: u8 = kani::any();
        let b: u8 = kani::any();
        kani::assume(a < 128 && b < 128);
        let buf = [a, b];
        let s = match core::str::from_utf8(&buf) { Ok(s) => s, Err(_) => return };
        let foreign = |c: u8| !(c.is_ascii_alphanumeric() || c == b'+' || c == b'/');
        match parse_vlq_segment(s) {
            Ok(v) => { assert!(!foreign(a) && !foreign(b)); assert!(v.len() >= 1); }
            Err(_) => {}
        }
    }
}
