import sys; sys.path.insert(0,'/tmp/vx/px')
from ext import *
D=open('/repo/src/decoder.rs').read()
f=grab(D,"pub fn decode_regular(rsm: RawSourceMap)")
# outline: from first 'let mut dst_col;' through end of first top-level for loop
i=f.index("    let mut dst_col;")
j=f.index("    let names = rsm.names")
k=f.index("    let mut nums = Vec::with_capacity(6);")
l=f.index("    for (dst_line, (line, rmi_str)) in mappings")
e=match_brace(f, f.index('{', l))
decls=f[i:j]
loop=f[l:e]
fn='''pub fn decode_regular__mappings_loop(mappings: &str, range_mappings: &str, sources: &Vec<Option<String>>, names: &Vec<Value>, tokens: &mut Vec<RawToken>) -> Result<()> {
'''+decls+'''    let mut nums = Vec::with_capacity(6);
    let mut rmi = BitVec::new();

'''+loop+'''
    Ok(())
}
'''
pre='''
macro_rules! fail {
    ($expr:expr) => {
        return Err(::std::convert::From::from($expr));
    };
}
'''
stubs='''
pub enum Error { VlqLeftover, VlqNoValues, VlqOverflow, BadSegmentSize(u32), BadSourceReference(u32), BadNameReference(u32), InvalidBase64(char) }
pub type Result<T> = std::result::Result<T, Error>;
#[verifier::external_body]
pub struct Value { _x: u8 }
#[derive(PartialEq, Eq, Copy, Clone, Debug)]
pub struct RawToken {
    pub dst_line: u32,
    pub dst_col: u32,
    pub src_line: u32,
    pub src_col: u32,
    pub src_id: u32,
    pub name_id: u32,
    pub is_range: bool,
}
#[verifier::external_body]
pub struct BitVec { _x: u8 }
impl BitVec {
    #[verifier::external_body]
    pub fn new() -> BitVec { unimplemented!() }
    #[verifier::external_body]
    pub fn get(&self, i: usize) -> Option<BitRef> { unimplemented!() }
}
pub struct BitRef { pub b: bool }
impl std::ops::Deref for BitRef { type Target = bool; fn deref(&self) -> &bool { &self.b } }
#[verifier::external_body]
fn decode_rmi(rmi_str: &str, val: &mut BitVec) -> Result<()> { unimplemented!() }
#[verifier::external_body]
pub(crate) fn parse_vlq_segment_into(segment: &str, rv: &mut Vec<i64>) -> Result<()> { unimplemented!() }
'''
body="use vstd::prelude::*;\nuse vstd::std_specs::iter::*;\n"+pre+"verus! {\n"+stubs+fn+"\n}\nfn main() {}\n"
open('/tmp/vx/px/p3.rs','w').write(body)
