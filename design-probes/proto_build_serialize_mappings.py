import sys; sys.path.insert(0,'/tmp/vx/px')
from ext import *
T=open('/repo/src/types.rs').read()
E=open('/repo/src/encoder.rs').read()
V=open('/repo/src/vlq.rs').read()
shim_enum=open('/tmp/vx/shim_enum.rs').read()
parts=[]
parts.append(grab(T,"#[derive(PartialEq, Eq, Copy, Clone, Debug)]\npub struct RawToken"))
parts.append(grab(T,"#[derive(Copy, Clone)]\npub struct Token<'a>"))
parts.append(grab(T,"impl PartialEq for Token<'_>"))
parts.append("impl Eq for Token<'_> {}")
parts.append(grab(T,"pub struct TokenIter<'a>"))
parts.append(grab(T,"impl<'a> Iterator for TokenIter<'a>").replace("    fn next(&mut self)","    #[verifier::external_body]\n    fn next(&mut self)"))
parts.append('''
#[verifier::external_body]
pub struct DebugId { _x: u8 }
#[verifier::external_body]
pub struct SourceView { _x: u8 }
''')
parts.append(grab(T,"#[derive(Clone, Debug)]\npub struct SourceMap {").replace("#[derive(Clone, Debug)]\n",""))
# selected Token methods
timpl=grab(T,"impl<'a> Token<'a> {\n    /// get the destination (minified) line number")
parts.append(timpl)
sm_methods=["pub fn get_source_view(&self, idx: u32)","pub fn get_token(&self, idx: usize)","pub fn tokens(&self)","pub fn get_source(&self, idx: u32)","pub fn get_name(&self, idx: u32)","pub fn get_token_count(&self)"]
parts.append("impl SourceMap {\n"+"\n".join("    "+grab(T,m) for m in sm_methods)+"\n}")
parts.append("pub(crate) fn encode_vlq(out: &mut String, num: i64) { }")
parts.append(grab(E,"fn encode_vlq_diff"))
parts.append(grab(E,"fn serialize_mappings"))
body="use vstd::prelude::*;\nuse vstd::std_specs::iter::*;\nuse std::sync::Arc;\nuse std::collections::BTreeSet;\nverus! {\n"+shim_enum+"\n"+"\n\n".join(parts)+"\n}\nfn main() {}\n"
open('/tmp/vx/px/p1.rs','w').write(body)
