# scratch prototype extractor: grab items by signature prefix with rust-aware brace matching
import re,sys
def skip_ws_comments(s,i): return i
def match_brace(s, j):
    # s[j]=='{' ; returns index after matching '}' ; aware of strings, chars, comments
    depth=0; k=j; n=len(s)
    while k<n:
        c=s[k]
        if s.startswith('//',k):
            k=s.index('\n',k); continue
        if s.startswith('/*',k):
            k=s.index('*/',k)+2; continue
        if c=='"':
            k+=1
            while s[k]!='"':
                if s[k]=='\\': k+=1
                k+=1
            k+=1; continue
        if c=='r' and re.match(r'r#*"',s[k:]):
            m=re.match(r'r(#*)"',s[k:]); h=m.group(1)
            e=s.index('"'+h,k+len(m.group(0))); k=e+1+len(h); continue
        if c=="'":
            # char literal or lifetime
            m=re.match(r"'(\\.|[^\\'])'",s[k:])
            if m: k+=len(m.group(0)); continue
            k+=1; continue
        if c=='b' and s[k+1:k+2]=="'":
            m=re.match(r"b'(\\.|[^\\'])'",s[k:])
            if m: k+=len(m.group(0)); continue
        if c=='{': depth+=1
        elif c=='}':
            depth-=1
            if depth==0: return k+1
        k+=1
    raise Exception("unbalanced")
def grab(src, sig, nth=0):
    i=-1
    for _ in range(nth+1):
        i=src.index(sig,i+1)
    # include preceding attribute/doc lines
    j=src.index('{',i)
    # for items ending with ';' before '{' (e.g. consts) handle separately
    e=match_brace(src,j)
    return src[i:e]
