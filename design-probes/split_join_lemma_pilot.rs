use vstd::prelude::*;
verus! {
pub open spec fn find_sep(s: Seq<u8>, sep: u8, from: int) -> int
    decreases s.len() - from
{
    if from < 0 || from >= s.len() { s.len() as int } else if s[from] == sep { from } else { find_sep(s, sep, from + 1) }
}
pub open spec fn split_seq(s: Seq<u8>, sep: u8) -> Seq<Seq<u8>>
    decreases s.len()
{
    let k = find_sep(s, sep, 0);
    if 0 <= k < s.len() { seq![s.subrange(0, k)] + split_seq(s.subrange(k + 1, s.len() as int), sep) } else { seq![s] }
}
pub open spec fn join(pieces: Seq<Seq<u8>>, sep: u8) -> Seq<u8>
    decreases pieces.len()
{
    if pieces.len() == 0 { seq![] } else if pieces.len() == 1 { pieces[0] } else { pieces[0] + seq![sep] + join(pieces.drop_first(), sep) }
}
pub open spec fn no_sep(p: Seq<u8>, sep: u8) -> bool { forall|i: int| 0 <= i < p.len() ==> p[i] != sep }

proof fn lemma_find_sep_none(s: Seq<u8>, sep: u8, from: int)
    requires 0 <= from <= s.len(), forall|i: int| from <= i < s.len() ==> s[i] != sep,
    ensures find_sep(s, sep, from) == s.len()
    decreases s.len() - from
{
    if from < s.len() { lemma_find_sep_none(s, sep, from + 1); }
}
proof fn lemma_find_sep_first(s: Seq<u8>, sep: u8, from: int, k: int)
    requires 0 <= from <= k < s.len(), s[k] == sep, forall|i: int| from <= i < k ==> s[i] != sep,
    ensures find_sep(s, sep, from) == k
    decreases k - from
{
    if from < k { lemma_find_sep_first(s, sep, from + 1, k); }
}

proof fn lemma_split_join(pieces: Seq<Seq<u8>>, sep: u8)
    requires pieces.len() >= 1, forall|i: int| 0 <= i < pieces.len() ==> no_sep(#[trigger] pieces[i], sep),
    ensures split_seq(join(pieces, sep), sep) == pieces
    decreases pieces.len()
{
    let j = join(pieces, sep);
    if pieces.len() == 1 {
        assert(no_sep(pieces[0], sep));
        lemma_find_sep_none(j, sep, 0);
        assert(split_seq(j, sep) =~= pieces);
    } else {
        let p0 = pieces[0];
        let rest = pieces.drop_first();
        let jr = join(rest, sep);
        assert(no_sep(p0, sep));
        assert(j == p0 + seq![sep] + jr);
        let k = p0.len() as int;
        assert(j[k] == sep);
        assert forall|i: int| 0 <= i < k implies j[i] != sep by { assert(j[i] == p0[i]); }
        lemma_find_sep_first(j, sep, 0, k);
        assert(j.subrange(0, k) =~= p0);
        assert(j.subrange(k + 1, j.len() as int) =~= jr);
        assert forall|i: int| 0 <= i < rest.len() implies no_sep(#[trigger] rest[i], sep) by { assert(rest[i] == pieces[i + 1]); }
        lemma_split_join(rest, sep);
        assert(split_seq(j, sep) =~= seq![p0] + rest);
        assert(seq![p0] + rest =~= pieces);
    }
}
}
fn main() {}
