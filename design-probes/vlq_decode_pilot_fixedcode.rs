
use vstd::prelude::*;
use vstd::std_specs::iter::*;
use vstd::arithmetic::power2::*;
verus! {

pub enum Error { VlqLeftover, VlqNoValues, VlqOverflow, InvalidBase64(char) }
pub type Result<T> = std::result::Result<T, Error>;

// ---- trusted shim: str::bytes() ----
pub uninterp spec fn str_bytes(s: &str) -> Seq<u8>;

#[verifier::external_body]
pub struct VBytes<'a> { it: std::str::Bytes<'a> }

pub uninterp spec fn vbytes_remaining(b: &VBytes) -> Seq<u8>;

#[verifier::external_body]
pub fn verif_bytes<'a>(s: &'a str) -> (r: VBytes<'a>)
    ensures vbytes_remaining(&r) == str_bytes(s)
{ VBytes { it: s.bytes() } }

impl<'a> Iterator for VBytes<'a> {
    type Item = u8;
    #[verifier::external_body]
    fn next(&mut self) -> (r: Option<u8>)
    { self.it.next() }
}

impl<'a> IteratorSpecImpl for VBytes<'a> {
    open spec fn obeys_prophetic_iter_laws(&self) -> bool { true }
    #[verifier::prophetic]
    open spec fn remaining(&self) -> Seq<u8> { vbytes_remaining(self) }
    #[verifier::prophetic]
    open spec fn will_return_none(&self) -> bool { true }
    open spec fn decrease(&self) -> Option<nat> { Some(vbytes_remaining(self).len()) }
    open spec fn peek(&self, i: int) -> Option<u8> {
        if 0 <= i < vbytes_remaining(self).len() { Some(vbytes_remaining(self)[i]) } else { None }
    }
}


pub assume_specification[ i64::checked_shl ](x: i64, rhs: u32) -> (r: Option<i64>)
    ensures
        rhs >= 64 ==> r.is_none(),
        rhs < 64 ==> r == Some(x << rhs);

pub open spec fn b64_index(c: u8) -> int {
    if 65 <= c <= 90 { c - 65 } else if 97 <= c <= 122 { c - 97 + 26 }
    else if 48 <= c <= 57 { c - 48 + 52 } else if c == 43 { 62 } else if c == 47 { 63 } else { -1 }
}

const B64: [i8; 256] = [
    -1,
    -1,
    -1,
    -1,
    -1,
    -1,
    -1,
    -1,
    -1,
    -1,
    -1,
    -1,
    -1,
    -1,
    -1,
    -1,
    -1,
    -1,
    -1,
    -1,
    -1,
    -1,
    -1,
    -1,
    -1,
    -1,
    -1,
    -1,
    -1,
    -1,
    -1,
    -1,
    -1,
    -1,
    -1,
    -1,
    -1,
    -1,
    -1,
    -1,
    -1,
    -1,
    -1,
    62,
    -1,
    -1,
    -1,
    63,
    52,
    53,
    54,
    55,
    56,
    57,
    58,
    59,
    60,
    61,
    -1,
    -1,
    -1,
    -1,
    -1,
    -1,
    -1,
    0,
    1,
    2,
    3,
    4,
    5,
    6,
    7,
    8,
    9,
    10,
    11,
    12,
    13,
    14,
    15,
    16,
    17,
    18,
    19,
    20,
    21,
    22,
    23,
    24,
    25,
    -1,
    -1,
    -1,
    -1,
    -1,
    -1,
    26,
    27,
    28,
    29,
    30,
    31,
    32,
    33,
    34,
    35,
    36,
    37,
    38,
    39,
    40,
    41,
    42,
    43,
    44,
    45,
    46,
    47,
    48,
    49,
    50,
    51,
    -1,
    -1,
    -1,
    -1,
    -1 - 1,
    -1,
    -1,
    -1,
    -1,
    -1,
    -1,
    -1,
    -1,
    -1,
    -1,
    -1,
    -1,
    -1,
    -1,
    -1,
    -1,
    -1,
    -1,
    -1,
    -1,
    -1,
    -1,
    -1,
    -1,
    -1,
    -1,
    -1,
    -1,
    -1,
    -1,
    -1,
    -1,
    -1,
    -1,
    -1,
    -1,
    -1,
    -1,
    -1,
    -1,
    -1,
    -1,
    -1,
    -1,
    -1,
    -1,
    -1,
    -1,
    -1,
    -1,
    -1,
    -1,
    -1,
    -1,
    -1,
    -1,
    -1,
    -1,
    -1,
    -1,
    -1,
    -1,
    -1,
    -1,
    -1,
    -1,
    -1,
    -1,
    -1,
    -1,
    -1,
    -1,
    -1,
    -1,
    -1,
    -1,
    -1,
    -1,
    -1,
    -1,
    -1,
    -1,
    -1,
    -1,
    -1,
    -1,
    -1,
    -1,
    -1,
    -1,
    -1,
    -1,
    -1,
    -1,
    -1,
    -1,
    -1,
    -1,
    -1,
    -1,
    -1,
    -1,
    -1,
    -1,
    -1,
    -1,
    -1,
    -1,
    -1,
    -1,
    -1,
    -1,
    -1,
    -1,
    -1,
    -1,
    -1,
    -1,
    -1,
    -1,
    -1,
    -1,
    -1,
    -1,
    -1,
    -1,
    -1,
    -1,
];

proof fn lemma_table()
    ensures forall|c: u8| #![auto] (b64_index(c) >= 0 ==> B64@[c as int] == b64_index(c)) && (b64_index(c) < 0 ==> B64@[c as int] < 0)
{
}

pub open spec fn vlq_value(raw: int) -> int { if raw % 2 == 1 { -(raw / 2) } else { raw / 2 } }

pub open spec fn parse_from(s: Seq<u8>, i: int, cur: int, ndig: nat, acc: Seq<int>) -> Option<Seq<int>>
    decreases s.len() - i
{
    if i < 0 { None } else
    if i >= s.len() {
        if ndig != 0 { None } else if acc.len() == 0 { None } else { Some(acc) }
    } else {
        let d = b64_index(s[i]);
        if d < 0 { None }
        else if ndig >= 13 { None }
        else {
            let cur2 = cur + (d % 32) * pow2(5 * ndig);
            if d >= 32 { parse_from(s, i + 1, cur2, ndig + 1, acc) }
            else { parse_from(s, i + 1, 0, 0, acc.push(vlq_value(cur2))) }
        }
    }
}

pub open spec fn ints(v: Seq<i64>) -> Seq<int> { v.map_values(|x: i64| x as int) }

pub open spec fn fits(m: int) -> bool { -0x4000_0000_0000_0000 < m < 0x4000_0000_0000_0000 }

// values agree wherever the mathematical value fits
pub open spec fn agree(v: Seq<i64>, m: Seq<int>) -> bool {
    v.len() == m.len() && forall|k: int| 0 <= k < v.len() && fits(#[trigger] m[k]) ==> v[k] == m[k]
}

proof fn lemma_pow2_5(n: nat)
    requires n <= 13
    ensures pow2(5 * n) == if n == 0 { 1int } else if n == 1 { 0x20 } else if n == 2 { 0x400 } else if n == 3 { 0x8000 } else if n == 4 { 0x10_0000 }
        else if n == 5 { 0x200_0000 } else if n == 6 { 0x4000_0000 } else if n == 7 { 0x8_0000_0000 } else if n == 8 { 0x100_0000_0000 }
        else if n == 9 { 0x2000_0000_0000 } else if n == 10 { 0x4_0000_0000_0000 } else if n == 11 { 0x80_0000_0000_0000 } else if n == 12 { 0x1000_0000_0000_0000 } else { 0x2_0000_0000_0000_0000 }
{
    lemma2_to64();
    lemma2_to64_rest();
    if n == 13 { lemma_pow2_adds(64, 1); }
}

proof fn lemma_acc(mcur: int, n: nat, v: int)
    requires 0 <= mcur < pow2(5 * n), 0 <= v < 32, n <= 12,
    ensures
        0 <= mcur + v * pow2(5 * n) < pow2(5 * (n + 1)),
        pow2(5 * (n + 1)) == 32 * pow2(5 * n),
        0 <= v * pow2(5 * n) < pow2(5 * (n + 1)),
{
    lemma_pow2_adds(5 * n, 5);
    lemma2_to64();
    assert(5 * (n + 1) == 5 * n + 5);
    let p = pow2(5 * n);
    assert(0 <= v * p <= 31 * p) by (nonlinear_arith) requires 0 <= v < 32, p > 0;
}

proof fn lemma_shl(v: i64, sh: u32)
    requires 0 <= v < 32, sh <= 55, sh % 5 == 0,
    ensures (v << sh) == v * pow2(sh as nat),
{
    lemma_pow2_5((sh / 5) as nat);
    assert(5 * ((sh / 5) as nat) == sh as nat);
    if sh == 0 { assert((v << 0u32) == v * 0x1) by (bit_vector) requires 0 <= v < 32; }
    if sh == 5 { assert((v << 5u32) == v * 0x20) by (bit_vector) requires 0 <= v < 32; }
    if sh == 10 { assert((v << 10u32) == v * 0x400) by (bit_vector) requires 0 <= v < 32; }
    if sh == 15 { assert((v << 15u32) == v * 0x8000) by (bit_vector) requires 0 <= v < 32; }
    if sh == 20 { assert((v << 20u32) == v * 0x100000) by (bit_vector) requires 0 <= v < 32; }
    if sh == 25 { assert((v << 25u32) == v * 0x2000000) by (bit_vector) requires 0 <= v < 32; }
    if sh == 30 { assert((v << 30u32) == v * 0x40000000) by (bit_vector) requires 0 <= v < 32; }
    if sh == 35 { assert((v << 35u32) == v * 0x800000000) by (bit_vector) requires 0 <= v < 32; }
    if sh == 40 { assert((v << 40u32) == v * 0x10000000000) by (bit_vector) requires 0 <= v < 32; }
    if sh == 45 { assert((v << 45u32) == v * 0x200000000000) by (bit_vector) requires 0 <= v < 32; }
    if sh == 50 { assert((v << 50u32) == v * 0x4000000000000) by (bit_vector) requires 0 <= v < 32; }
    if sh == 55 { assert((v << 55u32) == v * 0x80000000000000) by (bit_vector) requires 0 <= v < 32; }
}

proof fn lemma_bits()
    ensures
        forall|e: i64| 0 <= e < 64 ==> #[trigger] (e & 0b11111) == e % 32,
        forall|e: i64| 0 <= e < 64 ==> #[trigger] (e >> 5) == e / 32,
        forall|v: i64, sh: u32| 0 <= v < 32 && sh <= 55 && sh % 5 == 0 ==> #[trigger] (v << sh) == v * pow2(sh as nat),
        forall|v: i64| 0 <= v < 8 ==> #[trigger] (v << 60u32) == v * 0x1000_0000_0000_0000,
        forall|v: i64| 0 <= v < 32 ==> -0x8000_0000_0000_0000 <= #[trigger] (v << 60u32) <= 0x7000_0000_0000_0000,
        forall|c: i64| 0 <= c ==> #[trigger] (c & 1) == c % 2,
        forall|c: i64| 0 <= c ==> #[trigger] (c >> 1) == c / 2,
        forall|c: i64| -0x4000_0000_0000_0000 <= #[trigger] (c >> 1) < 0x4000_0000_0000_0000,
{
    assert forall|e: i64| 0 <= e < 64 implies #[trigger] (e & 0b11111) == e % 32 by { assert((e & 0b11111) == e % 32) by (bit_vector) requires 0 <= e < 64; }
    assert forall|e: i64| 0 <= e < 64 implies #[trigger] (e >> 5) == e / 32 by { assert((e >> 5) == e / 32) by (bit_vector) requires 0 <= e < 64; }
    assert forall|v: i64, sh: u32| 0 <= v < 32 && sh <= 55 && sh % 5 == 0 implies #[trigger] (v << sh) == v * pow2(sh as nat) by { lemma_shl(v, sh); }
    assert forall|v: i64| 0 <= v < 8 implies #[trigger] (v << 60u32) == v * 0x1000_0000_0000_0000 by { assert((v << 60u32) == v * 0x1000_0000_0000_0000) by (bit_vector) requires 0 <= v < 8; }
    assert forall|v: i64| 0 <= v < 32 implies -0x8000_0000_0000_0000 <= #[trigger] (v << 60u32) <= 0x7000_0000_0000_0000 by { assert(-0x8000_0000_0000_0000 <= (v << 60u32) <= 0x7000_0000_0000_0000) by (bit_vector) requires 0 <= v < 32; }
    assert forall|c: i64| 0 <= c implies #[trigger] (c & 1) == c % 2 by { assert((c & 1) == c % 2) by (bit_vector) requires 0 <= c; }
    assert forall|c: i64| 0 <= c implies #[trigger] (c >> 1) == c / 2 by { assert((c >> 1) == c / 2) by (bit_vector) requires 0 <= c; }
    assert forall|c: i64| -0x4000_0000_0000_0000 <= #[trigger] (c >> 1) < 0x4000_0000_0000_0000 by { assert(-0x4000_0000_0000_0000 <= (c >> 1) < 0x4000_0000_0000_0000) by (bit_vector); }
}

pub(crate) fn parse_vlq_segment_into(segment: &str, rv: &mut Vec<i64>) -> (res: Result<()>)
    ensures
        match res {
            Ok(_) => parse_from(str_bytes(segment), 0, 0, 0, ints(old(rv)@)) matches Some(m) && agree(final(rv)@, m),
            Err(_) => parse_from(str_bytes(segment), 0, 0, 0, ints(old(rv)@)) is None,
        }
{
    let mut cur = 0;
    let mut shift = 0;
    let ghost s = str_bytes(segment);
    let ghost goal = parse_from(s, 0, 0, 0, ints(old(rv)@));
    let ghost mcur: int = 0;
    let ghost ndig: nat = 0;
    let ghost macc: Seq<int> = ints(old(rv)@);
    proof { lemma_pow2_5(0); }

    for c in it: verif_bytes(segment)
        invariant
            s == str_bytes(segment),
            it.seq() == s,
            goal == parse_from(str_bytes(segment), 0, 0, 0, ints(old(rv)@)),
            goal == parse_from(s, it.index@, mcur, ndig, macc),
            ndig <= 13,
            shift == 5 * ndig,
            0 <= mcur < pow2(5 * ndig),
            ndig <= 12 ==> cur == mcur,
            agree(rv@, macc),
    {
        proof {
            lemma_table(); lemma_bits(); lemma_pow2_5(ndig); if ndig < 13 { lemma_pow2_5(ndig + 1); }
            assert(c == s[it.index@ as int]);
            if b64_index(c) >= 0 && ndig <= 12 { lemma_acc(mcur, ndig, b64_index(c) % 32); }
        }
        let enc = i64::from(B64[c as usize]);
        if enc < 0 {
            return Err(Error::InvalidBase64(c as char));
        }
        let val = enc & 0b11111;
        let cont = enc >> 5;
        cur += val.checked_shl(shift).ok_or(Error::VlqOverflow)?;
        shift += 5;

        if cont == 0 {
            let sign = cur & 1;
            cur >>= 1;
            if sign != 0 {
                cur = -cur;
            }
            rv.push(cur);
            cur = 0;
            shift = 0;
        }
        proof {
            let d = b64_index(c);
            let cur2 = mcur + (d % 32) * pow2(5 * ndig);
            lemma_pow2_5(0);
            if d >= 32 { mcur = cur2; ndig = ndig + 1; } else {
                assert(fits(vlq_value(cur2)) ==> rv@.last() == vlq_value(cur2));
                macc = macc.push(vlq_value(cur2)); mcur = 0; ndig = 0;
            }
        }
    }

    if cur != 0 || shift != 0 {
        Err(Error::VlqLeftover)
    } else if rv.is_empty() {
        Err(Error::VlqNoValues)
    } else {
        Ok(())
    }
}

}
fn main() {}
