use vstd::prelude::*;
use vstd::arithmetic::power2::*;
verus! {
const B64_CHARS: &'static [u8; 64] = &[65,66,67,68,69,70,71,72,73,74,75,76,77,78,79,80,81,82,83,84,85,86,87,88,89,90,97,98,99,100,101,102,103,104,105,106,107,108,109,110,111,112,113,114,115,116,117,118,119,120,121,122,48,49,50,51,52,53,54,55,56,57,43,47];

pub open spec fn b64_char(d: int) -> u8 {
    if 0 <= d < 26 { (65 + d) as u8 } else if d < 52 { (97 + d - 26) as u8 } else if d < 62 { (48 + d - 52) as u8 } else if d == 62 { 43u8 } else { 47u8 }
}
proof fn lemma_chars() ensures forall|d: int| 0 <= d < 64 ==> #[trigger] B64_CHARS@[d] == b64_char(d) {}

/// base-32 little-endian digits of raw with continuation bit (32) on all but the last
pub open spec fn vlq_raw_enc(raw: int) -> Seq<u8>
    decreases raw
{
    if raw < 32 { seq![b64_char(if raw < 0 { 0 } else { raw })] } else { seq![b64_char(raw % 32 + 32)] + vlq_raw_enc(raw / 32) }
}
pub open spec fn vlq_enc(n: int) -> Seq<u8> { vlq_raw_enc(if n < 0 { (-n) * 2 + 1 } else { n * 2 }) }
pub open spec fn chars(b: Seq<u8>) -> Seq<char> { b.map_values(|x: u8| x as char) }

proof fn lemma_enc_bits()
    ensures
        forall|n: i64| 0 <= n ==> #[trigger] (n & 0b11111) == n % 32,
        forall|n: i64| 0 <= n ==> #[trigger] (n >> 5) == n / 32,
        forall|d: i64| 0 <= d < 32 ==> #[trigger] (d | (1i64 << 5)) == d + 32,
        forall|n: i64| 0 <= n < 0x4000_0000_0000_0000 ==> #[trigger] (n << 1) == n * 2,
{
    assert forall|n: i64| 0 <= n implies #[trigger] (n & 0b11111) == n % 32 by { assert((n & 0b11111) == n % 32) by (bit_vector) requires 0 <= n; }
    assert forall|n: i64| 0 <= n implies #[trigger] (n >> 5) == n / 32 by { assert((n >> 5) == n / 32) by (bit_vector) requires 0 <= n; }
    assert forall|d: i64| 0 <= d < 32 implies #[trigger] (d | (1i64 << 5)) == d + 32 by { assert((d | (1i64 << 5)) == d + 32) by (bit_vector) requires 0 <= d < 32; }
    assert forall|n: i64| 0 <= n < 0x4000_0000_0000_0000 implies #[trigger] (n << 1) == n * 2 by { assert((n << 1) == n * 2) by (bit_vector) requires 0 <= n < 0x4000_0000_0000_0000; }
}

pub(crate) fn encode_vlq(out: &mut String, num: i64)
    requires -0x4000_0000_0000_0000 < num < 0x4000_0000_0000_0000,
    ensures final(out)@ == old(out)@ + chars(vlq_enc(num as int)),
{
    proof { lemma_enc_bits(); lemma_chars(); }
    let mut num = if num < 0 { ((-num) << 1) + 1 } else { num << 1 };
    let ghost raw0 = num as int;
    let ghost emitted: Seq<u8> = seq![];

    loop
        invariant_except_break
            0 <= num,
            out@ == old(out)@ + chars(emitted),
            emitted + vlq_raw_enc(num as int) == vlq_raw_enc(raw0),
        ensures
            out@ == old(out)@ + chars(vlq_raw_enc(raw0)),
        decreases num,
    {
        proof {
            lemma_enc_bits(); lemma_chars();
            let d: int = if num >= 32 { num % 32 + 32 } else { num as int };
            assert(emitted.push(b64_char(d)) + (if num >= 32 { vlq_raw_enc(num as int / 32) } else { seq![] }) =~= emitted + vlq_raw_enc(num as int));
            assert(chars(emitted.push(b64_char(d))) =~= chars(emitted).push(b64_char(d) as char));
            emitted = emitted.push(b64_char(d));
        }
        let mut digit = num & 0b11111;
        num >>= 5;
        if num > 0 {
            digit |= 1 << 5;
        }
        out.push(B64_CHARS[digit as usize] as char);
        if num == 0 {
            break;
        }
    }
}
}
fn main() {}
