use vstd::prelude::*;
use vstd::arithmetic::power2::*;
verus! {
pub open spec fn b64_index(c: u8) -> int {
    if 65 <= c <= 90 { c - 65 } else if 97 <= c <= 122 { c - 97 + 26 }
    else if 48 <= c <= 57 { c - 48 + 52 } else if c == 43 { 62 } else if c == 47 { 63 } else { -1 }
}
pub open spec fn b64_char(d: int) -> u8 {
    if 0 <= d < 26 { (65 + d) as u8 } else if d < 52 { (97 + d - 26) as u8 } else if d < 62 { (48 + d - 52) as u8 } else if d == 62 { 43u8 } else { 47u8 }
}
proof fn lemma_index_char(d: int) requires 0 <= d < 64 ensures b64_index(b64_char(d)) == d {}

pub open spec fn vlq_value(raw: int) -> int { if raw % 2 == 1 { -(raw / 2) } else { raw / 2 } }
pub open spec fn vlq_raw(n: int) -> int { if n < 0 { (-n) * 2 + 1 } else { n * 2 } }
proof fn lemma_value_raw(n: int) ensures vlq_value(vlq_raw(n)) == n {}

pub open spec fn parse_from(s: Seq<u8>, i: int, cur: int, ndig: nat, acc: Seq<int>) -> Option<Seq<int>>
    decreases s.len() - i
{
    if i < 0 { None } else
    if i >= s.len() {
        if ndig != 0 { None } else if acc.len() == 0 { None } else { Some(acc) }
    } else {
        let d = b64_index(s[i]);
        if d < 0 { None }
        else if ndig >= 13 { None }
        else {
            let cur2 = cur + (d % 32) * pow2(5 * ndig);
            if d >= 32 { parse_from(s, i + 1, cur2, ndig + 1, acc) }
            else { parse_from(s, i + 1, 0, 0, acc.push(vlq_value(cur2))) }
        }
    }
}

pub open spec fn vlq_raw_enc(raw: int) -> Seq<u8>
    decreases raw
{
    if raw < 32 { seq![b64_char(if raw < 0 { 0 } else { raw })] } else { seq![b64_char(raw % 32 + 32)] + vlq_raw_enc(raw / 32) }
}
pub open spec fn ndigits(raw: int) -> nat decreases raw { if raw < 32 { 1 } else { 1 + ndigits(raw / 32) } }

proof fn lemma_enc_len(raw: int)
    ensures vlq_raw_enc(raw).len() == ndigits(raw)
    decreases raw
{
    if raw >= 32 { lemma_enc_len(raw / 32); }
}

proof fn lemma_ndigits_bound(raw: int, k: nat)
    requires 0 <= raw < pow2(5 * k), k >= 1,
    ensures ndigits(raw) <= k
    decreases k
{
    lemma2_to64();
    if raw >= 32 {
        assert(k >= 2) by { if k == 1 { assert(pow2(5) == 32); } }
        lemma_pow2_adds(5 * (k - 1) as nat, 5);
        assert(5 * (k - 1) + 5 == 5 * k);
        assert(raw / 32 < pow2(5 * (k - 1) as nat)) by (nonlinear_arith) requires raw < pow2(5 * (k - 1) as nat) * 32, pow2(5) == 32;
        lemma_ndigits_bound(raw / 32, (k - 1) as nat);
    }
}

/// decoding a string that continues with the encoding of `raw` consumes exactly that encoding
proof fn lemma_parse_enc(s: Seq<u8>, i: int, cur: int, ndig: nat, acc: Seq<int>, raw: int)
    requires
        0 <= raw, 0 <= i,
        ndig + ndigits(raw) <= 13,
        i + ndigits(raw) <= s.len(),
        s.subrange(i, i + ndigits(raw)) == vlq_raw_enc(raw),
    ensures
        parse_from(s, i, cur, ndig, acc) == parse_from(s, i + ndigits(raw), 0, 0, acc.push(vlq_value(cur + raw * pow2(5 * ndig)))),
    decreases raw
{
    lemma_enc_len(raw);
    let e = vlq_raw_enc(raw);
    assert(s[i] == s.subrange(i, i + ndigits(raw))[0]);
    if raw < 32 {
        lemma_index_char(raw);
        assert(s[i] == b64_char(raw));
        assert(raw % 32 == raw);
    } else {
        let d = raw % 32 + 32;
        lemma_index_char(d);
        assert(e[0] == b64_char(d));
        assert(s[i] == b64_char(d));
        assert(d % 32 == raw % 32);
        let cur2 = cur + (raw % 32) * pow2(5 * ndig);
        // the rest of the window encodes raw / 32
        assert(s.subrange(i + 1, i + 1 + ndigits(raw / 32)) =~= e.subrange(1, e.len() as int));
        assert(e.subrange(1, e.len() as int) =~= vlq_raw_enc(raw / 32));
        lemma_parse_enc(s, i + 1, cur2, ndig + 1, acc, raw / 32);
        lemma_pow2_adds(5 * ndig, 5);
        lemma2_to64();
        assert(5 * (ndig + 1) == 5 * ndig + 5);
        let p = pow2(5 * ndig);
        assert(cur2 + (raw / 32) * (p * 32) == cur + raw * p) by (nonlinear_arith)
            requires cur2 == cur + (raw % 32) * p, raw == 32 * (raw / 32) + raw % 32;
    }
}

pub open spec fn vlq_enc(n: int) -> Seq<u8> { vlq_raw_enc(vlq_raw(n)) }

/// C11, first sentence, single value: decoding the encoding of n returns n
proof fn lemma_roundtrip_one(n: int, acc: Seq<int>)
    requires -0x4000_0000_0000_0000 < n < 0x4000_0000_0000_0000, acc.len() > 0 || true,
    ensures parse_from(vlq_enc(n), 0, 0, 0, acc) == Some(acc.push(n)),
{
    let raw = vlq_raw(n);
    lemma2_to64(); lemma2_to64_rest();
    lemma_pow2_adds(64, 1);
    assert(pow2(65) == 0x2_0000_0000_0000_0000);
    assert(5 * 13 == 65);
    lemma_ndigits_bound(raw, 13);
    lemma_enc_len(raw);
    let s = vlq_enc(n);
    assert(s.subrange(0, ndigits(raw) as int) =~= s);
    lemma_parse_enc(s, 0, 0, 0, acc, raw);
    assert(pow2(0) == 1);
    lemma_value_raw(n);
    assert(acc.push(vlq_value(0 + raw * pow2(0))).len() > 0);
}
// vacuity guard: a false corollary must fail
proof fn lemma_must_fail(acc: Seq<int>)
    ensures parse_from(vlq_enc(5), 0, 0, 0, acc) == Some(acc.push(6)),
{
    lemma_roundtrip_one(5, acc);
}
}
fn main() {}
