//! Kani harnesses on the real crate (public API).  Reference implementations are written from
//! the format description, not from the code.
#![allow(dead_code)]

/// reference base64 index (alphabet A-Z a-z 0-9 + /), -1 for foreign bytes
pub fn b64_index(c: u8) -> i32 {
    match c {
        b'A'..=b'Z' => (c - b'A') as i32,
        b'a'..=b'z' => (c - b'a') as i32 + 26,
        b'0'..=b'9' => (c - b'0') as i32 + 52,
        b'+' => 62,
        b'/' => 63,
        _ => -1,
    }
}

/// reference decoder over i128; None = malformed
pub fn ref_parse(s: &[u8]) -> Option<Vec<i128>> {
    let mut out = Vec::new();
    let mut cur: i128 = 0;
    let mut ndig = 0u32;
    for &c in s {
        let d = b64_index(c);
        if d < 0 || ndig >= 13 {
            return None;
        }
        cur += ((d % 32) as i128) << (5 * ndig);
        if d >= 32 {
            ndig += 1;
        } else {
            out.push(if cur % 2 == 1 { -(cur / 2) } else { cur / 2 });
            cur = 0;
            ndig = 0;
        }
    }
    if ndig != 0 || out.is_empty() {
        None
    } else {
        Some(out)
    }
}

#[cfg(kani)]
mod harnesses {
    use super::*;

    /// C11/C06 bounded(3 bytes): decoder agrees with the reference on every string of <= 3 bytes
    #[kani::proof]
    #[kani::unwind(5)]
    fn vlq_decode_3_bytes() {
        let b: [u8; 3] = kani::any();
        let n: usize = kani::any();
        kani::assume(n <= 3);
        kani::assume(b[0] < 128 && b[1] < 128 && b[2] < 128);
        let s = match std::str::from_utf8(&b[..n]) { Ok(s) => s, Err(_) => return };
        let got = sourcemap::vlq::parse_vlq_segment(s);
        let want = ref_parse(&b[..n]);
        match (got, want) {
            (Ok(g), Some(w)) => {
                assert!(g.len() == w.len());
                let mut i = 0;
                while i < g.len() { assert!(g[i] as i128 == w[i]); i += 1; }
            }
            (Err(_), None) => {}
            _ => panic!("decoder and reference disagree on well-formedness"),
        }
    }

    /// C11 bounded(1 value): decode(encode(x)) == x for every |x| < 2^62
    #[kani::proof]
    #[kani::unwind(15)]
    fn vlq_roundtrip_one() {
        let x: i64 = kani::any();
        kani::assume(x > -(1i64 << 62) && x < (1i64 << 62));
        let s = match sourcemap::vlq::generate_vlq_segment(&[x]) { Ok(s) => s, Err(_) => panic!("encode failed") };
        match sourcemap::vlq::parse_vlq_segment(&s) {
            Ok(v) => { assert!(v.len() == 1); assert!(v[0] == x); }
            Err(_) => panic!("decode of encoded value failed"),
        }
    }
}
