// ---- trusted: Arc<str> as an immutable string value ----
//# assumes: Arc<str>::from(&str) holds exactly the characters of the str; two Arc<str> with equal characters are equal values; Arc<str> hashes/compares by content (key model)
pub open spec fn arc_chars(a: &Arc<str>) -> Seq<char> { (**a)@ }
pub assume_specification<'a, 'b>[ <Arc<str> as From<&'a str>>::from ](s: &'b str) -> (r: Arc<str>)
    ensures arc_chars(&r) == s@;
#[verifier::external_body]
pub broadcast proof fn axiom_arc_from_str(s: &str, r: Arc<str>)
    requires #[trigger] call_ensures(<Arc<str> as From<&str>>::from, (s,), r)
    ensures arc_chars(&r) == s@
{}
#[verifier::external_body]
pub broadcast proof fn axiom_arc_str_ext(a: Arc<str>, b: Arc<str>)
    ensures #[trigger] arc_chars(&a) == #[trigger] arc_chars(&b) ==> a == b
{}
#[verifier::external_body]
pub proof fn axiom_arc_str_key_model()
    ensures obeys_key_model::<Arc<str>>()
{}
pub open spec fn strs(v: Seq<Arc<str>>) -> Seq<Seq<char>> { v.map_values(|a: Arc<str>| arc_chars(&a)) }
//# assumes: Arc<str>::from(String) holds exactly the characters of the String; &arc[..] views them as &str
pub assume_specification[ <Arc<str> as From<String>>::from ](s: String) -> (r: Arc<str>)
    ensures arc_chars(&r) == s@;
#[verifier::external_body]
pub fn verif_arc_str<'a>(a: &'a Arc<str>) -> (r: &'a str)
    ensures r@ == arc_chars(a)
{ &a[..] }
//# assumes: the reflexive conversion `impl<T> From<T> for T` returns its argument
pub assume_specification<T>[ <T as From<T>>::from ](t: T) -> (r: T)
    ensures r == t;
