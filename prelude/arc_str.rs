// ---- trusted: Arc<str> as an immutable string value ----
//# assumes: Arc<str>::from(&str) holds exactly the characters of the str; two Arc<str> with equal characters are equal values; Arc<str> hashes/compares by content (key model)
pub uninterp spec fn arc_chars(a: &Arc<str>) -> Seq<char>;
pub assume_specification<'a, 'b>[ <Arc<str> as From<&'a str>>::from ](s: &'b str) -> (r: Arc<str>)
    ensures arc_chars(&r) == s@;
#[verifier::external_body]
pub broadcast proof fn axiom_arc_from_str(s: &str, r: Arc<str>)
    requires #[trigger] call_ensures(<Arc<str> as From<&str>>::from, (s,), r)
    ensures arc_chars(&r) == s@
{}
#[verifier::external_body]
pub broadcast proof fn axiom_arc_str_ext(a: Arc<str>, b: Arc<str>)
    ensures #[trigger] arc_chars(&a) == #[trigger] arc_chars(&b) ==> a == b
{}
#[verifier::external_body]
pub proof fn axiom_arc_str_key_model()
    ensures obeys_key_model::<Arc<str>>()
{}
pub open spec fn strs(v: Seq<Arc<str>>) -> Seq<Seq<char>> { v.map_values(|a: Arc<str>| arc_chars(&a)) }
