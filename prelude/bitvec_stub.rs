// ---- dependency stub: bitvec (BitVec<u8, Lsb0>, BitSlice views) over a ghost Seq<bool>; LSB-first, little-endian ----
//# assumes: bitvec's BitVec<u8, Lsb0>::{new, clear, resize, get} and `v[a..b].store_le::<u8>(x)` (bit k of x goes to position a+k, for b-a <= 8) behave as documented
#[verifier::external_body]
pub struct BitVec { _x: u8 }
impl View for BitVec { type V = Seq<bool>; uninterp spec fn view(&self) -> Seq<bool>; }
pub open spec fn bit_of(x: u8, k: int) -> bool { (x as int / pow2(k as nat) as int) % 2 == 1 }
impl BitVec {
    #[verifier::external_body]
    pub fn new() -> (r: BitVec) ensures r@.len() == 0 { unimplemented!() }
    #[verifier::external_body]
    pub fn len(&self) -> (r: usize) ensures r == self@.len() { unimplemented!() }
    #[verifier::external_body]
    pub fn is_empty(&self) -> (r: bool) ensures r == (self@.len() == 0) { unimplemented!() }
    #[verifier::external_body]
    pub fn clear(&mut self) ensures final(self)@.len() == 0 { unimplemented!() }
    #[verifier::external_body]
    pub fn resize(&mut self, n: usize, value: bool)
        ensures final(self)@.len() == n,
            forall|i: int| 0 <= i < n ==> #[trigger] final(self)@[i] == (if i < old(self)@.len() { old(self)@[i] } else { value }),
    { unimplemented!() }
    #[verifier::external_body]
    pub fn get(&self, i: usize) -> (r: Option<&bool>)
        ensures i < self@.len() ==> (r matches Some(b) && *b == self@[i as int]), i >= self@.len() ==> r is None
    { unimplemented!() }
}
#[verifier::external_body]
pub fn verif_bits_store_le_u8(v: &mut BitVec, a: usize, b: usize, x: u8)
    requires a <= b <= old(v)@.len(), b - a <= 8,
    ensures final(v)@.len() == old(v)@.len(),
        forall|i: int| 0 <= i < old(v)@.len() ==> #[trigger] final(v)@[i] == (if a <= i < b { bit_of(x, i - a) } else { old(v)@[i] }),
{ unimplemented!() }

// ---- BitSlice views of byte slices (encoder side) ----
//# assumes: bitvec's view_bits::<Lsb0>() on [u8] exposes bit k of byte i at position 8i+k; BitSlice::{iter, len, chunks(n), load::<u8>} and prefix slicing behave as documented; view_bits_mut + set(i, v) sets exactly that bit of the underlying bytes
pub struct Lsb0;
#[verifier::external_body]
pub struct BitSlice { _x: u8 }
impl View for BitSlice { type V = Seq<bool>; uninterp spec fn view(&self) -> Seq<bool>; }
pub open spec fn bytes_bits(s: Seq<u8>) -> Seq<bool> { Seq::new(8 * s.len(), |j: int| bit_of(s[j / 8], j % 8)) }
/// little-endian value of a short bit string
pub open spec fn load_spec(s: Seq<bool>) -> int decreases s.len() {
    if s.len() == 0 { 0 } else { (if s[0] { 1int } else { 0int }) + 2 * load_spec(s.drop_first()) }
}
pub open spec fn chunk_seq(s: Seq<bool>, n: int) -> Seq<Seq<bool>> {
    Seq::new(((s.len() + n - 1) / n) as nat, |c: int| s.subrange(n * c, if n * c + n <= s.len() { n * c + n } else { s.len() as int }))
}
pub trait VerifBitView {
    spec fn verif_bytes(&self) -> Seq<u8>;
    fn view_bits<O>(&self) -> (r: &BitSlice)
        ensures r@ == bytes_bits(self.verif_bytes());
}
impl VerifBitView for [u8] {
    open spec fn verif_bytes(&self) -> Seq<u8> { self@ }
    #[verifier::external_body]
    fn view_bits<O>(&self) -> (r: &BitSlice) { unimplemented!() }
}
#[verifier::external_body]
pub struct VBitIter<'a> { _x: &'a u8 }
pub uninterp spec fn vbititer_remaining<'a>(b: &VBitIter<'a>) -> Seq<&'a bool>;
impl<'a> Iterator for VBitIter<'a> {
    type Item = &'a bool;
    #[verifier::external_body]
    fn next(&mut self) -> (r: Option<&'a bool>) { unimplemented!() }
}
impl<'a> IteratorSpecImpl for VBitIter<'a> {
    open spec fn obeys_prophetic_iter_laws(&self) -> bool { true }
    #[verifier::prophetic]
    open spec fn remaining(&self) -> Seq<&'a bool> { vbititer_remaining(self) }
    #[verifier::prophetic]
    open spec fn will_return_none(&self) -> bool { true }
    open spec fn decrease(&self) -> Option<nat> { Some(vbititer_remaining(self).len()) }
    open spec fn peek(&self, i: int) -> Option<&'a bool> {
        if 0 <= i < vbititer_remaining(self).len() { Some(vbititer_remaining(self)[i]) } else { None }
    }
}
#[verifier::external_body]
pub struct VBitChunks<'a> { _x: &'a u8 }
pub uninterp spec fn vbitchunks_remaining<'a>(b: &VBitChunks<'a>) -> Seq<&'a BitSlice>;
impl<'a> Iterator for VBitChunks<'a> {
    type Item = &'a BitSlice;
    #[verifier::external_body]
    fn next(&mut self) -> (r: Option<&'a BitSlice>) { unimplemented!() }
}
impl<'a> IteratorSpecImpl for VBitChunks<'a> {
    open spec fn obeys_prophetic_iter_laws(&self) -> bool { true }
    #[verifier::prophetic]
    open spec fn remaining(&self) -> Seq<&'a BitSlice> { vbitchunks_remaining(self) }
    #[verifier::prophetic]
    open spec fn will_return_none(&self) -> bool { true }
    open spec fn decrease(&self) -> Option<nat> { Some(vbitchunks_remaining(self).len()) }
    open spec fn peek(&self, i: int) -> Option<&'a BitSlice> {
        if 0 <= i < vbitchunks_remaining(self).len() { Some(vbitchunks_remaining(self)[i]) } else { None }
    }
}
impl BitSlice {
    #[verifier::external_body]
    pub fn len(&self) -> (r: usize) ensures r == self@.len() { unimplemented!() }
    #[verifier::external_body]
    pub fn iter<'a>(&'a self) -> (r: VBitIter<'a>)
        ensures vbititer_remaining(&r).len() == self@.len(), forall|i: int| 0 <= i < self@.len() ==> *(#[trigger] vbititer_remaining(&r)[i]) == self@[i]
    { unimplemented!() }
    #[verifier::external_body]
    pub fn verif_prefix(&self, n: usize) -> (r: &BitSlice)
        requires n <= self@.len()
        ensures r@ == self@.subrange(0, n as int)
    { unimplemented!() }
    #[verifier::external_body]
    pub fn chunks<'a>(&'a self, n: usize) -> (r: VBitChunks<'a>)
        requires n > 0
        ensures vbitchunks_remaining(&r).len() == chunk_seq(self@, n as int).len(),
            forall|c: int| 0 <= c < vbitchunks_remaining(&r).len() ==> (#[trigger] vbitchunks_remaining(&r)[c])@ == chunk_seq(self@, n as int)[c]
    { unimplemented!() }
    #[verifier::external_body]
    pub fn load<T>(&self) -> (r: u8)
        requires 1 <= self@.len() <= 8
        ensures r as int == load_spec(self@)
    { unimplemented!() }
}
#[verifier::external_body]
pub fn verif_bytes_set_bit(v: &mut Vec<u8>, i: usize, value: bool)
    requires i < 8 * old(v)@.len()
    ensures final(v)@.len() == old(v)@.len(), bytes_bits(final(v)@) == bytes_bits(old(v)@).update(i as int, value)
{ unimplemented!() }
//# assumes: String::from_utf8 of ASCII bytes succeeds and yields the same characters
#[verifier::external_body]
pub fn verif_string_from_utf8_ascii(v: Vec<u8>) -> (r: String)
    requires forall|i: int| 0 <= i < v@.len() ==> #[trigger] v@[i] < 128
    ensures r@ == chars(v@)
{ String::from_utf8(v).expect("invalid utf8") }
