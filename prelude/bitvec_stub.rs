// ---- dependency stub: bitvec (BitVec<u8, Lsb0>, BitSlice views) over a ghost Seq<bool>; LSB-first, little-endian ----
//# assumes: bitvec's BitVec<u8, Lsb0>::{new, clear, resize, get} and `v[a..b].store_le::<u8>(x)` (bit k of x goes to position a+k, for b-a <= 8) behave as documented
#[verifier::external_body]
pub struct BitVec { _x: u8 }
impl View for BitVec { type V = Seq<bool>; uninterp spec fn view(&self) -> Seq<bool>; }
pub open spec fn bit_of(x: u8, k: int) -> bool { (x as int / pow2(k as nat) as int) % 2 == 1 }
impl BitVec {
    #[verifier::external_body]
    pub fn new() -> (r: BitVec) ensures r@.len() == 0 { unimplemented!() }
    #[verifier::external_body]
    pub fn len(&self) -> (r: usize) ensures r == self@.len() { unimplemented!() }
    #[verifier::external_body]
    pub fn is_empty(&self) -> (r: bool) ensures r == (self@.len() == 0) { unimplemented!() }
    #[verifier::external_body]
    pub fn clear(&mut self) ensures final(self)@.len() == 0 { unimplemented!() }
    #[verifier::external_body]
    pub fn resize(&mut self, n: usize, value: bool)
        ensures final(self)@.len() == n,
            forall|i: int| 0 <= i < n ==> #[trigger] final(self)@[i] == (if i < old(self)@.len() { old(self)@[i] } else { value }),
    { unimplemented!() }
    #[verifier::external_body]
    pub fn get(&self, i: usize) -> (r: Option<&bool>)
        ensures i < self@.len() ==> (r matches Some(b) && *b == self@[i as int]), i >= self@.len() ==> r is None
    { unimplemented!() }
}
#[verifier::external_body]
pub fn verif_bits_store_le_u8(v: &mut BitVec, a: usize, b: usize, x: u8)
    requires a <= b <= old(v)@.len(), b - a <= 8,
    ensures final(v)@.len() == old(v)@.len(),
        forall|i: int| 0 <= i < old(v)@.len() ==> #[trigger] final(v)@[i] == (if a <= i < b { bit_of(x, i - a) } else { old(v)@[i] }),
{ unimplemented!() }
