// ---- trusted: opaque stand-ins for dependency / std types that only occur as payloads ----
//# assumes: serde_json::Error, data_encoding::DecodeError, std::io::Error, std::str::Utf8Error are opaque payload types
pub mod serde_json_stub { use vstd::prelude::*; verus!{ #[verifier::external_body] pub struct Error { _x: u8 } } }
pub mod data_encoding_stub { use vstd::prelude::*; verus!{ #[verifier::external_body] pub struct DecodeError { _x: u8 } } }
#[verifier::external_type_specification]
#[verifier::external_body]
pub struct ExUtf8Error(std::str::Utf8Error);
#[verifier::external_type_specification]
#[verifier::external_body]
pub struct ExIoError(std::io::Error);
pub type Result<T> = std::result::Result<T, Error>;
