// ---- trusted: std::io::Error is an opaque type ----
//# assumes: std::io::Error is an opaque payload type
#[verifier::external_type_specification]
#[verifier::external_body]
pub struct ExIoError(std::io::Error);
