// ---- trusted: debugid::DebugId as an opaque Copy value ----
//# assumes: debugid::DebugId is an opaque Copy value
#[verifier::external_body]
#[derive(Copy, Clone)]
pub struct DebugId { _x: [u8; 32] }
