// ---- trusted: rustc's #[derive(PartialEq)] on the field-less enum HeaderState is variant equality ----
//# assumes: the derived PartialEq::eq of HeaderState returns true exactly for equal variants
impl PartialEqSpecImpl for HeaderState {
    open spec fn obeys_eq_spec() -> bool { true }
    open spec fn eq_spec(&self, other: &HeaderState) -> bool { *self == *other }
}
