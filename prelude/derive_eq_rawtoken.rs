// ---- trusted: rustc's #[derive(PartialEq)] on RawToken is field-wise equality ----
//# assumes: the derived PartialEq::eq of RawToken returns true exactly for field-wise equal values
impl PartialEqSpecImpl for RawToken {
    open spec fn obeys_eq_spec() -> bool { true }
    open spec fn eq_spec(&self, other: &RawToken) -> bool { *self == *other }
}
