// ---- trusted: std::io::Read as a stream of pending bytes delivered in chunks of unconstrained size ----
//# assumes: every R: Read delivers a fixed byte sequence pending() front to back; read(buf) returns Ok(n) with n <= buf.len(), n <= pending.len(), the first n pending bytes copied to buf[..n], n == 0 only for an empty buffer or at end of stream; or Err(e) with an error of the reader's own (inner_error)
#[verifier::external_type_specification]
pub struct ExErrorKind(std::io::ErrorKind);

/// true for errors produced by the underlying reader (never for errors this crate constructs)
pub uninterp spec fn inner_error(e: &std::io::Error) -> bool;

//# assumes: io::Error::new(kind, msg) builds an error that is not one of the underlying reader's
#[verifier::external_body]
pub fn verif_io_error_new(kind: std::io::ErrorKind, msg: &'static str) -> (e: std::io::Error)
    ensures !inner_error(&e)
{ std::io::Error::new(kind, msg) }

#[verifier::external_trait_specification]
#[verifier::external_trait_extension(ReadSpec via ReadSpecImpl)]
pub trait ExRead {
    type ExternalTraitSpecificationFor: std::io::Read;
    /// bytes this reader will still deliver (ghost model of the underlying stream)
    spec fn pending(&self) -> Seq<u8>;
    fn read(&mut self, buf: &mut [u8]) -> (r: std::io::Result<usize>)
        ensures
            final(buf)@.len() == old(buf)@.len(),
            match r {
                Ok(n) => n <= old(buf)@.len()
                    && n <= old(self).pending().len()
                    && final(buf)@.subrange(0, n as int) == old(self).pending().subrange(0, n as int)
                    && final(self).pending() == old(self).pending().subrange(n as int, old(self).pending().len() as int)
                    && (n == 0 ==> old(buf)@.len() == 0 || old(self).pending().len() == 0)
                    && (n == 0 ==> final(self).pending() == old(self).pending()),
                Err(e) => inner_error(&e),
            };
}
