// ---- dependency stub: serde_json::Value (only its shape is needed) ----
//# assumes: serde_json::Value / Number are opaque to the mapping loop
#[verifier::external_body]
pub struct Number { _x: u8 }
pub enum Value { Null, Bool(bool), Number(Number), String(String), Array(Vec<Value>), Object(Vec<(String, Value)>) }
