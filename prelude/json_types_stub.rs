// ---- dependency stubs for jsontypes.rs ----
//# assumes: serde_json::Value is the usual six-variant enum; debugid::DebugId is an opaque Copy value; serde attributes carry no run-time behaviour inside these functions
#[verifier::external_body]
pub struct Number { _x: u8 }
pub enum Value { Null, Bool(bool), Number(Number), String(String), Array(Vec<Value>), Object(Vec<(String, Value)>) }
