// ---- trusted: UTF-8 of ASCII ----
//# assumes: the UTF-8 bytes of a str whose characters are all below U+0080 are those characters' code points
pub open spec fn all_ascii(b: Seq<u8>) -> bool { forall|i: int| 0 <= i < b.len() ==> #[trigger] b[i] < 128 }
#[verifier::external_body]
pub proof fn axiom_ascii_str_bytes(s: &str, b: Seq<u8>)
    requires s@ == chars(b), all_ascii(b)
    ensures str_bytes(s) == b
{}
