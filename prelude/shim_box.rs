// ---- trusted: Box<T>::as_ref ----
//# assumes: Box::as_ref returns a reference to the boxed value
#[verifier::external_body]
pub fn verif_box_as_ref<T>(b: &Box<T>) -> (r: &T)
    ensures *r == **b
{ b.as_ref() }
