// ---- trusted shim: iterating a BTreeSet<u32> by value ----
//# assumes: `for x in set` (BTreeSet<u32>::into_iter) yields every element of the set exactly once (ascending) and nothing else
#[verifier::external_body]
pub struct VSetIter { it: std::collections::btree_set::IntoIter<u32> }
pub uninterp spec fn vsetiter_remaining(b: &VSetIter) -> Seq<u32>;
#[verifier::external_body]
pub fn verif_btreeset_into_iter(s: BTreeSet<u32>) -> (r: VSetIter)
    ensures vsetiter_remaining(&r).to_set() == s@, vsetiter_remaining(&r).no_duplicates()
{ VSetIter { it: s.into_iter() } }
impl Iterator for VSetIter {
    type Item = u32;
    #[verifier::external_body]
    fn next(&mut self) -> (r: Option<u32>) { self.it.next() }
}
impl IteratorSpecImpl for VSetIter {
    open spec fn obeys_prophetic_iter_laws(&self) -> bool { true }
    #[verifier::prophetic]
    open spec fn remaining(&self) -> Seq<u32> { vsetiter_remaining(self) }
    #[verifier::prophetic]
    open spec fn will_return_none(&self) -> bool { true }
    open spec fn decrease(&self) -> Option<nat> { Some(vsetiter_remaining(self).len()) }
    open spec fn peek(&self, i: int) -> Option<u32> {
        if 0 <= i < vsetiter_remaining(self).len() { Some(vsetiter_remaining(self)[i]) } else { None }
    }
}
