// ---- trusted: std string / char operations over characters, UTF-8 offsets and UTF-16 widths (vstd::utf8 supplies the encoding) ----
global layout usize is size == 8;
//# assumes: a 64-bit target (usize is 8 bytes)
//# assumes: a str is at most isize::MAX bytes long
#[verifier::external_body]
pub proof fn axiom_str_len_fits(s: &str) ensures s.spec_bytes().len() <= isize::MAX {}
/// UTF-16 code units of a character
pub open spec fn u16w(c: char) -> int { if (c as u32) >= 0x10000 { 2 } else { 1 } }
/// UTF-8 bytes of a character (vstd's encoder)
pub open spec fn u8w(c: char) -> int { encode_scalar(c as u32).len() as int }
pub open spec fn utf8_len(cs: Seq<char>) -> int { encode_utf8(cs).len() as int }
//# assumes: char::len_utf16 is 2 for characters outside the BMP (>= U+10000) and 1 otherwise
#[verifier::external_body]
pub fn verif_len_utf16(c: char) -> (r: usize) ensures r == u16w(c) { c.len_utf16() }
//# assumes: s.chars().peekable(): next pops the first remaining character, peek shows it without consuming; iterating it yields the remaining characters in order
#[verifier::external_body]
pub struct VCharsPeek<'a> { it: std::iter::Peekable<std::str::Chars<'a>> }
pub uninterp spec fn vcp_rest(p: &VCharsPeek) -> Seq<char>;
impl<'a> VCharsPeek<'a> {
    #[verifier::external_body]
    pub fn verif_peek(&mut self) -> (r: Option<&char>)
        ensures vcp_rest(final(self)) == vcp_rest(old(self)),
            vcp_rest(old(self)).len() == 0 ==> r is None,
            vcp_rest(old(self)).len() > 0 ==> (r matches Some(x) && *x == vcp_rest(old(self))[0])
    { std::iter::Peekable::peek(&mut self.it) }
}
impl<'a> Iterator for VCharsPeek<'a> {
    type Item = char;
    #[verifier::external_body]
    fn next(&mut self) -> (r: Option<char>) { self.it.next() }
}
impl<'a> IteratorSpecImpl for VCharsPeek<'a> {
    open spec fn obeys_prophetic_iter_laws(&self) -> bool { true }
    #[verifier::prophetic]
    open spec fn remaining(&self) -> Seq<char> { vcp_rest(self) }
    #[verifier::prophetic]
    open spec fn will_return_none(&self) -> bool { true }
    open spec fn decrease(&self) -> Option<nat> { Some(vcp_rest(self).len()) }
    open spec fn peek(&self, i: int) -> Option<char> {
        if 0 <= i < vcp_rest(self).len() { Some(vcp_rest(self)[i]) } else { None }
    }
}
#[verifier::external_body]
pub fn verif_chars_peekable<'a>(s: &'a str) -> (r: VCharsPeek<'a>) ensures vcp_rest(&r) == s@ { VCharsPeek { it: s.chars().peekable() } }
//# assumes: s.get(a..b) with a and b the UTF-8 offsets of character positions i <= j is the substring of characters i..j
#[verifier::external_body]
pub fn verif_str_get_range<'a>(s: &'a str, a: usize, b: usize) -> (r: Option<&'a str>)
    ensures forall|i: int, j: int| 0 <= i <= j <= s@.len() && a == utf8_len(#[trigger] s@.subrange(0, i)) && b == utf8_len(#[trigger] s@.subrange(0, j)) ==> (r matches Some(x) && x@ == s@.subrange(i, j)),
{ s.get(a..b) }
//# assumes: char::is_ascii_alphabetic / is_ascii_alphanumeric / is_ascii are the ASCII ranges a-z A-Z (0-9) / below U+0080
pub open spec fn ascii_alpha(c: char) -> bool { ('a' <= c && c <= 'z') || ('A' <= c && c <= 'Z') }
pub open spec fn ascii_digit(c: char) -> bool { '0' <= c && c <= '9' }
pub assume_specification[char::is_ascii_alphabetic](c: &char) -> (r: bool) ensures r == ascii_alpha(*c);
pub assume_specification[char::is_ascii_alphanumeric](c: &char) -> (r: bool) ensures r == (ascii_alpha(*c) || ascii_digit(*c));
pub assume_specification[char::is_ascii](c: &char) -> (r: bool) ensures r == ((*c as u32) < 128);
//# assumes: nothing about the Unicode ID_Start / ID_Continue tables of the unicode-id-start crate: two uninterpreted predicates
pub uninterp spec fn uni_id_start(c: char) -> bool;
pub uninterp spec fn uni_id_continue(c: char) -> bool;
pub mod unicode_id_start { use vstd::prelude::*; use super::*; verus!{
    #[verifier::external_body] pub fn is_id_start_unicode(c: char) -> (r: bool) ensures r == uni_id_start(c) { unimplemented!() }
    #[verifier::external_body] pub fn is_id_continue_unicode(c: char) -> (r: bool) ensures r == uni_id_continue(c) { unimplemented!() }
} }
//# assumes: s.char_indices() yields every character with the UTF-8 offset at which it starts, in order
#[verifier::external_body]
pub struct VCharIndices<'a> { it: std::str::CharIndices<'a> }
pub uninterp spec fn vci_rest(p: &VCharIndices) -> Seq<(usize, char)>;
/// the characters from position k on, each with the UTF-8 offset at which it starts
pub open spec fn char_idx_from(cs: Seq<char>, k: int) -> Seq<(usize, char)> {
    Seq::new((cs.len() - k) as nat, |j: int| (utf8_len(cs.subrange(0, k + j)) as usize, cs[k + j]))
}
impl<'a> Iterator for VCharIndices<'a> {
    type Item = (usize, char);
    #[verifier::external_body]
    fn next(&mut self) -> (r: Option<(usize, char)>) { self.it.next() }
}
impl<'a> IteratorSpecImpl for VCharIndices<'a> {
    open spec fn obeys_prophetic_iter_laws(&self) -> bool { true }
    #[verifier::prophetic]
    open spec fn remaining(&self) -> Seq<(usize, char)> { vci_rest(self) }
    #[verifier::prophetic]
    open spec fn will_return_none(&self) -> bool { true }
    open spec fn decrease(&self) -> Option<nat> { Some(vci_rest(self).len()) }
    open spec fn peek(&self, i: int) -> Option<(usize, char)> {
        if 0 <= i < vci_rest(self).len() { Some(vci_rest(self)[i]) } else { None }
    }
}
#[verifier::external_body]
pub fn verif_char_indices<'a>(s: &'a str) -> (r: VCharIndices<'a>) ensures vci_rest(&r) == char_idx_from(s@, 0), utf8_len(s@) <= isize::MAX { VCharIndices { it: s.char_indices() } }
//# assumes: &s[..end] with end the UTF-8 offset of character position j is the first j characters; any other end PANICS (hence a precondition, i.e. a proof obligation at every call)
#[verifier::external_body]
pub fn verif_str_prefix<'a>(s: &'a str, end: usize) -> (r: &'a str)
    requires exists|j: int| 0 <= j <= s@.len() && end == utf8_len(#[trigger] s@.subrange(0, j))
    ensures forall|j: int| 0 <= j <= s@.len() && end == utf8_len(#[trigger] s@.subrange(0, j)) ==> r@ == s@.subrange(0, j)
{ &s[..end] }
//# assumes: nothing about char::is_whitespace (Unicode White_Space): an uninterpreted predicate; s.split_whitespace().next() is the first maximal run of non-whitespace characters, None when there is none
pub uninterp spec fn is_ws(c: char) -> bool;
/// cs[a..b] is the first whitespace-separated word of cs
pub open spec fn first_word_at(cs: Seq<char>, a: int, b: int) -> bool {
    0 <= a < b <= cs.len() && (forall|j: int| 0 <= j < a ==> is_ws(#[trigger] cs[j])) && (forall|j: int| a <= j < b ==> !is_ws(#[trigger] cs[j])) && (b < cs.len() ==> is_ws(cs[b]))
}
#[verifier::external_body]
pub fn verif_first_word<'a>(s: &'a str) -> (r: Option<&'a str>)
    ensures
        r is None <==> (forall|j: int| 0 <= j < s@.len() ==> is_ws(#[trigger] s@[j])),
        r matches Some(w) ==> exists|a: int, b: int| #[trigger] first_word_at(s@, a, b) && w@ == s@.subrange(a, b),
{ s.split_whitespace().next() }
//# assumes: opt.map_or(0, |t| t.len()) on Option<&str> is the byte length of the str, 0 for None
#[verifier::external_body]
pub fn verif_opt_str_len_or0(o: Option<&str>) -> (r: usize)
    ensures o is None ==> r == 0, o matches Some(t) ==> r == utf8_len(t@)
{ o.map_or(0, |t| t.len()) }
//# assumes: s.chars() yields the characters in order; s.chars().rev() yields them last to first
#[verifier::external_body]
pub struct VChars<'a> { it: std::str::Chars<'a> }
pub uninterp spec fn vch_rest(p: &VChars) -> Seq<char>;
impl<'a> Iterator for VChars<'a> {
    type Item = char;
    #[verifier::external_body]
    fn next(&mut self) -> (r: Option<char>) { self.it.next() }
}
impl<'a> IteratorSpecImpl for VChars<'a> {
    open spec fn obeys_prophetic_iter_laws(&self) -> bool { true }
    #[verifier::prophetic]
    open spec fn remaining(&self) -> Seq<char> { vch_rest(self) }
    #[verifier::prophetic]
    open spec fn will_return_none(&self) -> bool { true }
    open spec fn decrease(&self) -> Option<nat> { Some(vch_rest(self).len()) }
    open spec fn peek(&self, i: int) -> Option<char> { if 0 <= i < vch_rest(self).len() { Some(vch_rest(self)[i]) } else { None } }
}
#[verifier::external_body]
pub fn verif_chars<'a>(s: &'a str) -> (r: VChars<'a>) ensures vch_rest(&r) == s@ { VChars { it: s.chars() } }
#[verifier::external_body]
pub struct VCharsRev<'a> { it: std::iter::Rev<std::str::Chars<'a>> }
pub uninterp spec fn vcr_rest(p: &VCharsRev) -> Seq<char>;
impl<'a> Iterator for VCharsRev<'a> {
    type Item = char;
    #[verifier::external_body]
    fn next(&mut self) -> (r: Option<char>) { self.it.next() }
}
impl<'a> IteratorSpecImpl for VCharsRev<'a> {
    open spec fn obeys_prophetic_iter_laws(&self) -> bool { true }
    #[verifier::prophetic]
    open spec fn remaining(&self) -> Seq<char> { vcr_rest(self) }
    #[verifier::prophetic]
    open spec fn will_return_none(&self) -> bool { true }
    open spec fn decrease(&self) -> Option<nat> { Some(vcr_rest(self).len()) }
    open spec fn peek(&self, i: int) -> Option<char> { if 0 <= i < vcr_rest(self).len() { Some(vcr_rest(self)[i]) } else { None } }
}
#[verifier::external_body]
pub fn verif_chars_rev<'a>(s: &'a str) -> (r: VCharsRev<'a>) ensures vcr_rest(&r) == s@.reverse() { VCharsRev { it: s.chars().rev() } }
//# assumes: s.get(..n) / s.get(n..) with n the UTF-8 offset of character position j are the first j characters / the characters from j on (None for an offset inside a character or past the end)
#[verifier::external_body]
pub fn verif_str_get_to<'a>(s: &'a str, n: usize) -> (r: Option<&'a str>)
    ensures forall|j: int| 0 <= j <= s@.len() && n == utf8_len(#[trigger] s@.subrange(0, j)) ==> (r matches Some(x) && x@ == s@.subrange(0, j)),
{ s.get(..n) }
#[verifier::external_body]
pub fn verif_str_get_from<'a>(s: &'a str, n: usize) -> (r: Option<&'a str>)
    ensures forall|j: int| 0 <= j <= s@.len() && n == utf8_len(#[trigger] s@.subrange(0, j)) ==> (r matches Some(x) && x@ == s@.subrange(j, s@.len() as int)),
{ s.get(n..) }
//# assumes: `a == Some(b)` on Option<&str> compares the characters
#[verifier::external_body]
pub fn verif_opt_str_eq(a: Option<&str>, b: &str) -> (r: bool) ensures r == (a matches Some(x) && x@ == b@) { a == Some(b) }
