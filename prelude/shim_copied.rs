// ---- trusted shim: v.iter().copied() over a Vec<i64>, consumed by explicit next() calls ----
//# assumes: v.iter().copied() yields the elements of v in order, then None
#[verifier::external_body]
pub struct VCopied<'a> { it: std::iter::Copied<std::slice::Iter<'a, i64>> }
impl<'a> VCopied<'a> {
    pub uninterp spec fn rest(&self) -> Seq<i64>;
    #[verifier::external_body]
    pub fn next(&mut self) -> (r: Option<i64>)
        ensures old(self).rest().len() == 0 ==> (r is None && final(self).rest() == old(self).rest()),
            old(self).rest().len() > 0 ==> (r == Some(old(self).rest()[0]) && final(self).rest() == old(self).rest().drop_first())
    { self.it.next() }
}
#[verifier::external_body]
pub fn verif_iter_copied<'a>(v: &'a Vec<i64>) -> (r: VCopied<'a>)
    ensures r.rest() == v@
{ VCopied { it: v.iter().copied() } }
