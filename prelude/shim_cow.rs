// ---- trusted: Cow<SourceMap> ----
//# assumes: dereferencing a Cow<SourceMap> gives the borrowed map (Borrowed) or the owned one (Owned); Verus accepts Cow as a plain enum but gives its Deref no specification
pub open spec fn cow_val<'a>(c: Cow<'a, SourceMap>) -> SourceMap {
    match c { Cow::Borrowed(b) => *b, Cow::Owned(o) => o }
}
#[verifier::external_body]
pub fn verif_cow_ref<'a, 'b>(c: &'b Cow<'a, SourceMap>) -> (r: &'b SourceMap)
    ensures *r == cow_val(*c)
{ &**c }
//# assumes: nothing about SourceMap::clone (Cow<SourceMap> needs the impl to exist; flatten never clones)
impl Clone for SourceMap {
    #[verifier::external_body]
    fn clone(&self) -> Self { unimplemented!() }
}
//# assumes: nothing about the text of error messages (R-fmt-msg)
#[verifier::external_body]
pub fn verif_error_message() -> String { String::new() }
