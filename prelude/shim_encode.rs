// ---- trusted: std / dependency operations of the as_raw_sourcemap impls ----
//# assumes: (arc: &Arc<str>).to_string() copies the characters; Option<&str>::map(str::to_owned) copies them; BTreeSet<u32>::is_empty / iter().cloned().collect::<Vec<u32>>() give emptiness / the elements (each once); FacebookSources::clone_from makes the target equal to the source
#[verifier::external_body]
pub fn verif_arc_to_string(x: &Arc<str>) -> (r: String) ensures r@ == arc_chars(x) { x.to_string() }
#[verifier::external_body]
pub fn verif_opt_str_to_owned(o: Option<&str>) -> (r: Option<String>)
    ensures o is None ==> r is None, o matches Some(s) ==> (r matches Some(t) && t@ == s@)
{ o.map(str::to_owned) }
#[verifier::external_body]
pub fn verif_btreeset_is_empty(s: &BTreeSet<u32>) -> (r: bool) ensures r == (s@.len() == 0) { s.is_empty() }
#[verifier::external_body]
pub fn verif_btreeset_to_vec(s: &BTreeSet<u32>) -> (r: Vec<u32>)
    ensures r@.no_duplicates(), forall|x: u32| s@.contains(x) <==> r@.contains(x)
{ s.iter().cloned().collect() }
#[verifier::external_body]
pub fn verif_clone_from_fb(dst: &mut FacebookSources, src: &FacebookSources)
    ensures *final(dst) == *src
{ unimplemented!() /* dst.clone_from(src): the derives of the JSON structs are dropped here (R-derive) */ }
/// the embedded text of source i of a map, if any
pub open spec fn old_text_of(sm: &SourceMap, i: int) -> Option<Seq<char>> {
    if 0 <= i < sm.sources_content@.len() { match sm.sources_content@[i] { Some(v) => Some(sv_text(&v)), None => None } } else { None }
}
//# assumes: every sequence of chars is the text of some str (Rust's str is any sequence of Unicode scalar values)
#[verifier::external_body]
pub proof fn axiom_chars_have_a_str(c: Seq<char>)
    ensures exists|s: &'static str| #[trigger] s@ == c
{}
//# assumes: a str is its characters: two strs with the same characters are the same value
#[verifier::external_body]
pub broadcast proof fn axiom_str_ext(a: &str, b: &str)
    ensures #[trigger] a@ == #[trigger] b@ ==> a == b
{}
//# assumes: Option<String>::as_deref views the string
#[verifier::external_body]
pub fn verif_opt_string_as_deref(o: &Option<String>) -> (r: Option<&str>)
    ensures o is None ==> r is None, o matches Some(s) ==> (r matches Some(t) && t@ == s@)
{ o.as_deref() }
