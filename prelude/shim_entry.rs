// ---- trusted: the JSON layer, the base64 reader and decode_common / is_sourcemap_common as functions of their arguments ----
//# assumes: serde_json::from_slice::<T>(bytes) is a function of the bytes (json_raw / json_min; None = a parse error); one leading '\n' is JSON whitespace and changes nothing
//# assumes: serde_json::from_reader(BufReader::new(&mut rdr)) parses exactly the byte stream rdr delivers from now on, however the reads cut it: for a StripHeaderReader that stream is hdr_out (the per-call contract proved in u3); it fails when the stream carries an error (bare CR in the header, or an error of the underlying reader), and may fail only then or on a parse error
//# assumes: data_encoding::BASE64.decode is a function of its input text (b64_spec; None = rejected)
//# assumes: decode_common returns the same result for the same document (decode_common_res: a naming, no property assumed)
#[verifier::external_body]
pub struct RawSourceMap { _x: u8 }
pub uninterp spec fn json_raw(b: Seq<u8>) -> Option<RawSourceMap>;
pub uninterp spec fn json_min(b: Seq<u8>) -> Option<MinimalRawSourceMap>;
pub uninterp spec fn b64_spec(s: Seq<char>) -> Option<Seq<u8>>;
/// the underlying reader never reports an error of its own (a byte slice, a cursor, a file that can be read)
pub uninterp spec fn reliable<R: Read>(r: &R) -> bool;
pub uninterp spec fn decode_common_res(rsm: RawSourceMap) -> Result<DecodedMap>;
#[verifier::external_body]
pub proof fn axiom_json_leading_newline(t: Seq<u8>)
    ensures json_raw(seq![10u8] + t) == json_raw(t), json_min(seq![10u8] + t) == json_min(t)
{}
#[verifier::external_body]
pub fn decode_common(rsm: RawSourceMap) -> (r: Result<DecodedMap>)
    ensures r == decode_common_res(rsm)
{ unimplemented!() }
#[verifier::external_body]
pub fn verif_json_from_slice_raw(content: &[u8]) -> (r: std::result::Result<RawSourceMap, serde_json_stub::Error>)
    ensures json_raw(content@) matches Some(v) ==> r == Ok::<RawSourceMap, serde_json_stub::Error>(v), json_raw(content@) is None ==> r is Err
{ unimplemented!() }
#[verifier::external_body]
pub fn verif_json_from_slice_min(content: &[u8]) -> (r: std::result::Result<MinimalRawSourceMap, serde_json_stub::Error>)
    ensures json_min(content@) matches Some(v) ==> r == Ok::<MinimalRawSourceMap, serde_json_stub::Error>(v), json_min(content@) is None ==> r is Err
{ unimplemented!() }
#[verifier::external_body]
pub fn verif_json_from_reader_raw<R: Read>(rdr: &mut StripHeaderReader<R>) -> (r: std::result::Result<RawSourceMap, serde_json_stub::Error>)
    ensures
        hdr_out(old(rdr)) is None ==> r is Err,
        hdr_out(old(rdr)) matches Some(o) ==> (match r { Ok(v) => json_raw(o) == Some(v), Err(_) => json_raw(o) is None || !reliable(&old(rdr).r) }),
{ unimplemented!() }
#[verifier::external_body]
pub fn verif_json_from_reader_min<R: Read>(rdr: &mut StripHeaderReader<R>) -> (r: std::result::Result<MinimalRawSourceMap, serde_json_stub::Error>)
    ensures
        hdr_out(old(rdr)) is None ==> r is Err,
        hdr_out(old(rdr)) matches Some(o) ==> (match r { Ok(v) => json_min(o) == Some(v), Err(_) => json_min(o) is None || !reliable(&old(rdr).r) }),
{ unimplemented!() }
/// the payload of a data URL with one of the two accepted preambles
pub open spec fn data_url_payload(u: Seq<char>) -> Option<Seq<char>> {
    if seq_starts_with(u, "data:application/json;base64,"@) { Some(u.subrange(29, u.len() as int)) }
    else if seq_starts_with(u, "data:application/json;charset=utf-8;base64,"@) { Some(u.subrange(43, u.len() as int)) }
    else { None }
}
//# assumes: url.strip_prefix(A).or_else(|| url.strip_prefix(B)) is the rest of url after A if it starts with A, else after B if it starts with B, else None
#[verifier::external_body]
pub fn verif_strip_either_prefix<'a>(url: &'a str, a: &str, b: &str) -> (r: Option<&'a str>)
    ensures
        seq_starts_with(url@, a@) ==> (r matches Some(x) && x@ == url@.subrange(a@.len() as int, url@.len() as int)),
        !seq_starts_with(url@, a@) && seq_starts_with(url@, b@) ==> (r matches Some(x) && x@ == url@.subrange(b@.len() as int, url@.len() as int)),
        !seq_starts_with(url@, a@) && !seq_starts_with(url@, b@) ==> r is None,
{ url.strip_prefix(a).or_else(|| url.strip_prefix(b)) }
//# assumes: data_encoding::BASE64.decode(s.as_bytes()).map_err(|_| Error::InvalidDataUrl) is Ok(the decoded bytes) or Err(InvalidDataUrl)
#[verifier::external_body]
pub fn verif_b64_decode_or_invalid(s: &str) -> (r: Result<Vec<u8>>)
    ensures b64_spec(s@) matches Some(b) ==> (r matches Ok(v) && v@ == b), b64_spec(s@) is None ==> r is Err
{ unimplemented!() }
//# assumes: Result::unwrap_or(default) is the Ok value, the default for an Err
pub assume_specification<T, E> [std::result::Result::<T, E>::unwrap_or] (r: std::result::Result<T, E>, default: T) -> (o: T)
    where E: std::marker::Destruct, T: std::marker::Destruct,
    ensures r matches Ok(v) ==> o == v, r is Err ==> o == default;
//# assumes: encode(&map, &mut buf) appends the JSON text of the map (json_text_of: a naming) or fails; base64_simd STANDARD.encode_to_boxed_str is a function of the bytes (b64_enc_spec) that data_encoding::BASE64.decode inverts (two crates, the same standard alphabet with padding); format!("LIT{}", s) is LIT followed by s
pub uninterp spec fn json_text_of(sm: &SourceMap) -> Seq<u8>;
pub uninterp spec fn b64_enc_spec(b: Seq<u8>) -> Seq<char>;
#[verifier::external_body]
pub proof fn axiom_b64_reader_inverts_writer(b: Seq<u8>)
    ensures b64_spec(b64_enc_spec(b)) == Some(b)
{}
#[verifier::external_body]
pub fn verif_encode_sm(sm: &SourceMap, buf: &mut Vec<u8>) -> (r: Result<()>)
    ensures r is Ok ==> final(buf)@ == old(buf)@ + json_text_of(sm)
{ unimplemented!() }
#[verifier::external_body]
pub fn verif_b64_encode(buf: &Vec<u8>) -> (r: Box<str>)
    ensures r@ == b64_enc_spec(buf@)
{ unimplemented!() }
#[verifier::external_body]
pub fn verif_format_lit_then(lit: &str, s: &Box<str>) -> (r: String)
    ensures r@ == lit@ + s@
{ format!("{}{}", lit, s) }
