// ---- trusted shim: Iterator::enumerate() (postfix, so the rewrite `.enumerate()` -> `.verif_enumerate()` is local) ----
//# assumes: it.enumerate() yields (0, x0), (1, x1), ... for the items x0, x1, ... the underlying iterator still has to deliver
#[verifier::external_body]
#[verifier::reject_recursive_types(I)]
pub struct VEnumerate<I: Iterator> { it: std::iter::Enumerate<I> }
pub uninterp spec fn venum_remaining<I: Iterator>(e: &VEnumerate<I>) -> Seq<(usize, I::Item)>;
pub open spec fn enumerate_seq<T>(s: Seq<T>) -> Seq<(usize, T)> { Seq::new(s.len(), |i: int| (i as usize, s[i])) }
pub trait VerifIterExt: Iterator + Sized {
    fn verif_enumerate(self) -> (r: VEnumerate<Self>)
        requires self.obeys_prophetic_iter_laws(),
        ensures venum_remaining(&r) == enumerate_seq(self.remaining());
}
impl<I: Iterator> VerifIterExt for I {
    #[verifier::external_body]
    fn verif_enumerate(self) -> (r: VEnumerate<Self>) { VEnumerate { it: self.enumerate() } }
}
impl<I: Iterator> Iterator for VEnumerate<I> {
    type Item = (usize, I::Item);
    #[verifier::external_body]
    fn next(&mut self) -> (r: Option<(usize, I::Item)>) { self.it.next() }
}
impl<I: Iterator> IteratorSpecImpl for VEnumerate<I> {
    open spec fn obeys_prophetic_iter_laws(&self) -> bool { true }
    #[verifier::prophetic]
    open spec fn remaining(&self) -> Seq<(usize, I::Item)> { venum_remaining(self) }
    #[verifier::prophetic]
    open spec fn will_return_none(&self) -> bool { true }
    open spec fn decrease(&self) -> Option<nat> { Some(venum_remaining(self).len()) }
    open spec fn peek(&self, i: int) -> Option<(usize, I::Item)> {
        if 0 <= i < venum_remaining(self).len() { Some(venum_remaining(self)[i]) } else { None }
    }
}
