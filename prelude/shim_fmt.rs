// ---- trusted: format!("{a}<lit>{b}") with only identifier holes = concatenation (R-fmt) ----
//# assumes: format!("{a}L{b}") for &str arguments is the concatenation a ++ L ++ b
#[verifier::external_body]
pub fn verif_concat3(a: &str, lit: &str, b: &str) -> (r: String)
    ensures r@ == a@ + lit@ + b@
{ format!("{a}{lit}{b}") }
