// ---- trusted: std integer helpers without a vstd specification ----
//# assumes: i64::checked_shl(x, rhs) is None iff rhs >= 64, else Some(x << rhs)
pub assume_specification[ i64::checked_shl ](x: i64, rhs: u32) -> (r: Option<i64>)
    ensures
        rhs >= 64 ==> r.is_none(),
        rhs < 64 ==> r == Some(x << rhs);
//# assumes: i64::from(u32) is the value-preserving widening
pub assume_specification[ <i64 as From<u32>>::from ](x: u32) -> (r: i64) ensures r == x;
