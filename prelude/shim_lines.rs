// ---- trusted: BufReader::new(rdr).lines(), str::from_utf8 of a tail, str::trim, to_owned ----
//# assumes: BufReader::new(r).lines() yields the lines reader_lines(r) of what r delivers, in order: the content split at '\n' with one trailing '\r' removed from each piece (no piece after a final '\n'), Ok(String) for a piece that is valid UTF-8 and Err otherwise or when the reader fails
#[verifier::external_body]
#[verifier::reject_recursive_types(R)]
pub struct VLines<R> { it: std::io::Lines<std::io::BufReader<R>> }
pub uninterp spec fn vlines_rest<R>(l: &VLines<R>) -> Seq<std::io::Result<String>>;
pub uninterp spec fn reader_lines<R>(r: R) -> Seq<std::io::Result<String>>;
impl<R: std::io::Read> Iterator for VLines<R> {
    type Item = std::io::Result<String>;
    #[verifier::external_body]
    fn next(&mut self) -> (r: Option<std::io::Result<String>>) { self.it.next() }
}
impl<R: std::io::Read> IteratorSpecImpl for VLines<R> {
    open spec fn obeys_prophetic_iter_laws(&self) -> bool { true }
    #[verifier::prophetic]
    open spec fn remaining(&self) -> Seq<std::io::Result<String>> { vlines_rest(self) }
    #[verifier::prophetic]
    open spec fn will_return_none(&self) -> bool { true }
    open spec fn decrease(&self) -> Option<nat> { Some(vlines_rest(self).len()) }
    open spec fn peek(&self, i: int) -> Option<std::io::Result<String>> {
        if 0 <= i < vlines_rest(self).len() { Some(vlines_rest(self)[i]) } else { None }
    }
}
#[verifier::external_body]
pub fn verif_buf_lines<R: std::io::Read>(rdr: R) -> (r: VLines<R>) ensures vlines_rest(&r) == reader_lines(rdr)
{ use std::io::BufRead; VLines { it: std::io::BufReader::new(rdr).lines() } }
//# assumes: str::from_utf8(&s.as_bytes()[n..]) PANICS when n exceeds the byte length (a proof obligation at the call), is Ok(the characters from position j on) when n is the UTF-8 offset of character position j, and Err otherwise
#[verifier::external_body]
pub fn verif_from_utf8_tail<'a>(s: &'a str, n: usize) -> (r: std::result::Result<&'a str, std::str::Utf8Error>)
    requires n <= utf8_len(s@)
    ensures forall|j: int| 0 <= j <= s@.len() && n == utf8_len(#[trigger] s@.subrange(0, j)) ==> (r matches Ok(t) && t@ == s@.subrange(j, s@.len() as int)),
{ std::str::from_utf8(&s.as_bytes()[n..]) }
/// t is cs without its leading and trailing whitespace
pub open spec fn trimmed_is(cs: Seq<char>, t: Seq<char>) -> bool {
    exists|a: int, b: int| 0 <= a <= b <= cs.len() && #[trigger] cs.subrange(a, b) == t
        && (forall|j: int| 0 <= j < a ==> is_ws(#[trigger] cs[j])) && (forall|j: int| b <= j < cs.len() ==> is_ws(#[trigger] cs[j]))
        && (a < b ==> !is_ws(cs[a]) && !is_ws(cs[b - 1]))
}
//# assumes: str::trim removes exactly the leading and trailing whitespace (char::is_whitespace); str::to_owned copies the characters
pub trait VerifTrimExt {
    spec fn verif_chars(&self) -> Seq<char>;
    fn verif_trim(&self) -> (r: &str) ensures trimmed_is(self.verif_chars(), r@);
    fn verif_to_owned(&self) -> (r: String) ensures r@ == self.verif_chars();
}
impl VerifTrimExt for str {
    open spec fn verif_chars(&self) -> Seq<char> { self@ }
    #[verifier::external_body]
    fn verif_trim(&self) -> (r: &str) { self.trim() }
    #[verifier::external_body]
    fn verif_to_owned(&self) -> (r: String) { self.to_owned() }
}
//# assumes: reading a byte slice never fails: its lines are those of its bytes (slice_lines is left uninterpreted here: the contract of the slice variant is stated relative to it)
pub uninterp spec fn slice_lines(b: Seq<u8>) -> Seq<std::io::Result<String>>;
#[verifier::external_body]
pub broadcast proof fn axiom_slice_reader_lines(s: &[u8])
    ensures #[trigger] reader_lines::<&[u8]>(s) == slice_lines(s@)
{}
