// ---- trusted: std::mem::take on a Vec ----
//# assumes: std::mem::take(&mut v) returns the old vector and leaves an empty one
#[verifier::external_body]
pub fn verif_mem_take_vec<T>(v: &mut Vec<T>) -> (r: Vec<T>)
    ensures r == *old(v), final(v)@.len() == 0
{ std::mem::take(v) }
