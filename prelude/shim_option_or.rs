// ---- trusted: Option::or ----
//# assumes: Option::or(a, b) is a when a is Some, else b
pub assume_specification<T>[ Option::<T>::or ](a: Option<T>, b: Option<T>) -> (r: Option<T>)
    ensures r == (if a is Some { a } else { b });
//# assumes: serde_json::Number::to_string yields the number's decimal text (num_text)
pub uninterp spec fn num_text(n: &Number) -> Seq<char>;
impl Number { #[verifier::external_body] pub fn to_string(&self) -> (r: String) ensures r@ == num_text(self) { unimplemented!() } }
