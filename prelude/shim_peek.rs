// ---- trusted shim: vec.into_iter().peekable() with explicit next / peek (non-prophetic: `rest` is what is still to come) ----
//# assumes: Peekable<vec::IntoIter<T>>::next pops the front element, peek shows it without consuming; Option::map_or and cmp::min on (u32,u32) behave as documented
#[verifier::external_body]
#[verifier::reject_recursive_types(T)]
pub struct VPeek<T> { it: std::iter::Peekable<std::vec::IntoIter<T>> }
impl<T> VPeek<T> {
    pub uninterp spec fn rest(&self) -> Seq<T>;
    #[verifier::external_body]
    pub fn next(&mut self) -> (r: Option<T>)
        ensures old(self).rest().len() == 0 ==> (r is None && final(self).rest() == old(self).rest()),
            old(self).rest().len() > 0 ==> (r == Some(old(self).rest()[0]) && final(self).rest() == old(self).rest().drop_first())
    { self.it.next() }
    #[verifier::external_body]
    pub fn peek(&mut self) -> (r: Option<&T>)
        ensures final(self).rest() == old(self).rest(), old(self).rest().len() == 0 ==> r is None, old(self).rest().len() > 0 ==> (r matches Some(x) && *x == old(self).rest()[0])
    { std::iter::Peekable::peek(&mut self.it) }
}
#[verifier::external_body]
pub fn verif_into_iter_peekable<T>(v: Vec<T>) -> (r: VPeek<T>)
    ensures r.rest() == v@
{ VPeek { it: v.into_iter().peekable() } }
#[verifier::external_body]
pub fn verif_map_or_key<T, F: Fn(&T) -> (u32, u32)>(o: Option<&T>, default: (u32, u32), f: F) -> (r: (u32, u32))
    requires o matches Some(x) ==> call_requires(f, (x,)),
    ensures o is None ==> r == default, o matches Some(x) ==> call_ensures(f, (x,), r)
{ o.map_or(default, f) }
#[verifier::external_body]
pub fn verif_min_pos(a: (u32, u32), b: (u32, u32)) -> (r: (u32, u32))
    ensures r == (if tle(a, b) { a } else { b })
{ std::cmp::min(a, b) }
