// ---- trusted shims for utils::find_common_prefix_of_sorted_vec ----
pub open spec fn cow_strs<'a>(c: Cow<'a, [&'a str]>) -> Seq<&'a str> { match c { Cow::Borrowed(b) => b@, Cow::Owned(v) => v@ } }
//# assumes: dereferencing a Cow<[&str]> gives the borrowed slice or the owned vector's elements
#[verifier::external_body]
pub fn verif_cow_strs<'a, 'b>(c: &'b Cow<'a, [&'a str]>) -> (r: &'b [&'a str]) ensures r@ == cow_strs(*c) { &**c }
//# assumes: `opt != Some(&comp)` on Option<&&str> is false exactly when opt is Some and the strings are equal
#[verifier::external_body]
pub fn verif_opt_str_is(o: Option<&&str>, comp: &str) -> (r: bool)
    ensures r == (o matches Some(x) && (**x)@ == comp@)
{ o == Some(&comp) }
//# assumes: Option<usize> orders None before Some, and Some by the number
#[verifier::external_body]
pub fn verif_opt_lt(a: Option<usize>, b: Option<usize>) -> (r: bool)
    ensures r == (match (a, b) { (None, Some(_)) => true, (Some(x), Some(y)) => x < y, _ => false })
{ a < b }
//# assumes: &s[..=i] is the first i + 1 elements
#[verifier::external_body]
pub fn verif_slice_to_incl<'a, T>(s: &'a [T], i: usize) -> (r: &'a [T])
    requires i < s@.len()
    ensures r@ == s@.subrange(0, i + 1)
{ &s[..=i] }
// ---- trusted shims for utils::make_relative_path ----
pub open spec fn views(v: Seq<&str>) -> Seq<Seq<char>> { v.map_values(|s: &str| s@) }
//# assumes: s.split(&['/', '\\'][..]).filter(|x| !x.is_empty()).collect() is the list of non-empty maximal runs of characters other than '/' and '\\' (spec fn components)
#[verifier::external_body]
pub fn verif_path_components<'a>(s: &'a str) -> (r: Vec<&'a str>) ensures views(r@) == components(s@)
{ s.split(&['/', '\\'][..]).filter(|x| !x.is_empty()).collect() }
//# assumes: v.sort_by_key(|x| x.len()) is a stable sort by list length: a permutation, ordered by length, and for two lists swapped exactly when the second is strictly shorter
#[verifier::external_body]
pub fn verif_sort_by_len<'a>(v: &mut Vec<Cow<'a, [&'a str]>>)
    ensures final(v)@.len() == old(v)@.len(), final(v)@.to_multiset() == old(v)@.to_multiset(),
        forall|i: int, j: int| 0 <= i <= j < old(v)@.len() ==> cow_strs(#[trigger] final(v)@[i]).len() <= cow_strs(#[trigger] final(v)@[j]).len(),
        old(v)@.len() == 2 ==> final(v)@ == (if cow_strs(old(v)@[1]).len() < cow_strs(old(v)@[0]).len() { seq![old(v)@[1], old(v)@[0]] } else { old(v)@ }),
{ v.sort_by_key(|x| x.len()) }
//# assumes: opt.map(|x| x.len()).unwrap_or(0) is the length of the slice, 0 for None
#[verifier::external_body]
pub fn verif_opt_slice_len_or0(o: Option<&[&str]>) -> (r: usize) ensures o is None ==> r == 0, o matches Some(s) ==> r == s@.len() { o.map(|x| x.len()).unwrap_or(0) }
//# assumes: repeat(s).take(n).collect::<String>() is s written n times; slice.join(sep) writes the strings with sep between them; "..".into() / String from &str copies the characters
#[verifier::external_body]
pub fn verif_repeat_collect(s: &str, n: usize) -> (r: String) ensures r@ == repeat_str(s@, n as nat) { std::iter::repeat(s).take(n).collect() }
#[verifier::external_body]
pub fn verif_join(v: &[&str], sep: &str) -> (r: String) ensures r@ == join_spec(views(v@), sep@) { v.join(sep) }
#[verifier::external_body]
pub fn verif_string_from(s: &str) -> (r: String) ensures r@ == s@ { s.into() }
