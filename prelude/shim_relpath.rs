// ---- trusted shims for utils::find_common_prefix_of_sorted_vec ----
pub open spec fn cow_strs<'a>(c: Cow<'a, [&'a str]>) -> Seq<&'a str> { match c { Cow::Borrowed(b) => b@, Cow::Owned(v) => v@ } }
//# assumes: dereferencing a Cow<[&str]> gives the borrowed slice or the owned vector's elements
#[verifier::external_body]
pub fn verif_cow_strs<'a, 'b>(c: &'b Cow<'a, [&'a str]>) -> (r: &'b [&'a str]) ensures r@ == cow_strs(*c) { &**c }
//# assumes: `opt != Some(&comp)` on Option<&&str> is false exactly when opt is Some and the strings are equal
#[verifier::external_body]
pub fn verif_opt_str_is(o: Option<&&str>, comp: &str) -> (r: bool)
    ensures r == (o matches Some(x) && (**x)@ == comp@)
{ o == Some(&comp) }
//# assumes: Option<usize> orders None before Some, and Some by the number
#[verifier::external_body]
pub fn verif_opt_lt(a: Option<usize>, b: Option<usize>) -> (r: bool)
    ensures r == (match (a, b) { (None, Some(_)) => true, (Some(x), Some(y)) => x < y, _ => false })
{ a < b }
//# assumes: &s[..=i] is the first i + 1 elements
#[verifier::external_body]
pub fn verif_slice_to_incl<'a, T>(s: &'a [T], i: usize) -> (r: &'a [T])
    requires i < s@.len()
    ensures r@ == s@.subrange(0, i + 1)
{ &s[..=i] }
