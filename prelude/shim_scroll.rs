// ---- trusted: scroll::Pread on byte slices, as this crate uses it (scroll 0.10: pread.rs pread_with, ctx.rs TryFromCtx impls) ----
pub mod scroll_stub { use vstd::prelude::*; verus!{ #[verifier::external_body] pub struct Error { _x: u8 } } }
global layout usize is size == 8;
//# assumes: a 64-bit target (usize is 8 bytes); size_of::<RamBundleHeader>() == 12 and size_of::<ModuleEntry>() == 8 (three / two u32 fields, repr(C, packed))
global layout RamBundleHeader is size == 12, align == 1;
global layout ModuleEntry is size == 8, align == 1;
/// the little-endian u32 stored at s[at..at+4]
pub open spec fn le32(s: Seq<u8>, at: int) -> int { s[at] as int + 256 * (s[at + 1] as int) + 65536 * (s[at + 2] as int) + 16777216 * (s[at + 3] as int) }
pub open spec fn cow_bytes<'a>(c: Cow<'a, [u8]>) -> Seq<u8> { match c { Cow::Borrowed(b) => b@, Cow::Owned(v) => v@ } }
//# assumes: dereferencing a Cow<[u8]> gives the borrowed slice or the owned vector's bytes
#[verifier::external_body]
pub fn verif_cow_bytes<'a, 'b>(c: &'b Cow<'a, [u8]>) -> (r: &'b [u8]) ensures r@ == cow_bytes(*c) { &**c }
//# assumes: bytes.pread_with::<RamBundleHeader>(off, scroll::LE) (derive(Pread): three u32 read in order, little endian) is Ok exactly when 12 bytes are available at off, and then holds those three values; the `?` / From<scroll::Error> wraps a failure as Error::Scroll
#[verifier::external_body]
pub fn verif_pread_header(b: &[u8], off: usize) -> (r: Result<RamBundleHeader>)
    ensures
        off + 12 <= b@.len() ==> (r matches Ok(h) && h.magic == le32(b@, off as int) && h.module_count == le32(b@, off + 4) && h.startup_code_size == le32(b@, off + 8)),
        off + 12 > b@.len() ==> r matches Err(Error::Scroll(_)),
{ unimplemented!() }
//# assumes: bytes.pread_with::<ModuleEntry>(off, scroll::LE) is Ok exactly when 8 bytes are available at off, and then holds the two little-endian u32 there
#[verifier::external_body]
pub fn verif_pread_entry(b: &[u8], off: usize) -> (r: Result<ModuleEntry>)
    ensures
        off + 8 <= b@.len() ==> (r matches Ok(e) && e.offset == le32(b@, off as int) && e.length == le32(b@, off + 4)),
        off + 8 > b@.len() ==> r matches Err(Error::Scroll(_)),
{ unimplemented!() }
//# assumes: bytes.pread_with::<&[u8]>(off, n) is Ok exactly when off < len and off + n <= len (scroll refuses off == len even for n == 0), and then is bytes[off..off+n]
#[verifier::external_body]
pub fn verif_pread_bytes<'a>(b: &'a [u8], off: usize, n: usize) -> (r: Result<&'a [u8]>)
    ensures
        (off < b@.len() && off + n <= b@.len()) ==> (r matches Ok(s) && s@ == b@.subrange(off as int, off + n)),
        !(off < b@.len() && off + n <= b@.len()) ==> r matches Err(Error::Scroll(_)),
{ unimplemented!() }
//# assumes: Option::is_some_and(f) is false for None and f(x) for Some(x)
#[verifier::external_body]
pub fn verif_is_some_and<T, F: FnOnce(T) -> bool>(o: Option<T>, f: F) -> (r: bool)
    requires o matches Some(x) ==> call_requires(f, (x,))
    ensures o is None ==> !r, o matches Some(x) ==> call_ensures(f, (x,), r)
{ o.is_some_and(f) }
