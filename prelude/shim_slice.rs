// ---- trusted: slice search / sort from std, characterised through an abstract key function ----
//# assumes: [T]::binary_search_by_key on a slice sorted by the key returns Ok(i) with key(s[i]) == b, or Err(i) with everything before i smaller and everything from i larger
pub assume_specification<'a, T, B, F> [<[T]>::binary_search_by_key] (s: &'a [T], b: &B, f: F) -> (r: std::result::Result<usize, usize>)
    where B: std::cmp::Ord, F: std::ops::FnMut(&'a T,) -> B,
    requires
        forall|i: int| 0 <= i < s@.len() ==> call_requires(f, (&#[trigger] s@[i],)),
    ensures
        forall|kf: spec_fn(T) -> B| consistent(f, kf) && #[trigger] sorted_kf(s@, kf) && ord_laws::<B>() ==> match r {
            Ok(i) => i < s@.len() && kf(s@[i as int]) == *b,
            Err(i) => err_facts(s@, *b, kf, i as int),
        },
        match r { Ok(i) => i < s@.len(), Err(i) => i <= s@.len() },
;

//# assumes: [T]::sort_unstable_by_key leaves a permutation of the input that is sorted by the key
#[verifier::external_body]
pub fn verif_sort_unstable_by_key<T, K: Ord, F: FnMut(&T) -> K>(v: &mut Vec<T>, f: F)
    requires
        forall|t: &T| #[trigger] call_requires(f, (t,)),
    ensures
        final(v)@.to_multiset() == old(v)@.to_multiset(),
        final(v)@.len() == old(v)@.len(),
        forall|kf: spec_fn(T) -> K| (forall|t: &T, k: K| #[trigger] call_ensures(f, (t,), k) ==> k == kf(*t)) && ord_laws::<K>()
            ==> #[trigger] sorted_kf(final(v)@, kf),
{
    v.sort_unstable_by_key(f)
}
