// ---- trusted shim: vec.iter() with an explicit next (non-prophetic: `rest` is what is still to come); cmp::max on positions; Vec<RawToken>::clone ----
//# assumes: slice::Iter<T>::next yields references to the elements front to back, then None; `for x in &vec` is `let mut it = vec.iter(); while let Some(x) = it.next()`
#[verifier::external_body]
#[verifier::reject_recursive_types(T)]
pub struct VSliceIter<'a, T> { it: std::slice::Iter<'a, T> }
impl<'a, T> VSliceIter<'a, T> {
    pub uninterp spec fn rest(&self) -> Seq<T>;
    #[verifier::external_body]
    pub fn next(&mut self) -> (r: Option<&'a T>)
        ensures old(self).rest().len() == 0 ==> (r is None && final(self).rest() == old(self).rest()),
            old(self).rest().len() > 0 ==> (r matches Some(x) && *x == old(self).rest()[0] && final(self).rest() == old(self).rest().drop_first())
    { self.it.next() }
}
#[verifier::external_body]
pub fn verif_slice_iter<'a, T>(v: &'a Vec<T>) -> (r: VSliceIter<'a, T>)
    ensures r.rest() == v@
{ VSliceIter { it: v.iter() } }
//# assumes: std::cmp::max on (u32, u32) is the lexicographically greater pair (the second argument when equal)
#[verifier::external_body]
pub fn verif_max_pos(a: (u32, u32), b: (u32, u32)) -> (r: (u32, u32))
    ensures r == (if tle(a, b) { b } else { a })
{ std::cmp::max(a, b) }
//# assumes: Vec<RawToken>::clone (RawToken is Copy, derive(Clone)) returns a vector with the same elements
#[verifier::external_body]
pub fn verif_clone_tokens(v: &Vec<RawToken>) -> (r: Vec<RawToken>)
    ensures r@ == v@
{ v.clone() }
