// ---- trusted: the sequential reading of SourceView's interior-mutable cells, and the std string / char operations it uses ----
global layout usize is size == 8;
//# assumes: a 64-bit target (usize is 8 bytes)
//# assumes: (R-seq) used by ONE thread, std::sync::Mutex<T> is a cell holding a T: lock() succeeds (the mutex is never poisoned because no code that holds the guard can panic -- which is proved for the code under contract) and gives exclusive access to the value until the guard is dropped
#[derive(Debug)]
pub struct SeqPoison;
pub struct SeqMutex<T> { pub v: T }
impl<T> SeqMutex<T> {
    #[verifier::external_body]
    pub fn new(v: T) -> (r: SeqMutex<T>) ensures r.v == v { SeqMutex { v } }
    #[verifier::external_body]
    pub fn lock(&mut self) -> (r: Result<&mut T, SeqPoison>)
        ensures r is Ok, *r->Ok_0 == old(self).v, final(self).v == *final(r->Ok_0),
    { Ok(&mut self.v) }
}
//# assumes: (R-seq) used by ONE thread, AtomicUsize with Relaxed ordering is a usize cell: load reads it, fetch_add adds with wrap-around and returns the previous value
pub struct SeqAtomicUsize { pub val: usize }
impl SeqAtomicUsize {
    #[verifier::external_body]
    pub fn new(v: usize) -> (r: SeqAtomicUsize) ensures r.val == v { SeqAtomicUsize { val: v } }
    #[verifier::external_body]
    pub fn load(&self, o: Ordering) -> (r: usize) ensures r == self.val { self.val }
    #[verifier::external_body]
    pub fn fetch_add(&mut self, n: usize, o: Ordering) -> (r: usize)
        ensures r == old(self).val,
            final(self).val as int == (if old(self).val + n > usize::MAX { old(self).val + n - usize::MAX - 1 } else { old(self).val + n })
    { let r = self.val; self.val = self.val.wrapping_add(n); r }
}
/// the UTF-8 bytes of the text an Arc<str> holds (vstd: spec_bytes() == encode_utf8(chars))
pub open spec fn arc_bytes(a: &Arc<str>) -> Seq<u8> { (**a).spec_bytes() }
//# assumes: Arc<str>::len() / as_bytes() (through Deref to str) give the length / the bytes of the text; the bytes of a str are valid UTF-8 and at most isize::MAX long
#[verifier::external_body]
pub fn verif_arc_len(a: &Arc<str>) -> (r: usize) ensures r == arc_bytes(a).len() { a.len() }
#[verifier::external_body]
pub fn verif_arc_as_bytes<'a>(a: &'a Arc<str>) -> (r: &'a [u8]) ensures r@ == arc_bytes(a), valid_utf8(r@), r@.len() <= isize::MAX { a.as_bytes() }
#[verifier::external_body]
pub proof fn axiom_str_len_fits(s: &str) ensures s.spec_bytes().len() <= isize::MAX {}
//# assumes: (R-unsafe) `unsafe { str::from_utf8_unchecked(slice::from_raw_parts(p.as_ptr(), p.len())) }` on bytes that ARE valid UTF-8 (a proof obligation at the call) is the str with exactly these bytes; that the 'static lifetime it is given is sound (the Arc<str> outlives the cache and is never changed) is NOT verified
#[verifier::external_body]
pub fn verif_static_str_of(rv: &[u8]) -> (r: &'static str)
    requires valid_utf8(rv@)
    ensures r.spec_bytes() == rv@
{ unsafe { std::str::from_utf8_unchecked(std::slice::from_raw_parts(rv.as_ptr(), rv.len())) } }
//# assumes: slice.iter().position(f) is the first index whose element satisfies f, None when there is none
#[verifier::external_body]
pub fn verif_position_u8<F: Fn(&u8) -> bool>(s: &[u8], f: F) -> (r: Option<usize>)
    requires forall|i: int| 0 <= i < s@.len() ==> call_requires(f, (&#[trigger] s@[i],))
    ensures
        r matches Some(k) ==> k < s@.len() && call_ensures(f, (&s@[k as int],), true) && forall|j: int| 0 <= j < k ==> call_ensures(f, (&#[trigger] s@[j],), false),
        r is None ==> forall|j: int| 0 <= j < s@.len() ==> call_ensures(f, (&#[trigger] s@[j],), false),
{ s.iter().position(f) }
//# assumes: `opt == Some(&b)` on Option<&u8> holds exactly when opt is Some and the byte equals b
#[verifier::external_body]
pub fn verif_opt_u8_is(o: Option<&u8>, b: u8) -> (r: bool) ensures r == (o matches Some(x) && *x == b) { o == Some(&b) }

// ---- chars / UTF-16 ----
/// UTF-16 code units of a character
pub open spec fn u16w(c: char) -> int { if (c as u32) >= 0x10000 { 2 } else { 1 } }
/// UTF-8 bytes of a character (vstd's encoder)
pub open spec fn u8w(c: char) -> int { encode_scalar(c as u32).len() as int }
pub open spec fn utf8_len(cs: Seq<char>) -> int { encode_utf8(cs).len() as int }
//# assumes: char::len_utf16 is 2 for characters outside the BMP (>= U+10000) and 1 otherwise
#[verifier::external_body]
pub fn verif_len_utf16(c: char) -> (r: usize) ensures r == u16w(c) { c.len_utf16() }
//# assumes: s.chars().peekable(): next pops the first remaining character, peek shows it without consuming; iterating it yields the remaining characters in order
#[verifier::external_body]
pub struct VCharsPeek<'a> { it: std::iter::Peekable<std::str::Chars<'a>> }
pub uninterp spec fn vcp_rest(p: &VCharsPeek) -> Seq<char>;
impl<'a> VCharsPeek<'a> {
    #[verifier::external_body]
    pub fn verif_peek(&mut self) -> (r: Option<&char>)
        ensures vcp_rest(final(self)) == vcp_rest(old(self)),
            vcp_rest(old(self)).len() == 0 ==> r is None,
            vcp_rest(old(self)).len() > 0 ==> (r matches Some(x) && *x == vcp_rest(old(self))[0])
    { std::iter::Peekable::peek(&mut self.it) }
}
impl<'a> Iterator for VCharsPeek<'a> {
    type Item = char;
    #[verifier::external_body]
    fn next(&mut self) -> (r: Option<char>) { self.it.next() }
}
impl<'a> IteratorSpecImpl for VCharsPeek<'a> {
    open spec fn obeys_prophetic_iter_laws(&self) -> bool { true }
    #[verifier::prophetic]
    open spec fn remaining(&self) -> Seq<char> { vcp_rest(self) }
    #[verifier::prophetic]
    open spec fn will_return_none(&self) -> bool { true }
    open spec fn decrease(&self) -> Option<nat> { Some(vcp_rest(self).len()) }
    open spec fn peek(&self, i: int) -> Option<char> {
        if 0 <= i < vcp_rest(self).len() { Some(vcp_rest(self)[i]) } else { None }
    }
}
#[verifier::external_body]
pub fn verif_chars_peekable<'a>(s: &'a str) -> (r: VCharsPeek<'a>) ensures vcp_rest(&r) == s@ { VCharsPeek { it: s.chars().peekable() } }
//# assumes: s.get(a..b) with a and b the UTF-8 offsets of character positions i <= j is the substring of characters i..j
#[verifier::external_body]
pub fn verif_str_get_range<'a>(s: &'a str, a: usize, b: usize) -> (r: Option<&'a str>)
    ensures forall|i: int, j: int| 0 <= i <= j <= s@.len() && a == utf8_len(#[trigger] s@.subrange(0, i)) && b == utf8_len(#[trigger] s@.subrange(0, j)) ==> (r matches Some(x) && x@ == s@.subrange(i, j)),
{ s.get(a..b) }
//# assumes: Option::and_then(f) is None for None and f(x) for Some(x)
#[verifier::external_body]
pub fn verif_and_then<T, U, F: FnOnce(T) -> Option<U>>(o: Option<T>, f: F) -> (r: Option<U>)
    requires o matches Some(x) ==> call_requires(f, (x,))
    ensures o is None ==> r is None, o matches Some(x) ==> call_ensures(f, (x,), r)
{ o.and_then(f) }
