// ---- trusted: the sequential reading of SourceView's interior-mutable cells, and the std string / char operations it uses ----
//# assumes: (R-seq) used by ONE thread, std::sync::Mutex<T> is a cell holding a T: lock() succeeds (the mutex is never poisoned because no code that holds the guard can panic -- which is proved for the code under contract) and gives exclusive access to the value until the guard is dropped
#[derive(Debug)]
pub struct SeqPoison;
pub struct SeqMutex<T> { pub v: T }
impl<T> SeqMutex<T> {
    #[verifier::external_body]
    pub fn new(v: T) -> (r: SeqMutex<T>) ensures r.v == v { SeqMutex { v } }
    #[verifier::external_body]
    pub fn lock(&mut self) -> (r: std::result::Result<&mut T, SeqPoison>)
        ensures r is Ok, *r->Ok_0 == old(self).v, final(self).v == *final(r->Ok_0),
    { Ok(&mut self.v) }
}
//# assumes: (R-seq) used by ONE thread, AtomicUsize with Relaxed ordering is a usize cell: load reads it, fetch_add adds with wrap-around and returns the previous value
pub struct SeqAtomicUsize { pub val: usize }
impl SeqAtomicUsize {
    #[verifier::external_body]
    pub fn new(v: usize) -> (r: SeqAtomicUsize) ensures r.val == v { SeqAtomicUsize { val: v } }
    #[verifier::external_body]
    pub fn load(&self, o: std::sync::atomic::Ordering) -> (r: usize) ensures r == self.val { self.val }
    #[verifier::external_body]
    pub fn fetch_add(&mut self, n: usize, o: std::sync::atomic::Ordering) -> (r: usize)
        ensures r == old(self).val,
            final(self).val as int == (if old(self).val + n > usize::MAX { old(self).val + n - usize::MAX - 1 } else { old(self).val + n })
    { let r = self.val; self.val = self.val.wrapping_add(n); r }
}
/// the UTF-8 bytes of the text an Arc<str> holds (vstd: spec_bytes() == encode_utf8(chars))
pub open spec fn arc_bytes(a: &Arc<str>) -> Seq<u8> { (**a).spec_bytes() }
//# assumes: Arc<str>::len() / as_bytes() (through Deref to str) give the length / the bytes of the text; the bytes of a str are valid UTF-8 and at most isize::MAX long
#[verifier::external_body]
pub fn verif_arc_len(a: &Arc<str>) -> (r: usize) ensures r == arc_bytes(a).len() { a.len() }
#[verifier::external_body]
pub fn verif_arc_as_bytes<'a>(a: &'a Arc<str>) -> (r: &'a [u8]) ensures r@ == arc_bytes(a), valid_utf8(r@), r@.len() <= isize::MAX { a.as_bytes() }
//# assumes: (R-unsafe) `unsafe { str::from_utf8_unchecked(slice::from_raw_parts(p.as_ptr(), p.len())) }` on bytes that ARE valid UTF-8 (a proof obligation at the call) is the str with exactly these bytes; that the 'static lifetime it is given is sound (the Arc<str> outlives the cache and is never changed) is NOT verified
#[verifier::external_body]
pub fn verif_static_str_of(rv: &[u8]) -> (r: &'static str)
    requires valid_utf8(rv@)
    ensures r.spec_bytes() == rv@
{ unsafe { std::str::from_utf8_unchecked(std::slice::from_raw_parts(rv.as_ptr(), rv.len())) } }
//# assumes: slice.iter().position(f) is the first index whose element satisfies f, None when there is none
#[verifier::external_body]
pub fn verif_position_u8<F: Fn(&u8) -> bool>(s: &[u8], f: F) -> (r: Option<usize>)
    requires forall|i: int| 0 <= i < s@.len() ==> call_requires(f, (&#[trigger] s@[i],))
    ensures
        r matches Some(k) ==> k < s@.len() && call_ensures(f, (&s@[k as int],), true) && forall|j: int| 0 <= j < k ==> call_ensures(f, (&#[trigger] s@[j],), false),
        r is None ==> forall|j: int| 0 <= j < s@.len() ==> call_ensures(f, (&#[trigger] s@[j],), false),
{ s.iter().position(f) }
//# assumes: `opt == Some(&b)` on Option<&u8> holds exactly when opt is Some and the byte equals b
#[verifier::external_body]
pub fn verif_opt_u8_is(o: Option<&u8>, b: u8) -> (r: bool) ensures r == (o matches Some(x) && *x == b) { o == Some(&b) }

//# assumes: Option::and_then(f) is None for None and f(x) for Some(x)
#[verifier::external_body]
pub fn verif_and_then<T, U, F: FnOnce(T) -> Option<U>>(o: Option<T>, f: F) -> (r: Option<U>)
    requires o matches Some(x) ==> call_requires(f, (x,))
    ensures o is None ==> r is None, o matches Some(x) ==> call_ensures(f, (x,), r)
{ o.and_then(f) }
