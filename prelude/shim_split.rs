// ---- trusted shim: str::split(char) for an ASCII separator; zip with right padding; all over byte sequences ----
//# assumes: s.split(c) for ASCII c yields the maximal c-free pieces of s in order (always at least one); a.zip(b.chain(repeat(pad))) pairs a[i] with b[i], or with pad beyond b
pub open spec fn find_sep(s: Seq<u8>, sep: u8, from: int) -> int
    decreases s.len() - from
{
    if from < 0 || from >= s.len() { s.len() as int } else if s[from] == sep { from } else { find_sep(s, sep, from + 1) }
}
/// standard split: pieces between separators, always at least one piece
pub open spec fn split_seq(s: Seq<u8>, sep: u8) -> Seq<Seq<u8>>
    decreases s.len()
{
    let k = find_sep(s, sep, 0);
    if 0 <= k < s.len() { seq![s.subrange(0, k)] + split_seq(s.subrange(k + 1, s.len() as int), sep) } else { seq![s] }
}
pub open spec fn strs_bytes(v: Seq<&str>) -> Seq<Seq<u8>> { v.map_values(|x: &str| str_bytes(x)) }

#[verifier::external_body]
pub struct VSplit<'a> { it: std::str::Split<'a, char> }
pub uninterp spec fn vsplit_remaining<'a>(b: &VSplit<'a>) -> Seq<&'a str>;

#[verifier::external_body]
pub fn verif_split<'a>(s: &'a str, c: char) -> (r: VSplit<'a>)
    requires (c as u32) < 128,
    ensures
        vsplit_remaining(&r).len() == split_seq(str_bytes(s), c as u8).len(),
        forall|i: int| 0 <= i < vsplit_remaining(&r).len() ==> str_bytes(#[trigger] vsplit_remaining(&r)[i]) == split_seq(str_bytes(s), c as u8)[i],
{ VSplit { it: s.split(c) } }

impl<'a> Iterator for VSplit<'a> {
    type Item = &'a str;
    #[verifier::external_body]
    fn next(&mut self) -> (r: Option<&'a str>) { self.it.next() }
}
impl<'a> IteratorSpecImpl for VSplit<'a> {
    open spec fn obeys_prophetic_iter_laws(&self) -> bool { true }
    #[verifier::prophetic]
    open spec fn remaining(&self) -> Seq<&'a str> { vsplit_remaining(self) }
    #[verifier::prophetic]
    open spec fn will_return_none(&self) -> bool { true }
    open spec fn decrease(&self) -> Option<nat> { Some(vsplit_remaining(self).len()) }
    open spec fn peek(&self, i: int) -> Option<&'a str> {
        if 0 <= i < vsplit_remaining(self).len() { Some(vsplit_remaining(self)[i]) } else { None }
    }
}

#[verifier::external_body]
#[verifier::reject_recursive_types(A)]
#[verifier::reject_recursive_types(B)]
pub struct VZipPad<A: Iterator, B: Iterator> { it: std::iter::Zip<A, std::iter::Chain<B, std::iter::Repeat<B::Item>>> }
pub uninterp spec fn vzip_remaining<A: Iterator, B: Iterator>(z: &VZipPad<A, B>) -> Seq<(A::Item, B::Item)>;
pub open spec fn zip_pad_seq<X, Y>(a: Seq<X>, b: Seq<Y>, pad: Y) -> Seq<(X, Y)> {
    Seq::new(a.len(), |i: int| (a[i], if i < b.len() { b[i] } else { pad }))
}
pub trait VerifZipPadExt: Iterator + Sized {
    fn verif_zip_pad<B: Iterator>(self, b: B, pad: B::Item) -> (r: VZipPad<Self, B>)
        where B::Item: Clone
        requires self.obeys_prophetic_iter_laws(), b.obeys_prophetic_iter_laws(),
        ensures vzip_remaining(&r) == zip_pad_seq(self.remaining(), b.remaining(), pad);
}
impl<A: Iterator> VerifZipPadExt for A {
    #[verifier::external_body]
    fn verif_zip_pad<B: Iterator>(self, b: B, pad: B::Item) -> (r: VZipPad<Self, B>)
        where B::Item: Clone
    { VZipPad { it: self.zip(b.chain(std::iter::repeat(pad))) } }
}
impl<A: Iterator, B: Iterator> Iterator for VZipPad<A, B> where B::Item: Clone {
    type Item = (A::Item, B::Item);
    #[verifier::external_body]
    fn next(&mut self) -> (r: Option<(A::Item, B::Item)>) { self.it.next() }
}
impl<A: Iterator, B: Iterator> IteratorSpecImpl for VZipPad<A, B> where B::Item: Clone {
    open spec fn obeys_prophetic_iter_laws(&self) -> bool { true }
    #[verifier::prophetic]
    open spec fn remaining(&self) -> Seq<(A::Item, B::Item)> { vzip_remaining(self) }
    #[verifier::prophetic]
    open spec fn will_return_none(&self) -> bool { true }
    open spec fn decrease(&self) -> Option<nat> { Some(vzip_remaining(self).len()) }
    open spec fn peek(&self, i: int) -> Option<(A::Item, B::Item)> {
        if 0 <= i < vzip_remaining(self).len() { Some(vzip_remaining(self)[i]) } else { None }
    }
}
//# assumes: str::is_empty / str::len / as_bytes agree with the UTF-8 byte sequence str_bytes
#[verifier::external_body]
pub fn verif_str_is_empty(s: &str) -> (r: bool) ensures r == (str_bytes(s).len() == 0) { s.is_empty() }
#[verifier::external_body]
pub fn verif_str_len(s: &str) -> (r: usize) ensures r == str_bytes(s).len() { s.len() }
#[verifier::external_body]
pub fn verif_str_as_bytes<'a>(s: &'a str) -> (r: &'a [u8]) ensures r@ == str_bytes(s) { s.as_bytes() }
