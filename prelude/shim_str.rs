// ---- trusted: str / Option helpers from std without a vstd specification (postfix extension traits) ----
//# assumes: str::starts_with(char|&str), str::ends_with(char), str::strip_suffix(char), Option<Arc<str>>::as_deref, Option::filter behave as documented in std (stated over Seq<char>)
pub open spec fn seq_starts_with<T>(s: Seq<T>, p: Seq<T>) -> bool { s.len() >= p.len() && s.subrange(0, p.len() as int) == p }
pub trait VerifStrExt {
    fn verif_starts_with_char(&self, c: char) -> (r: bool)
        ensures r == (self.verif_view().len() > 0 && self.verif_view()[0] == c);
    fn verif_starts_with_str(&self, p: &str) -> (r: bool)
        ensures r == seq_starts_with(self.verif_view(), p@);
    fn verif_ends_with_char(&self, c: char) -> (r: bool)
        ensures r == (self.verif_view().len() > 0 && self.verif_view().last() == c);
    fn verif_strip_suffix_char(&self, c: char) -> (r: Option<&str>)
        ensures
            (self.verif_view().len() > 0 && self.verif_view().last() == c) ==> (r matches Some(p) && p@ == self.verif_view().drop_last()),
            !(self.verif_view().len() > 0 && self.verif_view().last() == c) ==> r is None;
    spec fn verif_view(&self) -> Seq<char>;
}
impl VerifStrExt for str {
    open spec fn verif_view(&self) -> Seq<char> { self@ }
    #[verifier::external_body]
    fn verif_starts_with_char(&self, c: char) -> (r: bool) { self.starts_with(c) }
    #[verifier::external_body]
    fn verif_starts_with_str(&self, p: &str) -> (r: bool) { self.starts_with(p) }
    #[verifier::external_body]
    fn verif_ends_with_char(&self, c: char) -> (r: bool) { self.ends_with(c) }
    #[verifier::external_body]
    fn verif_strip_suffix_char(&self, c: char) -> (r: Option<&str>) { self.strip_suffix(c) }
}
pub trait VerifOptArcStrExt {
    spec fn verif_opt_chars(&self) -> Option<Seq<char>>;
    fn verif_as_deref(&self) -> (r: Option<&str>)
        ensures
            self.verif_opt_chars() matches Some(cs) ==> (r matches Some(s) && s@ == cs),
            self.verif_opt_chars() is None ==> r is None;
}
impl VerifOptArcStrExt for Option<Arc<str>> {
    open spec fn verif_opt_chars(&self) -> Option<Seq<char>> { match self { Some(a) => Some(arc_chars(a)), None => None } }
    #[verifier::external_body]
    fn verif_as_deref(&self) -> (r: Option<&str>) { self.as_deref() }
}
pub trait VerifOptFilterExt<T>: Sized {
    spec fn verif_opt(self) -> Option<T>;
    fn verif_filter<P: FnOnce(&T) -> bool>(self, p: P) -> (r: Option<T>)
        requires self.verif_opt() matches Some(v) ==> call_requires(p, (&v,)),
        ensures
            self.verif_opt() matches Some(v) ==> ((r == Some(v) && call_ensures(p, (&v,), true)) || (r is None && call_ensures(p, (&v,), false))),
            self.verif_opt() is None ==> r is None;
}
impl<T> VerifOptFilterExt<T> for Option<T> {
    open spec fn verif_opt(self) -> Option<T> { self }
    #[verifier::external_body]
    fn verif_filter<P: FnOnce(&T) -> bool>(self, p: P) -> (r: Option<T>) { self.filter(p) }
}
pub trait VerifOptVecExt<T> {
    spec fn verif_opt_seq(&self) -> Option<Seq<T>>;
    fn verif_as_deref(&self) -> (r: Option<&[T]>)
        ensures
            self.verif_opt_seq() matches Some(s) ==> (r matches Some(sl) && sl@ == s),
            self.verif_opt_seq() is None ==> r is None;
}
impl<T> VerifOptVecExt<T> for Option<Vec<T>> {
    open spec fn verif_opt_seq(&self) -> Option<Seq<T>> { match self { Some(v) => Some(v@), None => None } }
    #[verifier::external_body]
    fn verif_as_deref(&self) -> (r: Option<&[T]>) { self.as_deref() }
}
