// ---- trusted shim: str::bytes() as an iterator over the string's UTF-8 bytes ----
//# assumes: `s.bytes()` yields exactly the byte sequence str_bytes(s), in order, then None
pub uninterp spec fn str_bytes(s: &str) -> Seq<u8>;

#[verifier::external_body]
pub struct VBytes<'a> { it: std::str::Bytes<'a> }

pub uninterp spec fn vbytes_remaining(b: &VBytes) -> Seq<u8>;

#[verifier::external_body]
pub fn verif_str_bytes<'a>(s: &'a str) -> (r: VBytes<'a>)
    ensures vbytes_remaining(&r) == str_bytes(s)
{ VBytes { it: s.bytes() } }

impl<'a> Iterator for VBytes<'a> {
    type Item = u8;
    #[verifier::external_body]
    fn next(&mut self) -> (r: Option<u8>)
    { self.it.next() }
}

impl<'a> IteratorSpecImpl for VBytes<'a> {
    open spec fn obeys_prophetic_iter_laws(&self) -> bool { true }
    #[verifier::prophetic]
    open spec fn remaining(&self) -> Seq<u8> { vbytes_remaining(self) }
    #[verifier::prophetic]
    open spec fn will_return_none(&self) -> bool { true }
    open spec fn decrease(&self) -> Option<nat> { Some(vbytes_remaining(self).len()) }
    open spec fn peek(&self, i: int) -> Option<u8> {
        if 0 <= i < vbytes_remaining(self).len() { Some(vbytes_remaining(self)[i]) } else { None }
    }
}

//# assumes: a str has no UTF-8 bytes exactly when it has no characters
#[verifier::external_body]
pub broadcast proof fn axiom_str_bytes_empty(s: &str)
    ensures (s@.len() == 0) <==> (#[trigger] str_bytes(s).len() == 0)
{}
