// ---- trusted shim: the bytes of a String are the bytes of the str with its characters ----
//# assumes: a str is its characters (two strs with the same characters are the same value), so the str a String derefs to is determined by the String's characters
pub uninterp spec fn str_of_chars(c: Seq<char>) -> &'static str;
#[verifier::external_body]
pub broadcast proof fn axiom_str_of_chars(q: &str)
    ensures #[trigger] str_of_chars(q@) == q
{}
//# assumes: every sequence of chars is the text of some str (Rust's str is any sequence of Unicode scalar values)
#[verifier::external_body]
pub broadcast proof fn axiom_chars_of_str(c: Seq<char>)
    ensures (#[trigger] str_of_chars(c))@ == c
{}
pub open spec fn string_bytes(s: String) -> Seq<u8> { str_bytes(str_of_chars(s@)) }
