// ---- trusted: String / Arc<str> operations of strip_prefixes ----
//# assumes: s.as_ref().to_string() copies the characters; String::push appends one; String::ends_with(char) tests the last character; (arc: Arc<str>).starts_with(&String) is a prefix test on the characters; arc[p.len()..].into() for a string p the text starts with is the text after p (the byte length of p is the UTF-8 offset of that boundary)
#[verifier::external_body]
pub fn verif_as_ref_to_string(s: &String) -> (r: String) ensures r@ == s@ { let r: &str = s.as_ref(); r.to_string() }
#[verifier::external_body]
pub fn verif_string_push(s: &mut String, c: char) ensures final(s)@ == old(s)@.push(c) { s.push(c) }
#[verifier::external_body]
pub fn verif_string_ends_with_char(s: &String, c: char) -> (r: bool) ensures r == (s@.len() > 0 && s@.last() == c) { s.ends_with(c) }
#[verifier::external_body]
pub fn verif_arc_starts_with(a: &Arc<str>, p: &String) -> (r: bool) ensures r == seq_starts_with(arc_chars(a), p@) { a.starts_with(p.as_str()) }
#[verifier::external_body]
pub fn verif_arc_after_prefix(a: &Arc<str>, p: &String) -> (r: Arc<str>)
    requires seq_starts_with(arc_chars(a), p@)
    ensures arc_chars(&r) == arc_chars(a).subrange(p@.len() as int, arc_chars(a).len() as int)
{ a[p.len()..].into() }
