// ---- trusted shim: v.get_mut(i).and_then(Option::take) ----
//# assumes: Vec<Option<T>>::get_mut(i).and_then(Option::take) moves the value out of slot i, leaving None there, when i is in range; gives None and leaves the vector as it was otherwise
#[verifier::external_body]
pub fn verif_take_at<T>(v: &mut Vec<Option<T>>, i: usize) -> (r: Option<T>)
    ensures
        i < old(v)@.len() ==> (r == old(v)@[i as int] && final(v)@ == old(v)@.update(i as int, None)),
        i >= old(v)@.len() ==> (r is None && final(v)@ == old(v)@),
{ v.get_mut(i).and_then(Option::take) }
