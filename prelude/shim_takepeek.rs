// ---- trusted shim: RevTokenIter.take(n).peekable() ----
//# assumes: Iterator::take(n).peekable() over the walker: `next` hands out a buffered item if `peek` stored one, otherwise calls the walker's next unless n calls were already made (then None, the walker untouched); `peek` buffers the item the same way and shows it; the walker's own next is the verified RevTokenIter::next (its contract rti_pre / rti_next_post is what each call is assumed to satisfy)
#[verifier::external_body]
pub struct VTakePeek<'view, 'map> { it: std::iter::Peekable<std::iter::Take<RevTokenIter<'view, 'map>>> }
#[verifier::external]
impl<'view, 'map> Iterator for RevTokenIter<'view, 'map> {
    type Item = (Token<'map>, Option<&'view str>);
    fn next(&mut self) -> Option<(Token<'map>, Option<&'view str>)> { RevTokenIter::next(self) }
}
impl<'view, 'map> VTakePeek<'view, 'map> {
    pub uninterp spec fn inner(&self) -> RevTokenIter<'view, 'map>;
    pub uninterp spec fn left(&self) -> nat;
    pub uninterp spec fn peeked(&self) -> Option<Option<(Token<'map>, Option<&'view str>)>>;
    #[verifier::external_body]
    pub fn next(&mut self) -> (r: Option<(Token<'map>, Option<&'view str>)>)
        requires old(self).peeked() is None && old(self).left() > 0 ==> rti_pre(&old(self).inner()),
        ensures
            old(self).peeked() matches Some(v) ==> r == v && final(self).peeked() is None && final(self).inner() == old(self).inner() && final(self).left() == old(self).left(),
            old(self).peeked() is None && old(self).left() == 0 ==> r is None && final(self).peeked() is None && final(self).inner() == old(self).inner() && final(self).left() == 0,
            old(self).peeked() is None && old(self).left() > 0 ==> final(self).peeked() is None && final(self).left() == old(self).left() - 1 && rti_next_post(&old(self).inner(), &final(self).inner(), r),
    { self.it.next() }
    #[verifier::external_body]
    pub fn peek(&mut self) -> (r: Option<&(Token<'map>, Option<&'view str>)>)
        requires old(self).peeked() is None && old(self).left() > 0 ==> rti_pre(&old(self).inner()),
        ensures
            final(self).peeked() matches Some(v) && (match v { Some(x) => r == Some(&x), None => r is None }),
            old(self).peeked() is Some ==> final(self).peeked() == old(self).peeked() && final(self).inner() == old(self).inner() && final(self).left() == old(self).left(),
            old(self).peeked() is None && old(self).left() == 0 ==> final(self).peeked() == Some(None::<(Token<'map>, Option<&'view str>)>) && final(self).inner() == old(self).inner() && final(self).left() == 0,
            old(self).peeked() is None && old(self).left() > 0 ==> final(self).left() == old(self).left() - 1 && (final(self).peeked() matches Some(v) && rti_next_post(&old(self).inner(), &final(self).inner(), v)),
    { std::iter::Peekable::peek(&mut self.it) }
}
#[verifier::external_body]
pub fn verif_take_peekable<'view, 'map>(it: RevTokenIter<'view, 'map>, n: usize) -> (r: VTakePeek<'view, 'map>)
    ensures r.inner() == it, r.left() == n, r.peeked() is None
{ VTakePeek { it: it.take(n).peekable() } }

