// ---- trusted shims: the bindings of decode_regular that unpack the raw document ----
//# assumes: Option<Vec<T>>::unwrap_or_default() is the vector or an empty one; Option<String>::unwrap_or_default() the string or an empty one; str::matches(&[',', ';'][..]).count() is at most the length of the string in bytes
#[verifier::external_body]
pub fn verif_vec_or_default<T>(o: Option<Vec<T>>) -> (r: Vec<T>)
    ensures o matches Some(v) ==> r == v, o is None ==> r@.len() == 0
{ o.unwrap_or_default() }
#[verifier::external_body]
pub fn verif_string_or_default(o: Option<String>) -> (r: String)
    ensures o matches Some(s) ==> r == s, o is None ==> r@.len() == 0
{ o.unwrap_or_default() }
#[verifier::external_body]
pub fn verif_count_separators(s: &String) -> (r: usize)
    ensures r <= string_bytes(*s).len()
{ s.matches(&[',', ';'][..]).count() }
