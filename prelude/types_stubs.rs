// ---- trusted: opaque dependency / out-of-scope types that occur as fields ----
//# assumes: debugid::DebugId is an opaque Copy value; sourceview::SourceView is an opaque holder of one source text (sv_text)
#[verifier::external_body]
#[derive(Copy, Clone)]
pub struct DebugId { _x: [u8; 32] }

#[verifier::external_body]
pub struct SourceView { _x: Arc<str> }
pub uninterp spec fn sv_text(sv: &SourceView) -> Seq<char>;
impl SourceView {
    #[verifier::external_body]
    pub fn new(source: Arc<str>) -> (r: SourceView)
        ensures sv_text(&r) == arc_chars(&source)
    { unimplemented!() }
    #[verifier::external_body]
    pub fn from_string(source: String) -> (r: SourceView)
        ensures sv_text(&r) == source@
    { unimplemented!() }
    #[verifier::external_body]
    pub fn source(&self) -> (r: &str)
        ensures r@ == sv_text(self)
    { unimplemented!() }
}
impl Clone for SourceView {
    #[verifier::external_body]
    fn clone(&self) -> (r: SourceView)
        ensures sv_text(&r) == sv_text(self)
    { unimplemented!() }
}
