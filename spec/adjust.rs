// The sweep of adjust_mappings (C10): one token per non-empty overlap of an original stretch with an adjustment stretch,
// written from the property statement.  Stretches are half-open intervals [start, end) of positions (line, column), ordered
// lexicographically; `stretch_post` (ranges.rs) says what the stretch lists of the two maps are.
pub open spec fn tlt(a: (u32,u32), b: (u32,u32)) -> bool { !tle(b, a) }
pub open spec fn max_pos(a: (u32, u32), b: (u32, u32)) -> (u32, u32) { if tle(a, b) { b } else { a } }
pub open spec fn dkey(t: RawToken) -> (u32, u32) { (t.dst_line, t.dst_col) }
pub open spec fn skey(t: RawToken) -> (u32, u32) { (t.src_line, t.src_col) }
/// the overlap of two stretches is [ov_start, ov_end); it is non-empty when ov_start < ov_end
pub open spec fn ov_start(o: Range, a: Range) -> (u32, u32) { max_pos(o.start, a.start) }
pub open spec fn ov_end(o: Range, a: Range) -> (u32, u32) { min_pos(o.end, a.end) }
pub open spec fn overlaps(o: Range, a: Range) -> bool { tlt(ov_start(o, a), ov_end(o, a)) }
/// C10: the token for one overlap sits at the start of the overlap moved by the adjustment token's generated-minus-original
/// displacement and carries the original token's source, original position, name and range flag
pub open spec fn composed(o: Range, a: Range) -> RawToken {
    let s = ov_start(o, a);
    RawToken {
        dst_line: (s.0 + a.value.dst_line - a.value.src_line) as u32,
        dst_col: (s.1 + a.value.dst_col - a.value.src_col) as u32,
        src_line: o.value.src_line, src_col: o.value.src_col, src_id: o.value.src_id, name_id: o.value.name_id, is_range: o.value.is_range,
    }
}
/// the tokens one adjustment stretch produces from the first n original stretches
pub open spec fn row(os: Seq<Range>, a: Range, n: int) -> Seq<RawToken> decreases n {
    if n <= 0 { Seq::empty() } else if overlaps(os[n - 1], a) { row(os, a, n - 1).push(composed(os[n - 1], a)) } else { row(os, a, n - 1) }
}
/// one token per non-empty overlap, for the first m adjustment stretches
pub open spec fn rows(os: Seq<Range>, ads: Seq<Range>, m: int) -> Seq<RawToken> decreases m {
    if m <= 0 { Seq::empty() } else { rows(os, ads, m - 1) + row(os, ads[m - 1], os.len() as int) }
}
pub open spec fn all_nonempty(rs: Seq<Range>) -> bool { forall|i: int| 0 <= i < rs.len() ==> tlt(#[trigger] rs[i].start, rs[i].end) }
/// what stretch_post gives, in the form the sweep needs: starts are the keys, a stretch stays on its line, and ends where a later one starts at the latest
pub open spec fn chain(rs: Seq<Range>, kf: spec_fn(RawToken) -> (u32, u32)) -> bool {
    &&& forall|i: int| 0 <= i < rs.len() ==> (#[trigger] rs[i]).start == kf(rs[i].value) && tle(rs[i].start, rs[i].end) && rs[i].end.0 == rs[i].start.0
    &&& forall|i: int, j: int| 0 <= i < j < rs.len() ==> tle(#[trigger] rs[i].end, #[trigger] rs[j].start)
}
pub open spec fn small(p: (u32, u32)) -> bool { p.0 < 0x4000_0000 && p.1 < 0x4000_0000 }
pub open spec fn small_tokens_dst(ts: Seq<RawToken>) -> bool { forall|i: int| 0 <= i < ts.len() ==> small(dkey(#[trigger] ts[i])) }
pub open spec fn small_tokens_src(ts: Seq<RawToken>) -> bool { forall|i: int| 0 <= i < ts.len() ==> small(skey(#[trigger] ts[i])) }
pub open spec fn small_ranges(rs: Seq<Range>) -> bool { forall|i: int| 0 <= i < rs.len() ==> small((#[trigger] rs[i]).start) && small(dkey(rs[i].value)) }
pub open spec fn frame_eq(a: &SourceMap, b: &SourceMap) -> bool {
    a.file == b.file && a.names == b.names && a.source_root == b.source_root && a.sources == b.sources && a.sources_prefixed == b.sources_prefixed
        && a.sources_content == b.sources_content && a.ignore_list == b.ignore_list && a.debug_id == b.debug_id
}
/// what a hand-advanced slice iterator still has to deliver is the tail of the list it runs over
pub open spec fn is_tail(rest: Seq<Range>, all: Seq<Range>) -> bool {
    rest.len() <= all.len() && forall|k: int| 0 <= k < rest.len() ==> #[trigger] rest[k] == all[all.len() - rest.len() + k]
}
/// C10's statement for the whole call: for the stretch lists of the two maps, the result is (as a multiset; the order is the
/// final sort's) one composed token per non-empty overlap -- stated where every stretch is non-empty (known finding D10 otherwise)
pub open spec fn adjust_post(old_tokens: Seq<RawToken>, adj_tokens: Seq<RawToken>, out: Seq<RawToken>) -> bool {
    exists|os: Seq<Range>, ads: Seq<Range>| #![trigger rows(os, ads, ads.len() as int)]
        stretch_post(os, old_tokens, |t: RawToken| dkey(t)) && stretch_post(ads, adj_tokens, |t: RawToken| skey(t))
        && (all_nonempty(os) && all_nonempty(ads) ==> out.to_multiset() == rows(os, ads, ads.len() as int).to_multiset())
}

//@ lemma_chain [C10]
pub proof fn lemma_chain(rs: Seq<Range>, toks: Seq<RawToken>, kf: spec_fn(RawToken) -> (u32, u32))
    requires stretch_post(rs, toks, kf),
    ensures chain(rs, kf),
{
    lemma_tuple_ord_laws();
    let vals = range_values(rs);
    assert forall|i: int| 0 <= i < rs.len() implies (#[trigger] rs[i]).start == kf(rs[i].value) && tle(rs[i].start, rs[i].end) && rs[i].end.0 == rs[i].start.0 by {
        assert(stretch_ok(rs, vals, kf, i));
        if i + 1 < rs.len() { assert(le(kf(vals[i]), kf(vals[i + 1]))); }
    }
    assert forall|i: int, j: int| 0 <= i < j < rs.len() implies tle(#[trigger] rs[i].end, #[trigger] rs[j].start) by {
        assert(stretch_ok(rs, vals, kf, i));
        assert(stretch_ok(rs, vals, kf, j));
        assert(le(kf(vals[i + 1]), kf(vals[j])));
    }
}
//@ lemma_small_ranges [C10]
pub proof fn lemma_small_ranges(rs: Seq<Range>, toks: Seq<RawToken>, kf: spec_fn(RawToken) -> (u32, u32))
    requires stretch_post(rs, toks, kf), forall|i: int| 0 <= i < toks.len() ==> small(kf(#[trigger] toks[i])) && small(dkey(toks[i])),
    ensures small_ranges(rs),
{
    assert forall|i: int| 0 <= i < rs.len() implies small((#[trigger] rs[i]).start) && small(dkey(rs[i].value)) by {
        let vals = range_values(rs);
        assert(stretch_ok(rs, vals, kf, i));
        assert(vals.to_multiset().count(vals[i]) > 0) by { vals.to_multiset_ensures(); assert(vals.contains(vals[i])); }
        toks.to_multiset_ensures();
        assert(toks.contains(vals[i]));
    }
}
//@ lemma_row_none [C10]
pub proof fn lemma_row_none(os: Seq<Range>, a: Range, k: int)
    requires 0 <= k <= os.len(), forall|i: int| 0 <= i < k ==> !overlaps(#[trigger] os[i], a),
    ensures row(os, a, k) == Seq::<RawToken>::empty(),
    decreases k,
{
    if k > 0 { lemma_row_none(os, a, k - 1); }
}
//@ lemma_row_rest [C10]
pub proof fn lemma_row_rest(os: Seq<Range>, a: Range, k: int, n: int)
    requires 0 <= k <= n <= os.len(), forall|i: int| k <= i < n ==> !overlaps(#[trigger] os[i], a),
    ensures row(os, a, n) == row(os, a, k),
    decreases n - k,
{
    if n > k { lemma_row_rest(os, a, k, n - 1); }
}
//@ lemma_rows_rest [C10]
pub proof fn lemma_rows_rest(os: Seq<Range>, ads: Seq<Range>, j: int, m: int)
    requires 0 <= j <= m <= ads.len(), forall|i: int, jj: int| 0 <= i < os.len() && j <= jj < m ==> !overlaps(#[trigger] os[i], #[trigger] ads[jj]),
    ensures rows(os, ads, m) == rows(os, ads, j),
    decreases m - j,
{
    if m > j {
        lemma_rows_rest(os, ads, j, m - 1);
        lemma_row_none(os, ads[m - 1], os.len() as int);
        assert(rows(os, ads, m - 1) + Seq::<RawToken>::empty() =~= rows(os, ads, m - 1));
    }
}
// A witness that the statement is not vacuous: two original stretches on one line against one adjustment stretch that starts inside the first
//@ lemma_adjust_witness [C10]
pub proof fn lemma_adjust_witness()
{
    let t = |l: u32, c: u32, sl: u32, sc: u32| RawToken { dst_line: l, dst_col: c, src_line: sl, src_col: sc, src_id: 0, name_id: 0, is_range: false };
    let o0 = Range { start: (0, 0), end: (0, 5), value: t(0, 0, 7, 7) };
    let o1 = Range { start: (0, 5), end: (0, u32::MAX), value: t(0, 5, 8, 8) };
    let a0 = Range { start: (0, 2), end: (0, u32::MAX), value: t(3, 10, 0, 2) };
    let os = seq![o0, o1];
    let ads = seq![a0];
    assert(overlaps(o0, a0) && overlaps(o1, a0));
    assert(composed(o0, a0) == t(3, 10, 7, 7));
    assert(composed(o1, a0) == t(3, 13, 8, 8));
    reveal_with_fuel(row, 3);
    reveal_with_fuel(rows, 2);
    assert(rows(os, ads, 1) =~= seq![t(3, 10, 7, 7), t(3, 13, 8, 8)]);
}
/// index of the stretch a hand-advanced iterator delivered last
pub open spec fn cidx(all: Seq<Range>, rest: Seq<Range>) -> int { all.len() - rest.len() - 1 }
pub open spec fn distinct_keys(ts: Seq<RawToken>, kf: spec_fn(RawToken) -> (u32, u32)) -> bool {
    forall|i: int, j: int| 0 <= i < j < ts.len() ==> kf(#[trigger] ts[i]) != kf(#[trigger] ts[j])
}
//@ lemma_two_occurrences [C10]
pub proof fn lemma_two_occurrences<T>(s: Seq<T>, x: T)
    requires s.to_multiset().count(x) >= 2
    ensures exists|p: int, q: int| 0 <= p < q < s.len() && s[p] == x && s[q] == x
{
    broadcast use vstd::seq_lib::group_to_multiset_ensures;
    assert(s.contains(x));
    let p = choose|p: int| 0 <= p < s.len() && s[p] == x;
    let r = s.remove(p);
    assert(r.to_multiset() =~= s.to_multiset().remove(x));
    assert(r.to_multiset().count(x) >= 1);
    assert(r.contains(x));
    let q0 = choose|q0: int| 0 <= q0 < r.len() && r[q0] == x;
    let q = if q0 < p { q0 } else { q0 + 1 };
    assert(s[q] == x);
    if q < p { assert(0 <= q < p < s.len() && s[q] == x && s[p] == x); } else { assert(0 <= p < q < s.len() && s[p] == x && s[q] == x); }
}
//@ lemma_permutation_keeps_keys_distinct [C10]
pub proof fn lemma_permutation_keeps_keys_distinct(vals: Seq<RawToken>, toks: Seq<RawToken>, kf: spec_fn(RawToken) -> (u32, u32))
    requires vals.to_multiset() == toks.to_multiset(), distinct_keys(toks, kf)
    ensures distinct_keys(vals, kf)
{
    broadcast use vstd::seq_lib::group_to_multiset_ensures;
    assert forall|i: int, j: int| 0 <= i < j < vals.len() implies kf(#[trigger] vals[i]) != kf(#[trigger] vals[j]) by {
        let x = vals[i]; let y = vals[j];
        vals.to_multiset_ensures(); toks.to_multiset_ensures();
        assert(vals.contains(x) && vals.contains(y));
        assert(vals.to_multiset().count(x) > 0 && vals.to_multiset().count(y) > 0);
        if kf(x) == kf(y) {
            if x == y {
                let r = vals.remove(i);
                assert(r.to_multiset() =~= vals.to_multiset().remove(x));
                assert(r[j - 1] == y);
                assert(r.contains(y));
                r.to_multiset_ensures();
                assert(r.to_multiset().count(x) >= 1);
                assert(vals.to_multiset().count(x) >= 2);
                lemma_two_occurrences(toks, x);
            } else {
                assert(toks.contains(x) && toks.contains(y));
                let p = choose|p: int| 0 <= p < toks.len() && toks[p] == x;
                let q = choose|q: int| 0 <= q < toks.len() && toks[q] == y;
                if p < q { assert(kf(toks[p]) != kf(toks[q])); } else { assert(kf(toks[q]) != kf(toks[p])); }
            }
        }
    }
}
//@ lemma_distinct_positions_give_nonempty_stretches [C10]
/// distinct positions (and no column u32::MAX) make every stretch non-empty
pub proof fn lemma_distinct_positions_give_nonempty_stretches(rs: Seq<Range>, toks: Seq<RawToken>, kf: spec_fn(RawToken) -> (u32, u32))
    requires stretch_post(rs, toks, kf), distinct_keys(toks, kf), forall|i: int| 0 <= i < toks.len() ==> kf(#[trigger] toks[i]).1 < u32::MAX
    ensures all_nonempty(rs)
{
    broadcast use vstd::seq_lib::group_to_multiset_ensures;
    lemma_tuple_ord_laws();
    let vals = range_values(rs);
    lemma_permutation_keeps_keys_distinct(vals, toks, kf);
    assert forall|i: int| 0 <= i < rs.len() implies tlt(#[trigger] rs[i].start, rs[i].end) by {
        assert(stretch_ok(rs, vals, kf, i));
        assert(vals.contains(vals[i]));
        vals.to_multiset_ensures(); toks.to_multiset_ensures();
        assert(vals.to_multiset().count(vals[i]) > 0);
        assert(toks.contains(vals[i]));
        if i + 1 < rs.len() { assert(le(kf(vals[i]), kf(vals[i + 1]))); assert(kf(vals[i]) != kf(vals[i + 1])); }
    }
}


/// C10's statement for maps without coinciding positions: exactly one composed token per non-empty overlap
pub open spec fn adjust_post_strict(old_tokens: Seq<RawToken>, adj_tokens: Seq<RawToken>, out: Seq<RawToken>) -> bool {
    exists|os: Seq<Range>, ads: Seq<Range>| #![trigger rows(os, ads, ads.len() as int)]
        stretch_post(os, old_tokens, |t: RawToken| dkey(t)) && stretch_post(ads, adj_tokens, |t: RawToken| skey(t))
        && out.to_multiset() == rows(os, ads, ads.len() as int).to_multiset()
}
