// C08, third sentence: "whenever [a lookup on the index map] finds a token the flattened map finds the same original
// location there" -- a theorem over the two contracts (idx_lookup_post of u7_index, is_flat / flat_rel of u13_flatten),
// for index maps whose sections are regular or Hermes maps, start at strictly increasing offsets, hold tokens at
// distinct generated positions and keep them before the next section's offset (the property's quantifier).

pub open spec fn ile(a: (int, int), b: (int, int)) -> bool { a.0 < b.0 || (a.0 == b.0 && a.1 <= b.1) }
pub open spec fn ilt(a: (int, int), b: (int, int)) -> bool { a.0 < b.0 || (a.0 == b.0 && a.1 < b.1) }
pub open spec fn ik(k: (u32, u32)) -> (int, int) { (k.0 as int, k.1 as int) }
/// a generated position moved by a section offset: down by the line offset, right by the column offset on line 0 only
pub open spec fn shift_key(k: (u32, u32), off: (u32, u32)) -> (int, int) { (k.0 + off.0, if k.0 == 0 { k.1 + off.1 } else { k.1 as int }) }

pub proof fn lemma_shift_ge(k: (u32, u32), off: (u32, u32))
    ensures ile(ik(off), shift_key(k, off))
{}
/// for a position at or after the offset: the moved key is not after the position iff the key is not after the relative position
pub proof fn lemma_shift_le_iff(k: (u32, u32), off: (u32, u32), line: u32, col: u32)
    requires tle(off, (line, col))
    ensures ile(shift_key(k, off), ik((line, col))) <==> tle(k, (rel_line(line, off) as u32, rel_col(line, col, off) as u32)),
        0 <= rel_line(line, off) && 0 <= rel_col(line, col, off),
{}
pub proof fn lemma_shift_mono(a: (u32, u32), b: (u32, u32), off: (u32, u32))
    ensures tle(a, b) ==> ile(shift_key(a, off), shift_key(b, off)), shift_key(a, off) == shift_key(b, off) ==> a == b,
{}

/// the sections are plain maps (regular, or the inner map of a Hermes map) and `maps` lists them
pub open spec fn plain_sections(idx: SourceMapIndex, maps: Seq<SourceMap>) -> bool {
    maps.len() == idx.sections@.len()
    && forall|i: int| 0 <= i < idx.sections@.len() ==> plain_map(#[trigger] idx.sections@[i]) == Some(maps[i])
}
/// the property's quantifier: offsets strictly increasing; within a section strictly increasing generated positions;
/// every moved token before the next section's offset
pub open spec fn proper_sections(idx: SourceMapIndex, maps: Seq<SourceMap>) -> bool {
    &&& forall|i: int, j: int| 0 <= i < j < idx.sections@.len() ==> !tle(#[trigger] sec_key(idx.sections@[j]), #[trigger] sec_key(idx.sections@[i]))
    &&& forall|i: int, a: int, b: int| 0 <= i < maps.len() && 0 <= a < b < maps[i].tokens@.len() ==> !tle(#[trigger] tkey(maps[i].tokens@[b]), #[trigger] tkey(maps[i].tokens@[a]))
    &&& forall|i: int, a: int| 0 <= i && i + 1 < maps.len() && 0 <= a < maps[i].tokens@.len() ==>
            ilt(shift_key(#[trigger] tkey(maps[i].tokens@[a]), idx.sections@[i].offset), ik(sec_key(idx.sections@[i + 1])))
}
/// position of token j of section i in the flattening order
pub proof fn lemma_origins_pos(maps: Seq<SourceMap>, n: int, i: int, j: int)
    requires 0 <= i < n <= maps.len(), 0 <= j < maps[i].tokens@.len()
    ensures origins(maps, i).len() + j < origins(maps, n).len(), origins(maps, n)[origins(maps, i).len() + j] == (i, j)
    decreases n
{
    if i == n - 1 {
        assert(origins(maps, n) == origins(maps, n - 1) + Seq::new(maps[n - 1].tokens@.len(), |jj: int| (n - 1, jj)));
    } else {
        lemma_origins_pos(maps, n - 1, i, j);
        lemma_origins_prefix_index(maps, n, origins(maps, i).len() + j);
    }
}
/// and back: every position is the position of its origin
pub proof fn lemma_origins_inv(maps: Seq<SourceMap>, n: int, p: int)
    requires 0 <= n <= maps.len(), 0 <= p < origins(maps, n).len()
    ensures ({ let o = origins(maps, n)[p]; 0 <= o.0 < n && 0 <= o.1 < maps[o.0].tokens@.len() && p == origins(maps, o.0).len() + o.1 })
    decreases n
{
    if n > 0 {
        if p < origins(maps, n - 1).len() {
            lemma_origins_prefix_index(maps, n, p);
            lemma_origins_inv(maps, n - 1, p);
        }
    }
}
/// the original location a lookup answer points to: original line, column (advanced inside a range token), source and name
pub open spec fn same_loc<'a, 'b>(a: Token<'a>, b: Token<'b>) -> bool {
    a.raw.src_line == b.raw.src_line && a.raw.src_col == b.raw.src_col && a.offset == b.offset && a.raw.is_range == b.raw.is_range
        && tok_source(a.sm, *a.raw) == tok_source(b.sm, *b.raw) && tok_name(a.sm, *a.raw) == tok_name(b.sm, *b.raw)
}
pub open spec fn seq_has(s: Seq<RawToken>, x: RawToken) -> bool { exists|m: int| 0 <= m < s.len() && s[m] == x }
pub proof fn lemma_multiset_members(a: Seq<RawToken>, b: Seq<RawToken>)
    requires a.to_multiset() == b.to_multiset()
    ensures forall|x: RawToken| #[trigger] seq_has(a, x) <==> seq_has(b, x)
{
    a.to_multiset_ensures();
    b.to_multiset_ensures();
    assert forall|x: RawToken| #[trigger] seq_has(a, x) <==> seq_has(b, x) by {
        if seq_has(a, x) { let m = choose|m: int| 0 <= m < a.len() && a[m] == x; assert(a.contains(x)); assert(b.to_multiset().count(x) > 0); assert(b.contains(x)); let m2 = choose|m2: int| 0 <= m2 < b.len() && b[m2] == x; }
        if seq_has(b, x) { let m = choose|m: int| 0 <= m < b.len() && b[m] == x; assert(b.contains(x)); assert(a.to_multiset().count(x) > 0); assert(a.contains(x)); let m2 = choose|m2: int| 0 <= m2 < a.len() && a[m2] == x; }
    }
}

/// the section p in which a position resolves: its offset is the greatest one not after the position (and the relative position is not negative)
pub open spec fn resolves_in(idx: SourceMapIndex, line: u32, col: u32, p: int) -> bool {
    0 <= p < idx.sections@.len()
    && tle(sec_key(idx.sections@[p]), (line, col))
    && (forall|i: int| 0 <= i < idx.sections@.len() && tle(#[trigger] sec_key(idx.sections@[i]), (line, col)) ==> tle(sec_key(idx.sections@[i]), sec_key(idx.sections@[p])))
    && 0 <= rel_line(line, idx.sections@[p].offset) && 0 <= rel_col(line, col, idx.sections@[p].offset)
}
//@ lemma_agree_core [C08]
/// THE CORE: if the position resolves in section p, and `t` answers the lookup of that section's map (maps[p]) at the section-relative position, then any answer of the
/// flattened map's lookup at the absolute position points to the same original location as `t`.
pub proof fn lemma_agree_core<'a, 'b>(idx: &SourceMapIndex, out: &'b SourceMap, maps: Seq<SourceMap>, bts: Seq<RawToken>, line: u32, col: u32, p: int, t: Token<'a>, rf: Option<Token<'b>>)
    requires
        maps.len() == idx.sections@.len(), proper_sections(*idx, maps),
        flat_rel(sec_offsets(*idx), maps, bts, *out),
        resolves_in(*idx, line, col, p),
        sm_lookup_post(&maps[p], rel_line(line, idx.sections@[p].offset) as u32, rel_col(line, col, idx.sections@[p].offset) as u32, Some(t)),
        sm_lookup_post(out, line, col, rf),
    ensures
        rf matches Some(t2) && same_loc(t2, t),
{
    let n = maps.len() as int;
    let orig = origins(maps, n);
    let off = idx.sections@[p].offset;
    let rl = rel_line(line, off) as u32; let rc = rel_col(line, col, off) as u32;
    let mp = maps[p];
    assert(sm_lookup_post(&mp, rl, rc, Some(t)));
    // 2. the token it found there
    let q = choose|q: int| 0 <= q < mp.tokens@.len() && t.raw == &#[trigger] mp.tokens@[q] && (tkey(mp.tokens@[q]) == (rl, rc) ==> (q == t.idx && forall|i: int| 0 <= i < q ==> #[trigger] tkey(mp.tokens@[i]) != (rl, rc)));
    let tok = mp.tokens@[q];
    assert(*t.raw == tok && t.sm == &mp);
    // 3. its position in the flattening order, and the moved token there
    lemma_origins_pos(maps, n, p, q);
    let pp = origins(maps, p).len() + q;
    assert(orig[pp] == (p, q));
    let bt = bts[pp];
    assert(sec_offsets(*idx)[p] == off);
    assert(flat_tok(out.sources@, out.names@, bt, &maps[orig[pp].0], maps[orig[pp].0].tokens@[orig[pp].1], sec_offsets(*idx)[orig[pp].0]));
    let kk = shift_key(tkey(tok), off);
    assert(ik(tkey(bt)) == kk);
    lemma_shift_le_iff(tkey(tok), off, line, col);
    lemma_shift_ge(tkey(tok), off);
    assert(ile(kk, ik((line, col))));
    // 4. every moved token not after the position is not after bt, and only bt has bt's key
    assert forall|p2: int| 0 <= p2 < bts.len() && ile(ik(tkey(#[trigger] bts[p2])), ik((line, col))) implies ile(ik(tkey(bts[p2])), kk) && (ik(tkey(bts[p2])) == kk ==> p2 == pp) by {
        lemma_origins_inv(maps, n, p2);
        let o = orig[p2];
        let i = o.0; let j = o.1;
        let tok2 = maps[i].tokens@[j];
        let off2 = idx.sections@[i].offset;
        assert(sec_offsets(*idx)[i] == off2);
        assert(flat_tok(out.sources@, out.names@, bts[p2], &maps[orig[p2].0], maps[orig[p2].0].tokens@[orig[p2].1], sec_offsets(*idx)[orig[p2].0]));
        let k2 = shift_key(tkey(tok2), off2);
        assert(ik(tkey(bts[p2])) == k2);
        lemma_shift_ge(tkey(tok2), off2);
        if i > p {
            // a later section starts after the position: its offset is not a lower bound (p is the greatest), so nothing of it is at or before the position
            assert(!tle(sec_key(idx.sections@[i]), sec_key(idx.sections@[p])));
            assert(!tle(sec_key(idx.sections@[i]), (line, col)));
            assert(false);
        } else if i < p {
            // an earlier section ends before the next offset, which is not after section p's
            assert(ilt(shift_key(tkey(maps[i].tokens@[j]), idx.sections@[i].offset), ik(sec_key(idx.sections@[i + 1]))));
            if i + 1 < p { assert(!tle(sec_key(idx.sections@[p]), sec_key(idx.sections@[i + 1]))); }
            assert(ilt(k2, kk));
        } else {
            lemma_shift_le_iff(tkey(tok2), off, line, col);
            assert(tle(tkey(tok2), (rl, rc)));
            assert(tle(tkey(mp.tokens@[j]), tkey(tok)));
            lemma_shift_mono(tkey(tok2), tkey(tok), off);
            if k2 == kk {
                assert(tkey(tok2) == tkey(tok));
                if j < q { assert(!tle(tkey(mp.tokens@[q]), tkey(mp.tokens@[j]))); }
                if q < j { assert(!tle(tkey(mp.tokens@[j]), tkey(mp.tokens@[q]))); }
                assert(j == q);
            }
        }
    }
    // 5. the finished map holds exactly the moved tokens
    lemma_multiset_members(out.tokens@, bts);
    assert(seq_has(bts, bt));
    assert(seq_has(out.tokens@, bt));
    let m0 = choose|m: int| 0 <= m < out.tokens@.len() && out.tokens@[m] == bt;
    assert(tle(tkey(out.tokens@[m0]), (line, col)));
    // 6. so the flattened lookup answers, and with bt
    assert(rf is Some);
    let t2 = rf->Some_0;
    let m2 = choose|m2: int| 0 <= m2 < out.tokens@.len() && t2.raw == &#[trigger] out.tokens@[m2] && (tkey(out.tokens@[m2]) == (line, col) ==> (m2 == t2.idx && forall|i: int| 0 <= i < m2 ==> #[trigger] tkey(out.tokens@[i]) != (line, col)));
    let x = out.tokens@[m2];
    assert(seq_has(out.tokens@, x));
    assert(seq_has(bts, x));
    let p3 = choose|p3: int| 0 <= p3 < bts.len() && bts[p3] == x;
    assert(tle(tkey(x), (line, col)));
    assert(tle(tkey(out.tokens@[m0]), tkey(*t2.raw)));
    assert(ile(kk, ik(tkey(x))));
    assert(ile(ik(tkey(bts[p3])), kk));
    assert(ik(tkey(bts[p3])) == kk);
    assert(p3 == pp);
    assert(*t2.raw == bt);
    // 7. same original location
    assert(t2.sm == out);
    assert(out.source_root is None);
    assert(flat_tok(out.sources@, out.names@, bt, &mp, tok, off));
    assert(t2.raw.src_line == t.raw.src_line && t2.raw.src_col == t.raw.src_col && t2.raw.is_range == t.raw.is_range);
    assert(t.offset == (if tok.is_range && tok.dst_line == rl { (rc - tok.dst_col) as u32 } else { 0u32 }));
    assert(t2.offset == (if bt.is_range && bt.dst_line == line { (col - bt.dst_col) as u32 } else { 0u32 }));
    assert(t2.offset == t.offset);
    assert(tok_source(out, bt) == tok_source(&mp, tok));
    assert(tok_name(out, bt) == tok_name(&mp, tok));
}
//@ lemma_index_lookup_agrees_with_flattened [C08]
/// THE AGREEMENT (sections that are regular or Hermes maps): under the property's quantifier, an answer Some(t) of the index lookup (its contract) and any answer rf
/// of the flattened map's lookup (its contract) at the same position point to the same original location.
pub proof fn lemma_index_lookup_agrees_with_flattened<'a, 'b>(idx: &'a SourceMapIndex, out: &'b SourceMap, maps: Seq<SourceMap>, bts: Seq<RawToken>, line: u32, col: u32, t: Token<'a>, rf: Option<Token<'b>>)
    requires
        plain_sections(*idx, maps), proper_sections(*idx, maps),
        flat_rel(sec_offsets(*idx), maps, bts, *out),
        idx_lookup_post(idx, line, col, Some(t)),
        sm_lookup_post(out, line, col, rf),
    ensures
        rf matches Some(t2) && same_loc(t2, t),
{
    let p = lemma_lookup_section(idx, line, col, t);
    assert(plain_map(idx.sections@[p]) == Some(maps[p]));
    lemma_agree_core(idx, out, maps, bts, line, col, p, t, rf);
}
/// the section the index lookup resolved in, with what its contract says about that section
pub proof fn lemma_lookup_section<'a>(idx: &'a SourceMapIndex, line: u32, col: u32, t: Token<'a>) -> (p: int)
    requires idx_lookup_post(idx, line, col, Some(t)),
    ensures resolves_in(*idx, line, col, p),
        (match idx.sections@[p].map {
            Some(m) => match *m {
                DecodedMap::Regular(sm) => sm_lookup_post(&sm, rel_line(line, idx.sections@[p].offset) as u32, rel_col(line, col, idx.sections@[p].offset) as u32, Some(t)),
                DecodedMap::Index(inner) => idx_lookup_post(&inner, rel_line(line, idx.sections@[p].offset) as u32, rel_col(line, col, idx.sections@[p].offset) as u32, Some(t)),
                DecodedMap::Hermes(h) => sm_lookup_post(&h.sm, rel_line(line, idx.sections@[p].offset) as u32, rel_col(line, col, idx.sections@[p].offset) as u32, Some(t)) },
            None => false }),
{
    assert(exists|i: int| 0 <= i < idx.sections@.len() && tle(#[trigger] sec_key(idx.sections@[i]), (line, col))) by {
        if forall|i: int| 0 <= i < idx.sections@.len() ==> !tle(#[trigger] sec_key(idx.sections@[i]), (line, col)) { assert(Some(t) is None); }
    }
    let p = choose|p: int| 0 <= p < idx.sections@.len()
        && tle(#[trigger] sec_key(idx.sections@[p]), (line, col))
        && (forall|i: int| 0 <= i < idx.sections@.len() && tle(#[trigger] sec_key(idx.sections@[i]), (line, col)) ==> tle(sec_key(idx.sections@[i]), sec_key(idx.sections@[p])))
        && 0 <= rel_line(line, idx.sections@[p].offset) && 0 <= rel_col(line, col, idx.sections@[p].offset)
        && (match idx.sections@[p].map {
                Some(m) => match *m {
                    DecodedMap::Regular(sm) => sm_lookup_post(&sm, rel_line(line, idx.sections@[p].offset) as u32, rel_col(line, col, idx.sections@[p].offset) as u32, Some(t)),
                    DecodedMap::Index(inner) => idx_lookup_post(&inner, rel_line(line, idx.sections@[p].offset) as u32, rel_col(line, col, idx.sections@[p].offset) as u32, Some(t)),
                    DecodedMap::Hermes(h) => sm_lookup_post(&h.sm, rel_line(line, idx.sections@[p].offset) as u32, rel_col(line, col, idx.sections@[p].offset) as u32, Some(t)) },
                None => Some(t) is None });
    p
}

// ---------------------------------------------------------------- nested index sections
/// a predicate that holds somewhere in [0, n) has a greatest and a least index where it holds
pub proof fn lemma_greatest_index(n: int, pr: spec_fn(int) -> bool) -> (m: int)
    requires exists|i: int| 0 <= i < n && #[trigger] pr(i)
    ensures 0 <= m < n && pr(m) && forall|i: int| m < i < n ==> !#[trigger] pr(i)
    decreases n
{
    if pr(n - 1) { n - 1 } else {
        assert(exists|i: int| 0 <= i < n - 1 && #[trigger] pr(i)) by { let i = choose|i: int| 0 <= i < n && #[trigger] pr(i); assert(i != n - 1); }
        lemma_greatest_index(n - 1, pr)
    }
}
pub proof fn lemma_least_index(n: int, pr: spec_fn(int) -> bool) -> (m: int)
    requires exists|i: int| 0 <= i < n && #[trigger] pr(i)
    ensures 0 <= m < n && pr(m) && forall|i: int| 0 <= i < m ==> !#[trigger] pr(i)
    decreases n
{
    let w = choose|i: int| 0 <= i < n && #[trigger] pr(i);
    if exists|i: int| 0 <= i < n - 1 && #[trigger] pr(i) { lemma_least_index(n - 1, pr) } else { assert(w == n - 1); n - 1 }
}
//@ lemma_lookup_answer_exists [C08]
/// the statement of lookup_token is satisfiable on every map whose tokens are ordered (an answer exists for every position)
pub proof fn lemma_lookup_answer_exists<'a>(sm: &'a SourceMap, line: u32, col: u32) -> (rf: Option<Token<'a>>)
    requires sorted_tokens(sm.tokens@), sm.tokens@.len() <= usize::MAX,
    ensures sm_lookup_post(sm, line, col, rf)
{
    let ts = sm.tokens@;
    let n = ts.len() as int;
    let pos = (line, col);
    if forall|i: int| 0 <= i < n ==> !tle(#[trigger] tkey(ts[i]), pos) {
        None
    } else {
        let le_pos = |i: int| tle(tkey(ts[i]), pos);
        assert(exists|i: int| 0 <= i < n && #[trigger] le_pos(i)) by { let i = choose|i: int| 0 <= i < n && tle(#[trigger] tkey(ts[i]), pos); assert(le_pos(i)); }
        let m = lemma_greatest_index(n, le_pos);
        let same = |i: int| tkey(ts[i]) == tkey(ts[m]);
        assert(same(m));
        let q = lemma_least_index(n, same);
        let raw = ts[q];
        let off: u32 = if raw.is_range && raw.dst_line == line { (col - raw.dst_col) as u32 } else { 0u32 };
        let t = Token { raw: &sm.tokens@[q], sm: sm, idx: q as usize, offset: off };
        assert(tle(tkey(ts[q]), pos));
        assert forall|i: int| 0 <= i < n && tle(#[trigger] tkey(ts[i]), pos) implies tle(tkey(ts[i]), tkey(ts[q])) by {
            assert(le_pos(i));
            if i > m { assert(!le_pos(i)); }
            assert(tle(tkey(ts[i]), tkey(ts[m])));
        }
        assert(tkey(ts[q]) == pos ==> forall|i: int| 0 <= i < q ==> #[trigger] tkey(ts[i]) != pos) by {
            if tkey(ts[q]) == pos { assert forall|i: int| 0 <= i < q implies #[trigger] tkey(ts[i]) != pos by { assert(!same(i)); } }
        }
        assert(0 <= q < sm.tokens@.len() && t.raw == &sm.tokens@[q]);
        Some(t)
    }
}
/// out is a flattening of idx, and at every level of nesting the sections are as the property quantifies them (offsets strictly increasing, distinct generated
/// positions inside a section, every moved token before the next offset)
pub open spec fn flat_proper(idx: SourceMapIndex, out: SourceMap) -> bool
    decreases idx
{
    exists|maps: Seq<SourceMap>, bts: Seq<RawToken>|
        maps.len() == idx.sections@.len()
        && (forall|i: int| 0 <= i < idx.sections@.len() ==> match (#[trigger] idx.sections@[i]).map {
            Some(b) => match *b {
                DecodedMap::Regular(sm) => maps[i] == sm,
                DecodedMap::Index(inner) => flat_proper(inner, maps[i]),
                DecodedMap::Hermes(h) => maps[i] == h.sm },
            None => false })
        && #[trigger] flat_rel(sec_offsets(idx), maps, bts, out)
        && proper_sections(idx, maps)
}
pub proof fn lemma_same_loc_trans(a: Token, b: Token, c: Token)
    requires same_loc(a, b), same_loc(b, c)
    ensures same_loc(a, c)
{}
//@ lemma_index_lookup_agrees_with_flattened_nested [C08]
/// THE AGREEMENT, nested index sections included: by induction over the nesting -- a nested section resolves (by the induction hypothesis) to the same original
/// location as the lookup on ITS flattening, which is the map the outer flattening was built from, so the core argument applies one level up.
pub proof fn lemma_index_lookup_agrees_with_flattened_nested<'a, 'b>(idx: &'a SourceMapIndex, out: &'b SourceMap, line: u32, col: u32, t: Token<'a>, rf: Option<Token<'b>>)
    requires
        flat_proper(*idx, *out),
        idx_lookup_post(idx, line, col, Some(t)),
        sm_lookup_post(out, line, col, rf),
    ensures
        rf matches Some(t2) && same_loc(t2, t),
    decreases *idx
{
    let (maps, bts) = choose|maps: Seq<SourceMap>, bts: Seq<RawToken>|
        maps.len() == idx.sections@.len()
        && (forall|i: int| 0 <= i < idx.sections@.len() ==> match (#[trigger] idx.sections@[i]).map {
            Some(b) => match *b {
                DecodedMap::Regular(sm) => maps[i] == sm,
                DecodedMap::Index(inner) => flat_proper(inner, maps[i]),
                DecodedMap::Hermes(h) => maps[i] == h.sm },
            None => false })
        && #[trigger] flat_rel(sec_offsets(*idx), maps, bts, *out)
        && proper_sections(*idx, maps);
    let p = lemma_lookup_section(idx, line, col, t);
    let off = idx.sections@[p].offset;
    let rl = rel_line(line, off) as u32; let rc = rel_col(line, col, off) as u32;
    let sec = idx.sections@[p];
    match sec.map {
        Some(b) => match *b {
            DecodedMap::Regular(sm) => { assert(maps[p] == sm); lemma_agree_core(idx, out, maps, bts, line, col, p, t, rf); },
            DecodedMap::Hermes(h) => { assert(maps[p] == h.sm); lemma_agree_core(idx, out, maps, bts, line, col, p, t, rf); },
            DecodedMap::Index(inner) => {
                let mp = maps[p];
                assert(flat_proper(inner, mp));
                lemma_flat_proper_sorted(inner, mp);
                let rf1 = lemma_lookup_answer_exists(&mp, rl, rc);
                lemma_index_lookup_agrees_with_flattened_nested(&inner, &mp, rl, rc, t, rf1);
                let t1 = rf1->Some_0;
                lemma_agree_core(idx, out, maps, bts, line, col, p, t1, rf);
                lemma_same_loc_trans(rf->Some_0, t1, t);
            },
        },
        None => {},
    }
}
pub proof fn lemma_flat_proper_sorted(idx: SourceMapIndex, out: SourceMap)
    requires flat_proper(idx, out)
    ensures sorted_tokens(out.tokens@), out.tokens@.len() <= usize::MAX
{
    assert(out.tokens@.len() == out.tokens.len());
}
