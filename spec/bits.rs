/// bit i of a bit string, false beyond its end
pub open spec fn bit_at(bits: Seq<bool>, i: int) -> bool { if 0 <= i < bits.len() { bits[i] } else { false } }

/// the range bitfield of one line (C07): one base64 digit per six segments, least significant bit first
pub open spec fn rmi_bits(s: Seq<u8>) -> Seq<bool> {
    Seq::new(6 * s.len(), |j: int| bit_of(b64_index(s[j / 6]) as u8, j % 6))
}
pub open spec fn rmi_valid(s: Seq<u8>) -> bool { forall|i: int| 0 <= i < s.len() ==> b64_index(#[trigger] s[i]) >= 0 }

