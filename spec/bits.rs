/// bit i of a bit string, false beyond its end
pub open spec fn bit_at(bits: Seq<bool>, i: int) -> bool { if 0 <= i < bits.len() { bits[i] } else { false } }
