// The interning model of C13: a table of strings with ids = insertion index.
pub open spec fn interner_wf(map: Map<Arc<str>, u32>, n: nat) -> bool {
    &&& forall|k: Arc<str>| #[trigger] map.contains_key(k) ==> map[k] < n
    &&& forall|k1: Arc<str>, k2: Arc<str>| #![trigger map.contains_key(k1), map.contains_key(k2)] map.contains_key(k1) && map.contains_key(k2) && map[k1] == map[k2] ==> k1 == k2
}
/// string s is interned with id i
pub open spec fn has_id(map: Map<Arc<str>, u32>, s: Seq<char>, i: u32) -> bool {
    exists|k: Arc<str>| #[trigger] map.contains_key(k) && arc_chars(&k) == s && map[k] == i
}
pub open spec fn is_interned(map: Map<Arc<str>, u32>, s: Seq<char>) -> bool {
    exists|k: Arc<str>| #[trigger] map.contains_key(k) && arc_chars(&k) == s
}
pub open spec fn bwf(b: &SourceMapBuilder) -> bool {
    &&& interner_wf(b.source_map@, b.sources@.len())
    &&& interner_wf(b.name_map@, b.names@.len())
}
/// stated size assumption: ids are `len() as u32`, so the tables hold fewer than 2^32 - 16 entries
pub open spec fn small_sources(b: &SourceMapBuilder) -> bool { b.sources@.len() < 0xffff_fff0 }
pub open spec fn small_names(b: &SourceMapBuilder) -> bool { b.names@.len() < 0xffff_fff0 }
pub open spec fn small(b: &SourceMapBuilder) -> bool { small_sources(b) && small_names(b) }
/// table a is table b possibly extended at the end
pub open spec fn extends<T>(a: Seq<T>, b: Seq<T>) -> bool { a.len() >= b.len() && forall|i: int| 0 <= i < b.len() ==> #[trigger] a[i] == b[i] }
/// everything except the source table
pub open spec fn same_but_sources(a: &SourceMapBuilder, b: &SourceMapBuilder) -> bool {
    a.file == b.file && a.name_map == b.name_map && a.names == b.names && a.tokens == b.tokens && a.source_root == b.source_root
        && a.source_contents == b.source_contents && a.ignore_list == b.ignore_list && a.debug_id == b.debug_id
}
pub open spec fn same_but_names(a: &SourceMapBuilder, b: &SourceMapBuilder) -> bool {
    a.file == b.file && a.source_map == b.source_map && a.sources == b.sources && a.sources_mapping == b.sources_mapping && a.tokens == b.tokens
        && a.source_root == b.source_root && a.source_contents == b.source_contents && a.ignore_list == b.ignore_list && a.debug_id == b.debug_id
}
/// C13's statement for one add of a source string
pub open spec fn add_source_post(o: &SourceMapBuilder, f: &SourceMapBuilder, src: Seq<char>, old_id: u32, id: u32) -> bool {
    &&& same_but_sources(f, o)
    &&& has_id(f.source_map@, src, id)
    &&& (is_interned(o.source_map@, src) ==> has_id(o.source_map@, src, id) && f.source_map@ == o.source_map@ && f.sources@ == o.sources@ && f.sources_mapping@ == o.sources_mapping@)
    &&& (!is_interned(o.source_map@, src) ==> id == o.sources@.len()
            && f.source_map@.dom() == o.source_map@.dom().insert(choose|k: Arc<str>| f.source_map@.contains_key(k) && arc_chars(&k) == src && f.source_map@[k] == id)
            && (forall|k: Arc<str>| #[trigger] o.source_map@.contains_key(k) ==> f.source_map@[k] == o.source_map@[k])
            && f.sources@.len() == o.sources@.len() + 1 && arc_chars(&f.sources@.last()) == src && f.sources@.drop_last() == o.sources@
            && f.sources_mapping@ == o.sources_mapping@.push(old_id))
}
pub open spec fn add_name_post(o: &SourceMapBuilder, f: &SourceMapBuilder, name: Seq<char>, id: u32) -> bool {
    &&& same_but_names(f, o)
    &&& has_id(f.name_map@, name, id)
    &&& (is_interned(o.name_map@, name) ==> has_id(o.name_map@, name, id) && f.name_map@ == o.name_map@ && f.names@ == o.names@)
    &&& (!is_interned(o.name_map@, name) ==> id == o.names@.len()
            && (forall|k: Arc<str>| #[trigger] o.name_map@.contains_key(k) ==> f.name_map@.contains_key(k) && f.name_map@[k] == o.name_map@[k])
            && f.names@.len() == o.names@.len() + 1 && arc_chars(&f.names@.last()) == name && f.names@.drop_last() == o.names@)
}

/// the tables mirror the interning maps exactly: entry i is the string interned under id i, and every id is taken
pub open spec fn table_mirrors(map: Map<Arc<str>, u32>, table: Seq<Arc<str>>) -> bool {
    &&& forall|k: Arc<str>| #[trigger] map.contains_key(k) ==> map[k] < table.len() && arc_chars(&table[map[k] as int]) == arc_chars(&k)
    &&& forall|i: int| 0 <= i < table.len() ==> map.contains_key(#[trigger] table[i]) && map[table[i]] == i
}
/// full builder invariant while no name is rewritten in place (set_source / strip_prefixes are not used)
pub open spec fn bfull(b: &SourceMapBuilder) -> bool {
    bwf(b) && table_mirrors(b.source_map@, b.sources@) && table_mirrors(b.name_map@, b.names@)
}
/// under the full invariant an id names a string exactly when the table holds it there
pub proof fn lemma_has_id_iff(map: Map<Arc<str>, u32>, table: Seq<Arc<str>>, s: Seq<char>, i: u32)
    requires interner_wf(map, table.len()), table_mirrors(map, table)
    ensures has_id(map, s, i) <==> (i < table.len() && arc_chars(&table[i as int]) == s)
{
    if i < table.len() && arc_chars(&table[i as int]) == s {
        assert(map.contains_key(table[i as int]) && map[table[i as int]] == i);
    }
}
