// C02 / C06 / C07 / C01: decode_regular as a whole, over the raw document.
pub open spec fn vec_or_empty<T>(o: Option<Vec<T>>) -> Seq<T> { match o { Some(v) => v@, None => Seq::empty() } }
pub open spec fn bytes_or_empty(o: Option<String>) -> Seq<u8> { match o { Some(s) => string_bytes(s), None => Seq::empty() } }
/// what the document's mappings / rangeMappings strings read as, by the reference reader, over the document's own tables
pub open spec fn doc_mappings(rsm: RawSourceMap) -> DecOut {
    mappings_decode(bytes_or_empty(rsm.mappings), bytes_or_empty(rsm.range_mappings), vec_or_empty(rsm.sources).len() as int, vec_or_empty(rsm.names).len() as int)
}
/// sizes the proof needs: fewer than 2^32-1 sources and names, strings below 4 GiB
pub open spec fn doc_sizes_ok(rsm: RawSourceMap) -> bool {
    vec_or_empty(rsm.sources).len() < 0xffff_ffff && vec_or_empty(rsm.names).len() < 0xffff_ffff
    && bytes_or_empty(rsm.range_mappings).len() * 6 <= usize::MAX && bytes_or_empty(rsm.mappings).len() < 0xffff_fff0
}
/// C02's statement for decode_regular as one predicate (what decode_regular ensures clause by clause)
pub open spec fn decode_regular_post(rsm: RawSourceMap, res: Result<SourceMap>) -> bool {
    &&& (exists|toks: Seq<RawToken>| #![trigger dec_post(doc_mappings(rsm), res is Ok, toks)] dec_post(doc_mappings(rsm), res is Ok, toks)
            && (res matches Ok(sm) ==> (sorted_tokens(sm.tokens@) && sm.tokens@.to_multiset() == toks.to_multiset()
                && all_wf(toks, vec_or_empty(rsm.sources).len() as int, vec_or_empty(rsm.names).len() as int))))
    &&& (res matches Ok(sm) ==> (sm.sources@.len() == vec_or_empty(rsm.sources).len() && forall|i: int| 0 <= i < vec_or_empty(rsm.sources).len() ==>
            arc_chars(&#[trigger] sm.sources@[i]) == (match vec_or_empty(rsm.sources)[i] { Some(s) => s@, None => Seq::<char>::empty() })))
    &&& (res matches Ok(sm) ==> (sm.names@.len() == vec_or_empty(rsm.names).len() && forall|i: int| 0 <= i < vec_or_empty(rsm.names).len() ==>
            (match #[trigger] vec_or_empty(rsm.names)[i] { Value::String(s) => arc_chars(&sm.names@[i]) == s@, Value::Number(n) => arc_chars(&sm.names@[i]) == num_text(&n), _ => true })))
    &&& (res matches Ok(sm) ==> (match rsm.file { Some(Value::String(s)) => opt_chars(sm.file) == Some(s@), Some(_) => true, None => sm.file is None }))
    &&& (res matches Ok(sm) ==> sm.debug_id == (if rsm.debug_id is Some { rsm.debug_id } else { rsm._debug_id_new }))
    &&& (res matches Ok(sm) ==> (root_wf(&sm) && (match rsm.source_root { Some(v) => opt_chars(sm.source_root) == Some(v@), None => sm.source_root is None })))
    &&& (res matches Ok(sm) ==> (forall|x: u32| sm.ignore_list@.contains(x) <==> (rsm.ignore_list matches Some(l) && l@.contains(x))))
    &&& (res matches Ok(sm) ==> (match rsm.sources_content { Some(sc) => sm.sources_content@.len() == sc@.len() && forall|i: int| 0 <= i < sc@.len() ==>
                (match sc@[i] { Some(c) => (#[trigger] sm.sources_content@[i] matches Some(v) && sv_text(&v) == c@), None => sm.sources_content@[i] is None }),
            None => sm.sources_content@.len() == 0 }))
}
