// C18: the embedded-map loader and the detection predicate.
pub open spec fn ref_url(r: SourceMapRef) -> Seq<char> { match r { SourceMapRef::Ref(u) => u@, SourceMapRef::LegacyRef(u) => u@ } }
pub open spec fn is_data_url(u: Seq<char>) -> bool { u.len() >= 5 && u.subrange(0, 5) == "data:"@ }
// the reference comment: first line that begins with one of the two 21-character prefixes
pub open spec fn ref_line(cs: Seq<char>) -> bool { seq_starts_with(cs, "//# sourceMappingURL="@) || seq_starts_with(cs, "//@ sourceMappingURL="@) }
/// lines[k] is the first line that is an error or begins with a reference comment (k == lines.len(): there is none)
pub open spec fn first_ref_or_err(lines: Seq<std::io::Result<String>>, k: int) -> bool {
    0 <= k <= lines.len() && (forall|j: int| 0 <= j < k ==> (#[trigger] lines[j] matches Ok(l) && !ref_line(l@)))
        && (k < lines.len() ==> (lines[k] is Err || (lines[k] matches Ok(l) && ref_line(l@))))
}
pub open spec fn locate_post(lines: Seq<std::io::Result<String>>, res: Result<Option<SourceMapRef>>) -> bool {
    exists|k: int| #[trigger] first_ref_or_err(lines, k) && (
        (k == lines.len() && res matches Ok(None))
        || (k < lines.len() && lines[k] is Err && res is Err)
        || (k < lines.len() && (lines[k] matches Ok(l) && (res matches Ok(Some(r)) && trimmed_is(l@.subrange(21, l@.len() as int), ref_url(r)) && (r is LegacyRef <==> l@[2] == '@')))))
}
pub proof fn lemma_ascii_prefix_len(cs: Seq<char>, k: int)
    requires 0 <= k <= cs.len(), forall|j: int| 0 <= j < k ==> (#[trigger] cs[j] as u32) < 128
    ensures utf8_len(cs.subrange(0, k)) == k
    decreases k
{
    if k == 0 { assert(cs.subrange(0, 0) == Seq::<char>::empty()); }
    else { lemma_ascii_prefix_len(cs, k - 1); lemma_prefix_step(cs, k - 1); }
}
