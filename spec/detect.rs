// C18: the embedded-map loader and the detection predicate.
pub open spec fn ref_url(r: SourceMapRef) -> Seq<char> { match r { SourceMapRef::Ref(u) => u@, SourceMapRef::LegacyRef(u) => u@ } }
pub open spec fn is_data_url(u: Seq<char>) -> bool { u.len() >= 5 && u.subrange(0, 5) == "data:"@ }
/// the keys a serialised regular or Hermes map always has (version, sources, mappings), or those of an index map (version, sections)
pub open spec fn has_map_keys(m: MinimalRawSourceMap) -> bool {
    (m.version is Some && m.sources is Some && m.mappings is Some) || m.sections is Some
}
