// C18 / C12: the detection rule over the keys present in a document.
/// the keys a serialised regular or Hermes map always has (version, sources, mappings), or those of an index map (version, sections)
pub open spec fn has_map_keys(m: MinimalRawSourceMap) -> bool {
    (m.version is Some && m.sources is Some && m.mappings is Some) || m.sections is Some
}
/// the detection rule as the predicate applies it to the keys present
pub open spec fn detect_rule(m: MinimalRawSourceMap) -> bool {
    ((m.version is Some || m.file is Some) && ((m.sources is Some || m.source_root is Some || m.sources_content is Some || m.names is Some) && m.mappings is Some)) || m.sections is Some
}
