// C01 at the level of the raw document: what the writer's contract (raw_of_regular, u22) says about the document and what the
// reader's contract (decode_regular_post, u10) says about a document compose to "the map read back is the map written".
pub proof fn lemma_b64_char_ascii(d: int) requires 0 <= d ensures b64_char(d) < 128 {}
pub proof fn lemma_vlq_raw_enc_ascii(raw: int)
    ensures ascii(vlq_raw_enc(raw))
    decreases raw
{
    if raw < 32 { lemma_b64_char_ascii(if raw < 0 { 0 } else { raw }); }
    else {
        lemma_vlq_raw_enc_ascii(raw / 32);
        lemma_b64_char_ascii(raw % 32 + 32);
        let a = seq![b64_char(raw % 32 + 32)]; let b = vlq_raw_enc(raw / 32);
        assert forall|i: int| 0 <= i < (a + b).len() implies #[trigger] (a + b)[i] < 128 by { if i >= 1 { assert((a + b)[i] == b[i - 1]); } }
    }
}
pub proof fn lemma_ascii_add(a: Seq<u8>, b: Seq<u8>)
    requires ascii(a), ascii(b)
    ensures ascii(a + b)
{
    assert forall|i: int| 0 <= i < (a + b).len() implies #[trigger] (a + b)[i] < 128 by { if i >= a.len() { assert((a + b)[i] == b[i - a.len()]); } else { assert((a + b)[i] == a[i]); } }
}
pub proof fn lemma_enc_piece_ascii(ts: Seq<RawToken>, nnames: int, i: int, st: EncSt)
    requires 0 <= i < ts.len()
    ensures ascii(enc_piece(ts, nnames, i, st))
{
    let t = ts[i];
    if !is_dup(ts, i) {
        let sep = if t.dst_line != st.line { semis(t.dst_line - st.line) } else if i > 0 { seq![44u8] } else { seq![] };
        let col0 = if t.dst_line != st.line { 0 } else { st.col };
        lemma_semis_ascii(t.dst_line - st.line);
        lemma_vlq_raw_enc_ascii(vlq_raw(t.dst_col - col0));
        lemma_vlq_raw_enc_ascii(vlq_raw(t.src_id - st.src_id));
        lemma_vlq_raw_enc_ascii(vlq_raw(t.src_line - st.src_line));
        lemma_vlq_raw_enc_ascii(vlq_raw(t.src_col - st.src_col));
        lemma_vlq_raw_enc_ascii(vlq_raw(t.name_id - st.name_id));
        let f1 = vlq_enc(t.dst_col - col0);
        lemma_ascii_add(sep, f1);
        if tok_has_source(t) {
            let a = vlq_enc(t.src_id - st.src_id); let b = vlq_enc(t.src_line - st.src_line); let c = vlq_enc(t.src_col - st.src_col);
            let d = if tok_has_name(t, nnames) { vlq_enc(t.name_id - st.name_id) } else { seq![] };
            lemma_ascii_add(a, b); lemma_ascii_add(a + b, c); lemma_ascii_add(a + b + c, d);
            lemma_ascii_add(sep + f1, a + b + c + d);
        } else {
            lemma_ascii_add(sep + f1, seq![]);
        }
    }
}
pub proof fn lemma_enc_upto_ascii(ts: Seq<RawToken>, nnames: int, k: int)
    requires 0 <= k <= ts.len()
    ensures ascii(enc_upto(ts, nnames, k))
    decreases k
{
    if k > 0 {
        lemma_enc_upto_ascii(ts, nnames, k - 1);
        lemma_enc_piece_ascii(ts, nnames, k - 1, enc_st_after(ts, nnames, k - 1));
        lemma_ascii_add(enc_upto(ts, nnames, k - 1), enc_piece(ts, nnames, k - 1, enc_st_after(ts, nnames, k - 1)));
    }
}
pub proof fn lemma_rmi_out_ascii(ts: Seq<RawToken>, k: int)
    requires 0 <= k <= ts.len()
    ensures ascii(rmi_after(ts, k).out)
    decreases k
{
    if k > 0 {
        lemma_rmi_out_ascii(ts, k - 1);
        let st = rmi_after(ts, k - 1);
        let t = ts[k - 1];
        if t.dst_line != st.line {
            if has_true(st.flags) { lemma_digits_ascii(st.flags); }
            lemma_semis_ascii(t.dst_line - st.line);
            lemma_ascii_add(st.out, rmi_flush(st));
            lemma_ascii_add(st.out + rmi_flush(st), semis(t.dst_line - st.line));
        }
    }
}
pub proof fn lemma_rmi_text_ascii(ts: Seq<RawToken>)
    ensures ascii(rmi_text(ts))
{
    let st = rmi_after(ts, ts.len() as int);
    lemma_rmi_out_ascii(ts, ts.len() as int);
    if has_true(st.flags) { lemma_digits_ascii(st.flags); }
    lemma_ascii_add(st.out, rmi_flush(st));
}

/// the token part of "the same map": the list read back is the list written without exact consecutive duplicates, ordered
pub open spec fn same_tokens_modulo_duplicates(written: Seq<RawToken>, read: Seq<RawToken>) -> bool {
    exists|toks: Seq<RawToken>| #![trigger toks_equiv(dedup(written, written.len() as int), toks)]
        toks_equiv(dedup(written, written.len() as int), toks) && sorted_tokens(read) && read.to_multiset() == toks.to_multiset()
}
/// the rest of "the same map": sources, names, contents, file, root, debug id, ignore list
pub open spec fn same_tables(a: &SourceMap, b: &SourceMap) -> bool {
    &&& b.sources@.len() == a.sources@.len() && forall|i: int| 0 <= i < a.sources@.len() ==> arc_chars(&#[trigger] b.sources@[i]) == arc_chars(&a.sources@[i])
    &&& b.names@.len() == a.names@.len() && forall|i: int| 0 <= i < a.names@.len() ==> arc_chars(&#[trigger] b.names@[i]) == arc_chars(&a.names@[i])
    &&& opt_chars(b.file) == opt_chars(a.file) && opt_chars(b.source_root) == opt_chars(a.source_root) && b.debug_id == a.debug_id
    &&& (forall|x: u32| b.ignore_list@.contains(x) <==> a.ignore_list@.contains(x))
    &&& (forall|i: int| 0 <= i < a.sources@.len() ==> #[trigger] old_text_of(b, i) == old_text_of(a, i))
}
/// sizes under which the two contracts apply: tables below 2^32 - 1 entries, the written strings below 4 GiB
pub open spec fn doc_small(sm: &SourceMap) -> bool {
    sm.sources@.len() < 0xffff_ffff && sm.names@.len() < 0xffff_ffff
    && mappings_encode(sm.tokens@, sm.names@.len() as int).len() < 0xffff_fff0 && rmi_text(sm.tokens@).len() * 6 <= usize::MAX
}
//@ lemma_regular_document_roundtrip [C01 C03 C07]
/// THE ROUND TRIP of a regular map over the raw document: whatever document `as_raw_sourcemap` may return for `sm` (its contract raw_of_regular),
/// whatever `decode_regular` may return for that document (its contract decode_regular_post) is Ok(a map with the same tokens modulo exact
/// consecutive duplicates, range flags included, and the same tables) -- given that every token's source / name index resolves or is the "none" marker.
/// What is not in this theorem is serde carrying the document through its JSON text.
pub proof fn lemma_regular_document_roundtrip(sm: &SourceMap, raw: RawSourceMap, res: Result<SourceMap>)
    requires
        enc_wf_sm(sm), all_wf(sm.tokens@, sm.sources@.len() as int, sm.names@.len() as int), doc_small(sm),
        raw_of_regular(sm, raw),
        doc_sizes_ok(raw) ==> decode_regular_post(raw, res),
    ensures
        doc_sizes_ok(raw),
        res matches Ok(sm2) && same_tokens_modulo_duplicates(sm.tokens@, sm2.tokens@) && same_tables(sm, &sm2),
{
    broadcast use axiom_str_of_chars, axiom_chars_of_str;
    let ts = sm.tokens@;
    let nsrc = sm.sources@.len() as int;
    let nnames = sm.names@.len() as int;
    let me = mappings_encode(ts, nnames);
    lemma_enc_upto_ascii(ts, nnames, ts.len() as int);
    lemma_rmi_text_ascii(ts);
    // the two strings of the document, as bytes, are the reference texts
    let mstr = raw.mappings->0;
    assert(all_ascii(me));
    axiom_ascii_str_bytes(str_of_chars(mstr@), me);
    assert(bytes_or_empty(raw.mappings) == me);
    match rmi_encode(ts) {
        Some(s) => { let rstr = raw.range_mappings->0; assert(all_ascii(s)); axiom_ascii_str_bytes(str_of_chars(rstr@), s); assert(bytes_or_empty(raw.range_mappings) == rmi_text(ts)); }
        None => { assert(bytes_or_empty(raw.range_mappings) =~= rmi_text(ts)); }
    }
    assert(vec_or_empty(raw.sources).len() == nsrc && vec_or_empty(raw.names).len() == nnames);
    assert(doc_sizes_ok(raw));
    assert(doc_mappings(raw) == mappings_decode(me, rmi_text(ts), nsrc, nnames));
    lemma_document_roundtrip_with_ranges(ts, nsrc, nnames);
    let toks = choose|toks: Seq<RawToken>| #![trigger dec_post(doc_mappings(raw), res is Ok, toks)] dec_post(doc_mappings(raw), res is Ok, toks)
            && (res matches Ok(sm2) ==> (sorted_tokens(sm2.tokens@) && sm2.tokens@.to_multiset() == toks.to_multiset()
                && all_wf(toks, vec_or_empty(raw.sources).len() as int, vec_or_empty(raw.names).len() as int)));
    assert(res is Ok);
    let sm2 = res->Ok_0;
    let acc = doc_mappings(raw)->Good_0;
    // toks_equiv is transitive here: dedup(ts) ~ acc (reference round trip), toks ~ acc (the reader's contract)
    assert(toks_equiv(dedup(ts, ts.len() as int), toks)) by {
        assert forall|i: int| 0 <= i < toks.len() implies tok_equiv(#[trigger] dedup(ts, ts.len() as int)[i], toks[i]) by {
            assert(tok_equiv(dedup(ts, ts.len() as int)[i], acc[i]));
            assert(tok_equiv(toks[i], acc[i]));
        }
    }
    // tables
    assert forall|i: int| 0 <= i < nsrc implies arc_chars(&#[trigger] sm2.sources@[i]) == arc_chars(&sm.sources@[i]) by {
        assert(vec_or_empty(raw.sources)[i] matches Some(s) && s@ == arc_chars(&sm.sources@[i]));
    }
    assert forall|i: int| 0 <= i < nnames implies arc_chars(&#[trigger] sm2.names@[i]) == arc_chars(&sm.names@[i]) by {
        assert(val_is_str(vec_or_empty(raw.names)[i], arc_chars(&sm.names@[i])));
    }
    assert forall|i: int| 0 <= i < nsrc implies #[trigger] old_text_of(&sm2, i) == old_text_of(sm, i) by {
        if exists|j: int| 0 <= j < nsrc && #[trigger] old_text_of(sm, j) is Some {
            let v = raw.sources_content->0;
            assert(opt_str_is(v@[i], old_text_of(sm, i)));
        } else {
            assert(old_text_of(sm, i) is None);
        }
    }
}

// ---- C14, last sentence: "the answers are unchanged by serialising and decoding the map again" ----
/// the function maps of a Hermes map are what decode_hermes reads from the raw metadata the map keeps (true of every map decode_hermes returns: its contract)
pub open spec fn fmaps_from_raw(h: &SourceMapHermes) -> bool {
    h.raw_facebook_sources matches Some(x) && h.function_maps@.len() == x@.len() && forall|i: int| 0 <= i < x@.len() ==> fm_post(x@[i], #[trigger] h.function_maps@[i])
}
/// no metadata entry leaves the u32 range (where the reader's casts are unspecified and fm_post says nothing)
pub open spec fn metadata_fits(x: Seq<Option<Vec<FacebookScopeMapping>>>) -> bool {
    forall|i: int| 0 <= i < x.len() ==> (#[trigger] x[i] matches Some(l) ==> (l@.len() > 0 ==> !(hermes_fmap_decode(string_bytes(l@[0].mappings)) is Unfit)))
}
//@ lemma_hermes_answers_survive_reencoding [C14 C01]
/// two Hermes maps whose function maps were read from the same raw metadata give the same scope answer for every token with the same source id and original position:
/// with decode_hermes's contract (fmaps_from_raw for the map read back, metadata kept) and SourceMapHermes::as_raw_sourcemap's (metadata written verbatim), this is the last sentence of C14
pub proof fn lemma_hermes_answers_survive_reencoding(h1: &SourceMapHermes, h2: &SourceMapHermes, t1: Token, t2: Token, res: Option<&str>)
    requires
        fmaps_from_raw(h1), fmaps_from_raw(h2), h1.raw_facebook_sources == h2.raw_facebook_sources, metadata_fits(h1.raw_facebook_sources->0@),
        t1.raw.src_id == t2.raw.src_id, t1.raw.src_line == t2.raw.src_line, t1.raw.src_col == t2.raw.src_col, t1.offset == t2.offset,
    ensures token_scope_post(h1, t1, res) <==> token_scope_post(h2, t2, res)
{
    let x = h1.raw_facebook_sources->0@;
    let s = t1.raw.src_id as int;
    assert(scope_query(t1) == scope_query(t2));
    if s < x.len() {
        assert(fm_post(x[s], h1.function_maps@[s]) && fm_post(x[s], h2.function_maps@[s]));
        if let (Some(f1), Some(f2)) = (h1.function_maps@[s], h2.function_maps@[s]) {
            assert(f1.mappings@ == f2.mappings@ && f1.names@ == f2.names@);
        }
    }
}

// ---- C18, last sentence: "every serialised map, index or Hermes map is recognised as a source map by the detection predicate" ----
/// the keys the detection predicate sees when it parses the text of a document: a key is there exactly when the document has a value for it
/// (serde writes `null` for a valueless field without a skip rule and reads `null` back as "no value")
pub open spec fn keys_of(m: MinimalRawSourceMap, raw: RawSourceMap) -> bool {
    (m.version is Some <==> raw.version is Some) && (m.file is Some <==> raw.file is Some) && (m.sources is Some <==> raw.sources is Some)
    && (m.source_root is Some <==> raw.source_root is Some) && (m.sources_content is Some <==> raw.sources_content is Some)
    && (m.sections is Some <==> raw.sections is Some) && (m.names is Some <==> raw.names is Some) && (m.mappings is Some <==> raw.mappings is Some)
}
//@ lemma_written_documents_are_recognised [C18 C03]
/// whatever document as_raw_sourcemap may return for a regular, index or Hermes map (its contract), the detection rule accepts its keys
pub proof fn lemma_written_documents_are_recognised(dm: DecodedMap, raw: RawSourceMap, m: MinimalRawSourceMap)
    requires raw_of_dm(dm, raw), keys_of(m, raw)
    ensures detect_rule(m), has_map_keys(m)
{
    match dm {
        DecodedMap::Regular(sm) => { assert(raw_of_regular(&sm, raw)); }
        DecodedMap::Index(i) => { assert(raw_of_index(&i, raw)); }
        DecodedMap::Hermes(h) => { assert(raw_of_hermes(&h, raw)); }
    }
}
