// C03 / C01 / C13: what the raw document of a map holds, key by key (written from the statement: the map's values, raw source names
// plus the root, keys without a value left out, the "mappings" / "rangeMappings" strings being the reference encodings).
pub open spec fn val_is_str(v: Value, s: Seq<char>) -> bool { v matches Value::String(t) && t@ == s }
pub open spec fn opt_str_is(o: Option<String>, s: Option<Seq<char>>) -> bool { match s { Some(cs) => o matches Some(t) && t@ == cs, None => o is None } }
pub open spec fn raw_of_regular_core(sm: &SourceMap, r: RawSourceMap) -> bool {
    &&& r.version == Some(3u32)
    &&& (match opt_chars(sm.file) { Some(cs) => r.file matches Some(v) && val_is_str(v, cs), None => r.file is None })
    // raw names, never the root-joined ones
    &&& (r.sources matches Some(v) && v@.len() == sm.sources@.len() && forall|i: int| 0 <= i < v@.len() ==> (#[trigger] v@[i] matches Some(s) && s@ == arc_chars(&sm.sources@[i])))
    &&& opt_str_is(r.source_root, opt_chars(sm.source_root))
    // contents: one entry per source, the key left out when no source has any
    &&& ((exists|i: int| 0 <= i < sm.sources@.len() && #[trigger] old_text_of(sm, i) is Some)
            ==> (r.sources_content matches Some(v) && v@.len() == sm.sources@.len() && forall|i: int| 0 <= i < v@.len() ==> opt_str_is(#[trigger] v@[i], old_text_of(sm, i))))
    &&& ((forall|i: int| 0 <= i < sm.sources@.len() ==> #[trigger] old_text_of(sm, i) is None) ==> r.sources_content is None)
    &&& r.sections is None
    &&& (r.names matches Some(v) && v@.len() == sm.names@.len() && forall|i: int| 0 <= i < v@.len() ==> val_is_str(#[trigger] v@[i], arc_chars(&sm.names@[i])))
    &&& (match rmi_encode(sm.tokens@) { None => r.range_mappings is None, Some(s) => (r.range_mappings matches Some(t) && t@ == chars(s)) })
    &&& (r.mappings matches Some(t) && t@ == chars(mappings_encode(sm.tokens@, sm.names@.len() as int)))
    &&& (sm.ignore_list@.len() == 0 ==> r.ignore_list is None)
    &&& (sm.ignore_list@.len() > 0 ==> (r.ignore_list matches Some(v) && v@.no_duplicates() && forall|x: u32| sm.ignore_list@.contains(x) <==> v@.contains(x)))
    &&& r.x_facebook_offsets is None && r.x_metro_module_paths is None
    &&& r.debug_id == sm.debug_id && r._debug_id_new is None
}
pub open spec fn raw_of_regular(sm: &SourceMap, r: RawSourceMap) -> bool { raw_of_regular_core(sm, r) && r.x_facebook_sources is None }
/// a Hermes map writes its inner map's document plus the x_facebook_sources it was decoded with, verbatim
pub open spec fn raw_of_hermes(h: &SourceMapHermes, r: RawSourceMap) -> bool { raw_of_regular_core(&h.sm, r) && r.x_facebook_sources == h.raw_facebook_sources }
pub open spec fn opt_string_chars(o: Option<String>) -> Option<Seq<char>> { match o { Some(s) => Some(s@), None => None } }
/// an index map writes version, file and one entry per section -- its offset object, its url, and recursively the document of its embedded map -- and no other key
pub open spec fn raw_of_index(idx: &SourceMapIndex, r: RawSourceMap) -> bool
    decreases *idx
{
    &&& r.version == Some(3u32)
    &&& (match opt_string_chars(idx.file) { Some(cs) => r.file matches Some(v) && val_is_str(v, cs), None => r.file is None })
    &&& r.sources is None && r.source_root is None && r.sources_content is None && r.names is None && r.range_mappings is None && r.mappings is None
    &&& r.ignore_list is None && r.x_facebook_offsets is None && r.x_metro_module_paths is None && r.x_facebook_sources is None && r.debug_id is None && r._debug_id_new is None
    &&& (r.sections matches Some(v) && v@.len() == idx.sections@.len() && forall|i: int| 0 <= i < idx.sections@.len() ==> {
            let s = #[trigger] idx.sections@[i]; let rs = v@[i];
            rs.offset.line == s.offset.0 && rs.offset.column == s.offset.1 && opt_str_is(rs.url, opt_string_chars(s.url))
            && (match s.map { Some(b) => rs.map matches Some(rb) && raw_of_dm(*b, *rb), None => rs.map is None }) })
}
pub open spec fn raw_of_dm(dm: DecodedMap, r: RawSourceMap) -> bool
    decreases dm
{
    match dm { DecodedMap::Regular(sm) => raw_of_regular(&sm, r), DecodedMap::Index(i) => raw_of_index(&i, r), DecodedMap::Hermes(h) => raw_of_hermes(&h, r) }
}
/// what the encoder needs of its input, recursively: token lists ordered by generated position (as every constructor leaves them), tables below 2^32 entries
pub open spec fn enc_wf_sm(sm: &SourceMap) -> bool { sorted_tokens(sm.tokens@) && sm.tokens@.len() < usize::MAX / 16 && sm.names@.len() <= 0xffff_ffff && sm.sources@.len() <= 0xffff_ffff }
pub open spec fn enc_wf_index(idx: &SourceMapIndex) -> bool
    decreases *idx
{
    idx.sections@.len() <= 0xffff_ffff && forall|i: int| 0 <= i < idx.sections@.len() ==> (match (#[trigger] idx.sections@[i]).map { Some(b) => enc_wf_dm(*b), None => true })
}
pub open spec fn enc_wf_dm(dm: DecodedMap) -> bool
    decreases dm
{
    match dm { DecodedMap::Regular(sm) => enc_wf_sm(&sm), DecodedMap::Index(i) => enc_wf_index(&i), DecodedMap::Hermes(h) => enc_wf_sm(&h.sm) }
}
pub open spec fn raw_section_ok(s: SourceMapSection, rs: RawSection) -> bool {
    rs.offset.line == s.offset.0 && rs.offset.column == s.offset.1 && opt_str_is(rs.url, opt_string_chars(s.url))
    && (match s.map { Some(b) => rs.map matches Some(rb) && raw_of_dm(*b, *rb), None => rs.map is None })
}
pub open spec fn sec_enc_wf(s: SourceMapSection) -> bool { match s.map { Some(b) => enc_wf_dm(*b), None => true } }
