// C12 / C18: the decoding and detection entry points, stated over the bytes: what is decoded is the document left after the
// junk-header rule (header.rs), read by the JSON layer (an uninterpreted function of the bytes), handed to decode_common.
/// outcome of decoding `bytes`, whichever way they arrive: an error for a bare CR in the junk header or a document the JSON layer rejects,
/// otherwise what decode_common makes of the document
pub open spec fn decode_post(bytes: Seq<u8>, res: Result<DecodedMap>) -> bool {
    match strip_spec(HeaderState::Undecided, bytes) {
        None => res is Err,
        Some(t) => match json_raw(t) { None => res is Err, Some(rsm) => res == decode_common_res(rsm) },
    }
}
/// outcome of the detection predicates on `bytes`: true exactly for a document that survives the header rule, parses, and satisfies the rule
pub open spec fn detect_post(bytes: Seq<u8>, r: bool) -> bool {
    r == (strip_spec(HeaderState::Undecided, bytes) matches Some(t) && (json_min(t) matches Some(m) && detect_rule(m)))
}
pub open spec fn detect_impl_post(bytes: Seq<u8>, res: Result<bool>) -> bool {
    match strip_spec(HeaderState::Undecided, bytes) {
        None => res is Err,
        Some(t) => match json_min(t) { None => res is Err, Some(m) => res matches Ok(b) && b == detect_rule(m) },
    }
}
/// C12: "decoding from a reader gives the same outcome as decoding from a slice, an equal map or an error on both sides, however the reader splits the bytes"
//@ lemma_reader_and_slice_agree [C12]
pub proof fn lemma_reader_and_slice_agree(bytes: Seq<u8>, from_reader: Result<DecodedMap>, from_slice: Result<DecodedMap>)
    requires decode_post(bytes, from_reader), decode_post(bytes, from_slice)
    ensures (from_reader is Err && from_slice is Err) || from_reader == from_slice
{
}
//@ lemma_detection_agrees [C12]
pub proof fn lemma_detection_agrees(bytes: Seq<u8>, from_reader: bool, from_slice: bool)
    requires detect_post(bytes, from_reader), detect_post(bytes, from_slice)
    ensures from_reader == from_slice
{
}
/// the typed constructors: the decoded map if it is of the requested kind, an error for any other kind or a decoding error
pub open spec fn typed_post<T>(decoded: Result<DecodedMap>, pick: spec_fn(DecodedMap) -> Option<T>, res: Result<T>) -> bool {
    match decoded { Ok(m) => match pick(m) { Some(x) => res == Ok::<T, Error>(x), None => res is Err }, Err(_) => res is Err }
}
pub open spec fn pick_regular(m: DecodedMap) -> Option<SourceMap> { match m { DecodedMap::Regular(sm) => Some(sm), _ => None } }
pub open spec fn pick_index(m: DecodedMap) -> Option<SourceMapIndex> { match m { DecodedMap::Index(x) => Some(x), _ => None } }
pub open spec fn pick_hermes(m: DecodedMap) -> Option<SourceMapHermes> { match m { DecodedMap::Hermes(x) => Some(x), _ => None } }
/// C18: "the data URL the library produces is one the library itself decodes back": what decode_data_url makes of a URL written by to_data_url is what
/// decode_slice makes of the JSON text of the map (given that the base64 reader inverts the base64 writer)
//@ lemma_own_data_url_decodes_to_the_json_text [C18]
pub proof fn lemma_own_data_url_decodes_to_the_json_text(sm: &SourceMap, url: Seq<char>, res: Result<DecodedMap>)
    requires
        data_url_payload(url) == Some(b64_enc_spec(json_text_of(sm))),
        // decode_data_url's contract
        match data_url_payload(url) { None => res is Err, Some(p) => match b64_spec(p) { None => res is Err, Some(bytes) => decode_post(bytes, res) } },
    ensures decode_post(json_text_of(sm), res)
{
    axiom_b64_reader_inverts_writer(json_text_of(sm));
}
