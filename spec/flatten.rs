// C08, flattening: what "the flattened map is exactly the tokens of the sections, moved by the section's offset" means.
//
// A resolved section contributes a map: a regular section its map, a Hermes section its inner map, a nested index
// section any flattening of that index (recursively).  The flattened map's tokens are, up to the final sort by
// generated position, the sequence `bts`: section after section, token after token, each token re-expressed over the
// output tables with its generated line moved down by the section's line offset and, on the section's line 0 only, its
// column moved right by the section's column offset.

/// number of tokens the flattening has (sections in order, nested indexes counted recursively)
pub open spec fn flat_count(idx: SourceMapIndex) -> nat
    decreases idx
{
    flat_count_upto(idx, idx.sections@.len() as int)
}
pub open spec fn flat_count_upto(idx: SourceMapIndex, n: int) -> nat
    decreases idx, n
{
    if n <= 0 || n > idx.sections@.len() { 0 } else {
        flat_count_upto(idx, n - 1) + (match idx.sections@[n - 1].map {
            Some(b) => match *b {
                DecodedMap::Regular(sm) => sm.tokens@.len(),
                DecodedMap::Index(inner) => flat_count(inner),
                DecodedMap::Hermes(h) => h.sm.tokens@.len() },
            None => 0 })
    }
}
pub open spec fn sec_count(s: SourceMapSection) -> nat {
    match s.map {
        Some(b) => match *b {
            DecodedMap::Regular(sm) => sm.tokens@.len(),
            DecodedMap::Index(inner) => flat_count(inner),
            DecodedMap::Hermes(h) => h.sm.tokens@.len() },
        None => 0 }
}
pub proof fn lemma_flat_count_step(idx: SourceMapIndex, n: int)
    requires 0 < n <= idx.sections@.len()
    ensures flat_count_upto(idx, n) == flat_count_upto(idx, n - 1) + sec_count(idx.sections@[n - 1])
{}
pub proof fn lemma_flat_count_mono(idx: SourceMapIndex, a: int, b: int)
    requires 0 <= a <= b <= idx.sections@.len()
    ensures flat_count_upto(idx, a) <= flat_count_upto(idx, b)
    decreases b - a
{
    if a < b { lemma_flat_count_mono(idx, a, b - 1); }
}
/// what flatten needs of its input: every embedded map keeps the prefixed-sources cache consistent (root_wf, as every
/// constructor and setter leaves it), at most 2^32-1 sections per index (the section iterator counts them in a u32)
pub open spec fn idx_wf(idx: SourceMapIndex) -> bool
    decreases idx
{
    idx.sections@.len() <= 0xffff_ffff
    && forall|i: int| 0 <= i < idx.sections@.len() ==> match (#[trigger] idx.sections@[i]).map {
        Some(b) => match *b {
            DecodedMap::Regular(sm) => root_wf(&sm),
            DecodedMap::Index(inner) => idx_wf(inner),
            DecodedMap::Hermes(h) => root_wf(&h.sm) },
        None => true }
}

/// position p of the flattened token sequence comes from token o.1 of section o.0
pub open spec fn origins(maps: Seq<SourceMap>, n: int) -> Seq<(int, int)>
    decreases n
{
    if n <= 0 || n > maps.len() { Seq::empty() } else { origins(maps, n - 1) + Seq::new(maps[n - 1].tokens@.len(), |j: int| (n - 1, j)) }
}
pub proof fn lemma_origins_prefix(maps: Seq<SourceMap>, m: SourceMap, n: int)
    requires 0 <= n <= maps.len()
    ensures origins(maps.push(m), n) == origins(maps, n)
    decreases n
{
    if n > 0 {
        lemma_origins_prefix(maps, m, n - 1);
        assert(maps.push(m)[n - 1] == maps[n - 1]);
    }
}
pub proof fn lemma_origins_in_range(maps: Seq<SourceMap>, n: int, p: int)
    requires 0 <= n <= maps.len(), 0 <= p < origins(maps, n).len()
    ensures 0 <= origins(maps, n)[p].0 < n, 0 <= origins(maps, n)[p].1 < maps[origins(maps, n)[p].0].tokens@.len()
    decreases n
{
    if n > 0 {
        if p < origins(maps, n - 1).len() { lemma_origins_prefix_index(maps, n, p); lemma_origins_in_range(maps, n - 1, p); }
    }
}
pub proof fn lemma_origins_prefix_index(maps: Seq<SourceMap>, n: int, p: int)
    requires 0 < n <= maps.len(), 0 <= p < origins(maps, n - 1).len()
    ensures origins(maps, n)[p] == origins(maps, n - 1)[p]
{}

/// token bt over the output tables re-expresses token t of section map m, moved by the section's offset
pub open spec fn flat_tok(srcs: Seq<Arc<str>>, nms: Seq<Arc<str>>, bt: RawToken, m: &SourceMap, t: RawToken, off: (u32, u32)) -> bool {
    &&& bt.dst_line == t.dst_line + off.0
    &&& bt.dst_col == (if t.dst_line == 0 { t.dst_col + off.1 } else { t.dst_col as int })
    &&& bt.src_line == t.src_line && bt.src_col == t.src_col && bt.is_range == t.is_range
    &&& (match tok_source(m, t) { Some(s) => bt.src_id != 0xffff_ffffu32 && bt.src_id < srcs.len() && arc_chars(&srcs[bt.src_id as int]) == s, None => bt.src_id == 0xffff_ffffu32 })
    &&& (match tok_name(m, t) { Some(n) => bt.name_id != 0xffff_ffffu32 && bt.name_id < nms.len() && arc_chars(&nms[bt.name_id as int]) == n, None => bt.name_id == 0xffff_ffffu32 })
}
/// the embedded text that comes with position o: the section map's contents for the token's source (none for a token without source)
pub open spec fn pos_text(maps: Seq<SourceMap>, o: (int, int)) -> Option<Seq<char>> {
    let m = maps[o.0]; let t = m.tokens@[o.1];
    if tok_source(&m, t) is Some { old_text(&m, t.src_id) } else { None }
}
/// the token at position o refers to a source on its section map's ignore list
pub open spec fn pos_ignored(maps: Seq<SourceMap>, o: (int, int)) -> bool {
    let m = maps[o.0]; m.ignore_list@.contains(m.tokens@[o.1].src_id)
}
pub open spec fn pos_texts(maps: Seq<SourceMap>, orig: Seq<(int, int)>) -> Seq<Option<Seq<char>>> { Seq::new(orig.len(), |p: int| pos_text(maps, orig[p])) }
pub open spec fn pos_igns(maps: Seq<SourceMap>, orig: Seq<(int, int)>) -> Seq<bool> { Seq::new(orig.len(), |p: int| pos_ignored(maps, orig[p])) }
/// first-seen contents: the text of the first position (in flattening order) that refers to output source i and carries text
pub open spec fn first_text(bts: Seq<RawToken>, txts: Seq<Option<Seq<char>>>, i: int, n: int) -> Option<Seq<char>>
    decreases n
{
    if n <= 0 { None } else {
        match first_text(bts, txts, i, n - 1) {
            Some(x) => Some(x),
            None => if bts[n - 1].src_id == i { txts[n - 1] } else { None } }
    }
}
pub proof fn lemma_first_text_prefix(bts: Seq<RawToken>, txts: Seq<Option<Seq<char>>>, bts2: Seq<RawToken>, txts2: Seq<Option<Seq<char>>>, i: int, n: int)
    requires 0 <= n <= bts.len(), n <= txts.len(), n <= bts2.len(), n <= txts2.len(),
        forall|p: int| 0 <= p < n ==> bts[p] == bts2[p] && txts[p] == txts2[p],
    ensures first_text(bts, txts, i, n) == first_text(bts2, txts2, i, n)
    decreases n
{
    if n > 0 { lemma_first_text_prefix(bts, txts, bts2, txts2, i, n - 1); }
}
pub proof fn lemma_first_text_none(bts: Seq<RawToken>, txts: Seq<Option<Seq<char>>>, i: int, n: int)
    requires 0 <= n <= bts.len(), forall|p: int| 0 <= p < n ==> (#[trigger] bts[p]).src_id != i,
    ensures first_text(bts, txts, i, n) is None
    decreases n
{
    if n > 0 { lemma_first_text_none(bts, txts, i, n - 1); }
}
pub open spec fn out_text(contents: Seq<Option<SourceView>>, i: int) -> Option<Seq<char>> {
    if 0 <= i < contents.len() { match contents[i] { Some(v) => Some(sv_text(&v)), None => None } } else { None }
}
pub open spec fn builder_text(contents: Seq<Option<Arc<str>>>, i: int) -> Option<Seq<char>> {
    if 0 <= i < contents.len() { match contents[i] { Some(a) => Some(arc_chars(&a)), None => None } } else { None }
}
pub open spec fn ignored_some(bts: Seq<RawToken>, igns: Seq<bool>, x: u32) -> bool {
    exists|p: int| 0 <= p < bts.len() && (#[trigger] bts[p]).src_id == x && igns[p]
}
pub open spec fn file_same(f: Option<String>, g: Option<Arc<str>>) -> bool {
    match f { Some(s) => g matches Some(a) && arc_chars(&a) == s@, None => g is None }
}

/// the non-recursive part: out is the flattening of sections with offsets offs and contributed maps `maps`, via the
/// unsorted token sequence bts
pub open spec fn flat_rel(offs: Seq<(u32, u32)>, maps: Seq<SourceMap>, bts: Seq<RawToken>, out: SourceMap) -> bool {
    let orig = origins(maps, maps.len() as int);
    &&& offs.len() == maps.len()
    &&& bts.len() == orig.len()
    //  exactly the tokens of the sections, in section order, moved by the offsets, same strings and range flags
    &&& forall|p: int| 0 <= p < bts.len() ==> flat_tok(out.sources@, out.names@, #[trigger] bts[p], &maps[orig[p].0], maps[orig[p].0].tokens@[orig[p].1], offs[orig[p].0])
    //  the finished map holds them sorted by generated position
    &&& out.tokens@.to_multiset() == bts.to_multiset() && sorted_tokens(out.tokens@)
    //  first-seen source contents, for every source some token refers to
    &&& forall|i: int| 0 <= i < out.sources@.len() && src_used(bts, i) ==> #[trigger] out_text(out.sources_content@, i) == first_text(bts, pos_texts(maps, orig), i, bts.len() as int)
    //  ignore-list membership
    &&& forall|x: u32| #[trigger] out.ignore_list@.contains(x) <==> ignored_some(bts, pos_igns(maps, orig), x)
    &&& out.source_root is None
}
pub open spec fn sec_offsets(idx: SourceMapIndex) -> Seq<(u32, u32)> {
    Seq::new(idx.sections@.len(), |i: int| idx.sections@[i].offset)
}
/// out is a flattening of idx
pub open spec fn is_flat(idx: SourceMapIndex, out: SourceMap) -> bool
    decreases idx
{
    exists|maps: Seq<SourceMap>, bts: Seq<RawToken>|
        maps.len() == idx.sections@.len()
        && (forall|i: int| 0 <= i < idx.sections@.len() ==> match (#[trigger] idx.sections@[i]).map {
            Some(b) => match *b {
                DecodedMap::Regular(sm) => maps[i] == sm,
                DecodedMap::Index(inner) => is_flat(inner, maps[i]),
                DecodedMap::Hermes(h) => maps[i] == h.sm },
            None => false })
        && #[trigger] flat_rel(sec_offsets(idx), maps, bts, out)
        && file_same(idx.file, out.file)
}
pub open spec fn has_unresolved(idx: SourceMapIndex) -> bool {
    exists|i: int| 0 <= i < idx.sections@.len() && (#[trigger] idx.sections@[i]).map is None
}
pub open spec fn has_nested(idx: SourceMapIndex) -> bool {
    exists|i: int| 0 <= i < idx.sections@.len() && (match (#[trigger] idx.sections@[i]).map { Some(b) => *b is Index, None => false })
}
pub open spec fn tok_overflows(t: RawToken, off: (u32, u32)) -> bool {
    t.dst_line + off.0 > 0xffff_ffff || (t.dst_line == 0 && t.dst_col + off.1 > 0xffff_ffff)
}
pub open spec fn plain_map(s: SourceMapSection) -> Option<SourceMap> {
    match s.map { Some(b) => match *b { DecodedMap::Regular(sm) => Some(sm), DecodedMap::Hermes(h) => Some(h.sm), DecodedMap::Index(_) => None }, None => None }
}
pub open spec fn overflow_at(idx: SourceMapIndex, i: int, j: int) -> bool {
    0 <= i < idx.sections@.len() && (match plain_map(idx.sections@[i]) {
        Some(m) => 0 <= j < m.tokens@.len() && tok_overflows(m.tokens@[j], idx.sections@[i].offset), None => false })
}
pub open spec fn has_overflow(idx: SourceMapIndex) -> bool {
    exists|i: int, j: int| #[trigger] overflow_at(idx, i, j)
}
