// C17: the text of a token and the backward walk, written from the statement.
/// characters of line `line` of the view's text (no characters when there is no such line)
pub open spec fn sv_line_chars(sv: &SourceView, line: int) -> Seq<char> {
    if 0 <= line < sv_lines(sv).len() && valid_utf8(sv_lines(sv)[line]) { decode_utf8(sv_lines(sv)[line]) } else { Seq::empty() }
}
/// i is the first character boundary of cs at or after UTF-16 column col (the end of cs when there is none)
pub open spec fn boundary_at(cs: Seq<char>, col: int, i: int) -> bool {
    0 <= i <= cs.len() && (i < cs.len() ==> cum16(cs.subrange(0, i)) >= col) && (i > 0 ==> cum16(cs.subrange(0, i - 1)) < col)
}
/// a UTF-16 column that is the start of a character of cs, or at / past the end of cs (never the second half of a surrogate pair)
pub open spec fn aligned(cs: Seq<char>, col: int) -> bool {
    col >= cum16(cs) || exists|i: int| 0 <= i <= cs.len() && #[trigger] cum16(cs.subrange(0, i)) == col
}
/// "token text is read at UTF-16 columns": the identifier at the start of the first word from column col on; nothing at or past the end of the line
pub open spec fn text_post(cs: Seq<char>, col: int, res: Option<&str>) -> bool {
    exists|i: int| #[trigger] boundary_at(cs, col, i) && (i >= cs.len() ==> res is None) && (i < cs.len() ==> token_post(cs.subrange(i, cs.len() as int), res))
}
/// the walker's cache: the line it last looked at, that token's column, and the byte offset of that column -- a boundary strictly inside the line, exactly at the column
pub open spec fn cache_ok(sv: &SourceView, c: Option<(&str, usize, usize, usize)>) -> bool {
    c matches Some((sl, dl, co, bo)) ==> (dl < sv_lines(sv).len() && sl.spec_bytes() == sv_lines(sv)[dl as int]
        && exists|i: int| 0 <= i < sl@.len() && bo == utf8_len(#[trigger] sl@.subrange(0, i)) && cum16(sl@.subrange(0, i)) == co)
}
pub open spec fn tok_wf(t: Token) -> bool {
    sorted_tokens(t.sm.tokens@) && t.idx < t.sm.tokens@.len() && t.raw == &t.sm.tokens@[t.idx as int]
}
pub open spec fn rti_wf(it: &RevTokenIter) -> bool {
    sv_wf(it.sv) && cache_ok(it.sv, it.source_line)
    && (it.token matches Some(t) ==> tok_wf(t)
        && (it.source_line matches Some((sl, dl, co, bo)) ==> (t.raw.dst_line as int == dl ==> t.raw.dst_col <= co)))
}
pub proof fn lemma_cum16_strict(cs: Seq<char>, i: int, j: int)
    requires 0 <= i < j <= cs.len()
    ensures cum16(cs.subrange(0, i)) < cum16(cs.subrange(0, j)), utf8_len(cs.subrange(0, i)) < utf8_len(cs.subrange(0, j))
{
    lemma_prefix_step(cs, i);
    lemma_prefix_mono(cs, i + 1, j);
}
pub proof fn lemma_line_chars(sv: &SourceView, line: int, l: &str)
    requires 0 <= line < sv_lines(sv).len(), l.spec_bytes() == sv_lines(sv)[line]
    ensures l@ == sv_line_chars(sv, line)
{
    encode_utf8_valid_utf8(l@);
    encode_utf8_decode_utf8(l@);
}
pub proof fn lemma_boundary_aligned(cs: Seq<char>, col: int, i: int)
    requires boundary_at(cs, col, i), aligned(cs, col), i < cs.len()
    ensures cum16(cs.subrange(0, i)) == col
{
    assert(cs.subrange(0, cs.len() as int) == cs);
    lemma_cum16_strict(cs, i, cs.len() as int);
    let ia = choose|ia: int| 0 <= ia <= cs.len() && #[trigger] cum16(cs.subrange(0, ia)) == col;
    if ia < i { if ia < i - 1 { lemma_cum16_strict(cs, ia, i - 1); } }
    if i < ia { lemma_cum16_strict(cs, i, ia); }
}
/// stepping back from an aligned boundary i1 by whole characters until at least cum(i1) - col units are covered lands on the boundary at col
pub proof fn lemma_back_boundary(cs: Seq<char>, col: int, i1: int, i2: int)
    requires 0 <= i2 <= i1 < cs.len(), aligned(cs, col), col <= cum16(cs.subrange(0, i1)),
        cum16(cs.subrange(0, i2)) <= col, i2 < i1 ==> cum16(cs.subrange(0, i2 + 1)) > col,
    ensures boundary_at(cs, col, i2), cum16(cs.subrange(0, i2)) == col
{
    assert(cs.subrange(0, cs.len() as int) == cs);
    lemma_cum16_strict(cs, i1, cs.len() as int);
    let ia = choose|ia: int| 0 <= ia <= cs.len() && #[trigger] cum16(cs.subrange(0, ia)) == col;
    if i2 < ia { if i2 < i1 { if i2 + 1 < ia { lemma_cum16_strict(cs, i2 + 1, ia); } } else { lemma_cum16_strict(cs, i2, ia); } }
    if ia < i2 { lemma_cum16_strict(cs, ia, i2); }
    if i2 > 0 { lemma_cum16_strict(cs, i2 - 1, i2); }
}
