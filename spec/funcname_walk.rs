// C17: the pairing rule of get_original_function_name over the backward walk, written from the statement.
pub open spec fn rti_pre(it: &RevTokenIter) -> bool {
    rti_wf(it) && (it.token matches Some(t) ==> aligned(sv_line_chars(it.sv, t.raw.dst_line as int), t.raw.dst_col as int))
}
pub open spec fn rti_next_post(pre: &RevTokenIter, post: &RevTokenIter, res: Option<(Token, Option<&str>)>) -> bool {
    rti_wf(post) && post.sv.source == pre.sv.source
    && (pre.token is None ==> res is None && post.token is None)
    && (pre.token matches Some(t) ==> (res matches Some((t2, txt)) && t2 == t && text_post(sv_line_chars(pre.sv, t.raw.dst_line as int), t.raw.dst_col as int, txt)
            && post.token == (if t.idx > 0 { Some(token_at(t.sm, t.idx - 1)) } else { None::<Token> })))
}
pub open spec fn opt_view(o: Option<&str>) -> Option<Seq<char>> { match o { Some(s) => Some(s@), None => None } }

//@ lemma_boundary_unique [C17]
pub proof fn lemma_boundary_unique(cs: Seq<char>, col: int, i1: int, i2: int)
    requires boundary_at(cs, col, i1), boundary_at(cs, col, i2)
    ensures i1 == i2
{
    if i1 < i2 { if i1 < i2 - 1 { lemma_cum16_strict(cs, i1, i2 - 1); } }
    if i2 < i1 { if i2 < i1 - 1 { lemma_cum16_strict(cs, i2, i1 - 1); } }
}
//@ lemma_first_word_unique [C17]
pub proof fn lemma_first_word_unique(cs: Seq<char>, a1: int, b1: int, a2: int, b2: int)
    requires first_word_at(cs, a1, b1), first_word_at(cs, a2, b2)
    ensures a1 == a2, b1 == b2
{
    if a1 < a2 { assert(is_ws(cs[a1])); }
    if a2 < a1 { assert(is_ws(cs[a2])); }
    if b1 < b2 { assert(!is_ws(cs[b1])); }
    if b2 < b1 { assert(!is_ws(cs[b2])); }
}
//@ lemma_ident_post_unique [C17]
pub proof fn lemma_ident_post_unique(cs: Seq<char>, r1: Option<&str>, r2: Option<&str>)
    requires ident_post(cs, r1), ident_post(cs, r2)
    ensures opt_view(r1) == opt_view(r2)
{
    if cs.len() > 0 && id_start(cs[0]) {
        let k1 = choose|k: int| #[trigger] ident_len(cs, k) && (r1 matches Some(r) && r@ == cs.subrange(0, k));
        let k2 = choose|k: int| #[trigger] ident_len(cs, k) && (r2 matches Some(r) && r@ == cs.subrange(0, k));
        lemma_ident_len_unique(cs, k1, k2);
    }
}
//@ lemma_token_post_unique [C17]
pub proof fn lemma_token_post_unique(cs: Seq<char>, r1: Option<&str>, r2: Option<&str>)
    requires token_post(cs, r1), token_post(cs, r2)
    ensures opt_view(r1) == opt_view(r2)
{
    if !(forall|j: int| 0 <= j < cs.len() ==> is_ws(#[trigger] cs[j])) {
        let (a1, b1) = choose|a: int, b: int| #[trigger] first_word_at(cs, a, b) && ident_post(cs.subrange(a, b), r1);
        let (a2, b2) = choose|a: int, b: int| #[trigger] first_word_at(cs, a, b) && ident_post(cs.subrange(a, b), r2);
        lemma_first_word_unique(cs, a1, b1, a2, b2);
        lemma_ident_post_unique(cs.subrange(a1, b1), r1, r2);
    }
}
//@ lemma_text_post_unique [C17]
/// the text of a token is a function of the line and the column
pub proof fn lemma_text_post_unique(cs: Seq<char>, col: int, r1: Option<&str>, r2: Option<&str>)
    requires text_post(cs, col, r1), text_post(cs, col, r2)
    ensures opt_view(r1) == opt_view(r2)
{
    let i1 = choose|i: int| #[trigger] boundary_at(cs, col, i) && (i >= cs.len() ==> r1 is None) && (i < cs.len() ==> token_post(cs.subrange(i, cs.len() as int), r1));
    let i2 = choose|i: int| #[trigger] boundary_at(cs, col, i) && (i >= cs.len() ==> r2 is None) && (i < cs.len() ==> token_post(cs.subrange(i, cs.len() as int), r2));
    lemma_boundary_unique(cs, col, i1, i2);
    if i1 < cs.len() { lemma_token_post_unique(cs.subrange(i1, cs.len() as int), r1, r2); }
}

/// C17: the minified text of token i of the map is `s` (read at the token's UTF-16 column of its generated line)
pub open spec fn tok_text_is(sv: &SourceView, sm: &SourceMap, i: int, s: Seq<char>) -> bool {
    exists|txt: Option<&str>| #[trigger] text_post(sv_line_chars(sv, sm.tokens@[i].dst_line as int), sm.tokens@[i].dst_col as int, txt) && opt_view(txt) == Some(s)
}
/// the walk visits tokens idx, idx-1, ... : at most 128 of them
pub open spec fn walk_len(idx: int) -> int { if idx + 1 < 128 { idx + 1 } else { 128 } }
/// step j of the walk from token idx is a hit: that token's text is the minified name and the token before it (still among the 128) reads `function`
pub open spec fn pair_at(sv: &SourceView, sm: &SourceMap, idx: int, j: int, name: Seq<char>) -> bool {
    0 <= j && j + 1 < walk_len(idx) && tok_text_is(sv, sm, idx - j, name) && tok_text_is(sv, sm, idx - j - 1, "function"@)
}
pub open spec fn name_of(sm: &SourceMap, i: int) -> Option<Seq<char>> {
    let t = sm.tokens@[i];
    if t.name_id != 0xffff_ffffu32 && t.name_id < sm.names@.len() { Some(arc_chars(&sm.names@[t.name_id as int])) } else { None }
}
pub open spec fn fn_name_post(sv: &SourceView, sm: &SourceMap, idx: int, name: Seq<char>, res: Option<&str>) -> bool {
    (!is_ident(name) ==> res is None)
    && (is_ident(name) ==> (
        (exists|j: int| #[trigger] pair_at(sv, sm, idx, j, name) && (forall|j2: int| 0 <= j2 < j ==> !pair_at(sv, sm, idx, j2, name)) && opt_view(res) == name_of(sm, idx - j))
        || (res is None && forall|j: int| !pair_at(sv, sm, idx, j, name))))
}
pub open spec fn walk_aligned(sv: &SourceView, sm: &SourceMap, idx: int) -> bool {
    forall|i: int| 0 <= i <= idx ==> aligned(sv_line_chars(sv, (#[trigger] sm.tokens@[i]).dst_line as int), sm.tokens@[i].dst_col as int)
}

pub open spec fn tok_is(t: Token, sm: &SourceMap, i: int) -> bool { t.sm == sm && t.idx == i && t.raw == &sm.tokens@[i] }
pub open spec fn nxt_ok(o: Option<Token>, sm: &SourceMap, i: int) -> bool { match o { Some(t) => i >= 0 && tok_is(t, sm, i), None => i < 0 } }
#[verifier::opaque]
pub open spec fn tok_text(sv: &SourceView, sm: &SourceMap, i: int, txt: Option<&str>) -> bool {
    text_post(sv_line_chars(sv, sm.tokens@[i].dst_line as int), sm.tokens@[i].dst_col as int, txt)
}
pub open spec fn item_ok(sv: &SourceView, sm: &SourceMap, v: Option<(Token, Option<&str>)>, i: int) -> bool {
    if i >= 0 { v matches Some((t, txt)) && tok_is(t, sm, i) && tok_text(sv, sm, i, txt) } else { v is None }
}
pub open spec fn walk_inv(sv0: &SourceView, sm: &SourceMap, idx: int, j: int, it: &VTakePeek) -> bool {
    &&& 0 <= j <= 128 && idx < sm.tokens@.len() && sorted_tokens(sm.tokens@)
    &&& rti_wf(&it.inner()) && it.inner().sv.source == sv0.source
    &&& match it.peeked() {
        None => it.left() == 128 - j && nxt_ok(it.inner().token, sm, idx - j),
        Some(v) => (j < 128 ==> it.left() == 128 - j - 1 && nxt_ok(it.inner().token, sm, idx - j - 1) && item_ok(sv0, sm, v, idx - j)) && (j == 128 ==> it.left() == 0 && v is None),
    }
}
//@ lemma_not_text [C17]
pub proof fn lemma_not_text(sv: &SourceView, sm: &SourceMap, i: int, txt: Option<&str>, s: Seq<char>)
    requires tok_text(sv, sm, i, txt), opt_view(txt) != Some(s)
    ensures !tok_text_is(sv, sm, i, s)
{
    reveal(tok_text);
    if tok_text_is(sv, sm, i, s) {
        let t2 = choose|t2: Option<&str>| #[trigger] text_post(sv_line_chars(sv, sm.tokens@[i].dst_line as int), sm.tokens@[i].dst_col as int, t2) && opt_view(t2) == Some(s);
        lemma_text_post_unique(sv_line_chars(sv, sm.tokens@[i].dst_line as int), sm.tokens@[i].dst_col as int, txt, t2);
    }
}
//@ lemma_is_text [C17]
pub proof fn lemma_is_text(sv: &SourceView, sm: &SourceMap, i: int, txt: Option<&str>, s: Seq<char>)
    requires tok_text(sv, sm, i, txt), opt_view(txt) == Some(s)
    ensures tok_text_is(sv, sm, i, s), is_ident(s)
{
    reveal(tok_text);
    let cs = sv_line_chars(sv, sm.tokens@[i].dst_line as int);
    let col = sm.tokens@[i].dst_col as int;
    let b = choose|b: int| #[trigger] boundary_at(cs, col, b) && (b >= cs.len() ==> txt is None) && (b < cs.len() ==> token_post(cs.subrange(b, cs.len() as int), txt));
    let w = cs.subrange(b, cs.len() as int);
    let (a1, b1) = choose|a: int, bb: int| #[trigger] first_word_at(w, a, bb) && ident_post(w.subrange(a, bb), txt);
    let word = w.subrange(a1, b1);
    let k = choose|k: int| #[trigger] ident_len(word, k) && (txt matches Some(r) && r@ == word.subrange(0, k));
    assert(s == word.subrange(0, k));
    assert(ident_len(s, k));
}
/// what RevTokenIter::next promises, restated for step i of the walk (the text depends on the view's text only)
pub open spec fn rti_src(it: &RevTokenIter) -> Arc<str> { it.sv.source }
//@ lemma_step [C17]
pub proof fn lemma_step(sv0: &SourceView, sm: &SourceMap, i: int, pre: &RevTokenIter, post: &RevTokenIter, r: Option<(Token, Option<&str>)>)
    requires rti_next_post(pre, post, r), pre.sv.source == sv0.source, nxt_ok(pre.token, sm, i), i < sm.tokens@.len(),
    ensures item_ok(sv0, sm, r, i), nxt_ok(post.token, sm, i - 1), rti_wf(post), rti_src(post) == sv0.source
{
    reveal(tok_text);
}
//@ lemma_init [C17]
pub proof fn lemma_init(sv: &SourceView, token: Token, it: &RevTokenIter)
    requires sv_wf(sv), tok_wf(token), it.token == Some(token), it.source_line is None, *it.sv == *sv
    ensures rti_wf(it), rti_src(it) == sv.source, nxt_ok(it.token, token.sm, token.idx as int)
{
}
//@ lemma_pre [C17]
pub proof fn lemma_pre(sv0: &SourceView, sm: &SourceMap, idx: int, i: int, it: &RevTokenIter)
    requires rti_wf(it), it.sv.source == sv0.source, nxt_ok(it.token, sm, i), walk_aligned(sv0, sm, idx), i <= idx,
    ensures rti_pre(it)
{
}


/// C04's statement of which token a position resolves to, by index: a token with the greatest generated position not after the position, the first one when the position is hit exactly
pub open spec fn looked_up_at(sm: &SourceMap, line: u32, col: u32, p: int) -> bool {
    0 <= p < sm.tokens@.len() && tle(tkey(sm.tokens@[p]), (line, col))
    && (forall|i: int| 0 <= i < sm.tokens@.len() && tle(#[trigger] tkey(sm.tokens@[i]), (line, col)) ==> tle(tkey(sm.tokens@[i]), tkey(sm.tokens@[p])))
    && (tkey(sm.tokens@[p]) == (line, col) ==> forall|i: int| 0 <= i < p ==> #[trigger] tkey(sm.tokens@[i]) != (line, col))
}
