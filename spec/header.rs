// XSSI junk header, written from the property statement (C12): a first line starting with one of
// ) ] } ' is skipped up to and including its \n or \r\n; a \r not followed by \n is rejected.
// strip_spec(state, pending) = the bytes a conforming stripper in `state` hands on when `pending`
// is what the stream still holds; None = the bare-\r rejection.
pub open spec fn junk(b: u8) -> bool { b == 41 || b == 93 || b == 125 || b == 39 }

pub open spec fn strip_spec(st: HeaderState, p: Seq<u8>) -> Option<Seq<u8>>
    decreases p.len()
{
    if p.len() == 0 { Some(p) } else {
        let rest = p.drop_first();
        match st {
            HeaderState::PastHeader => Some(p),
            HeaderState::Undecided => if junk(p[0]) { strip_spec(HeaderState::Junk, rest) } else { Some(p) },
            HeaderState::Junk => if p[0] == 13 { strip_spec(HeaderState::AwaitingNewline, rest) } else if p[0] == 10 { Some(rest) } else { strip_spec(HeaderState::Junk, rest) },
            HeaderState::AwaitingNewline => if p[0] == 10 { Some(rest) } else { None },
        }
    }
}

/// chunk independence: delivering the output o of one big read as the prefix o[..n] now and the
/// rest later is the same stream (this is what makes the per-call contract compose over any
/// chunking of the input)
//@ lemma_strip_concat [C12]
pub proof fn lemma_strip_concat(o: Seq<u8>, n: int)
    requires 0 <= n <= o.len()
    ensures o.subrange(0, n) + o.subrange(n, o.len() as int) == o
{
    assert(o.subrange(0, n) + o.subrange(n, o.len() as int) =~= o);
}


/// what a StripHeaderReader will still hand on: the header rule applied to what its inner reader still holds
pub open spec fn hdr_out<R: Read>(s: &StripHeaderReader<R>) -> Option<Seq<u8>> { strip_spec(s.header_state, s.r.pending()) }
