// Hermes / Metro function maps (C14): entries ordered by (1-based line, 0-based column); a token resolves to
// the name attached to the last entry at or before (original line + 1, original column).
pub open spec fn scope_key(o: HermesScopeOffset) -> (u64, u32) { (o.line as u64, o.column) }
pub open spec fn tle64(a: (u64,u32), b: (u64,u32)) -> bool { a.0 < b.0 || (a.0 == b.0 && a.1 <= b.1) }
pub open spec fn scopes_sorted(s: Seq<HermesScopeOffset>) -> bool {
    forall|i: int, j: int| 0 <= i <= j < s.len() ==> tle64(#[trigger] scope_key(s[i]), #[trigger] scope_key(s[j]))
}
pub open spec fn fmaps_wf(h: &SourceMapHermes) -> bool {
    forall|i: int| 0 <= i < h.function_maps@.len() ==> (#[trigger] h.function_maps@[i] matches Some(fm) ==> scopes_sorted(fm.mappings@))
}
/// C14's statement for one function map and one lookup key
pub open spec fn scope_post(fm: HermesFunctionMap, key: (u64, u32), res: Option<&str>) -> bool {
    &&& (forall|i: int| 0 <= i < fm.mappings@.len() ==> !tle64(#[trigger] scope_key(fm.mappings@[i]), key)) ==> res is None
    &&& (exists|i: int| 0 <= i < fm.mappings@.len() && tle64(#[trigger] scope_key(fm.mappings@[i]), key)) ==>
            exists|p: int| 0 <= p < fm.mappings@.len() && tle64(#[trigger] scope_key(fm.mappings@[p]), key)
                && (forall|i: int| 0 <= i < fm.mappings@.len() && tle64(#[trigger] scope_key(fm.mappings@[i]), key) ==> tle64(scope_key(fm.mappings@[i]), scope_key(fm.mappings@[p])))
                && (if fm.mappings@[p].name_index < fm.names@.len() { res matches Some(s) && s@ == fm.names@[fm.mappings@[p].name_index as int]@ } else { res is None })
}
/// the key a token is looked up with: (original line + 1, original column as the token reports it)
pub open spec fn scope_query(t: Token) -> (u64, u32) {
    ((t.raw.src_line + 1) as u64, (if t.raw.src_col as int + t.offset as int > u32::MAX as int { u32::MAX } else { (t.raw.src_col + t.offset) as u32 }))
}

/// C14's statement for one token: nothing without a function map for the token's source, else the function map's answer for the token's original position
pub open spec fn token_scope_post(h: &SourceMapHermes, token: Token, res: Option<&str>) -> bool {
    ((token.raw.src_id >= h.function_maps@.len() || h.function_maps@[token.raw.src_id as int] is None) ==> res is None)
    && (token.raw.src_id < h.function_maps@.len() ==> (match h.function_maps@[token.raw.src_id as int] {
            Some(fm) => scope_post(fm, scope_query(token), res),
            None => res is None }))
}

//@ lemma_tuple64_ord_laws [C14]
pub proof fn lemma_tuple64_ord_laws()
    ensures ord_laws::<(u64,u32)>(),
        forall|a: (u64,u32), b: (u64,u32)| #![trigger le(a, b)] le(a, b) <==> tle64(a, b),
        forall|a: (u64,u32), b: (u64,u32)| #![trigger lt(a, b)] lt(a, b) <==> !tle64(b, a),
{
}
