// C14, function-map decoding: an independent reading of Metro's function-map "mappings" string
// (metro-symbolicate SourceMetadataMapConsumer): groups separated by ';', segments by ','; empty groups and empty
// segments carry nothing; a segment is 1 to 3 VLQ values: column (relative to the previous segment of the group, 0 at
// the start of a group), name index (relative to the previous one anywhere; 0 if omitted), line (relative to the
// previous one anywhere, starting at 1; 0 if omitted -- a ';' does NOT advance the line, only the third value does).
// Each segment yields one entry (line, column, name index).  A value that leaves the 32-bit range is outside the
// property's domain (Unfit: nothing is claimed).
pub struct HSt { pub line: int, pub name_index: int, pub column: int }
pub open spec fn hst0() -> HSt { HSt { line: 1, name_index: 0, column: 0 } }
pub enum HOut { Good(Seq<HermesScopeOffset>, HSt), Bad, Unfit }
pub open spec fn h_in_u32(x: int) -> bool { 0 <= x < 0x1_0000_0000 }

pub open spec fn h_segment(seg: Seq<u8>, acc: Seq<HermesScopeOffset>, st: HSt) -> HOut {
    if seg.len() == 0 { HOut::Good(acc, st) } else {
        match vlq_parse(seg) {
            None => HOut::Bad,
            Some(v) => if !all_fit(v) { HOut::Unfit } else {
                let col = st.column + v[0];
                let ni = st.name_index + (if v.len() > 1 { v[1] } else { 0 });
                let ln = st.line + (if v.len() > 2 { v[2] } else { 0 });
                if !h_in_u32(col) || !h_in_u32(ni) || !h_in_u32(ln) { HOut::Unfit } else {
                    HOut::Good(acc.push(HermesScopeOffset { line: ln as u32, column: col as u32, name_index: ni as u32 }), HSt { line: ln, name_index: ni, column: col })
                }
            }
        }
    }
}
pub open spec fn h_segs_upto(segs: Seq<Seq<u8>>, k: int, acc0: Seq<HermesScopeOffset>, st0: HSt) -> HOut
    decreases k
{
    if k <= 0 { HOut::Good(acc0, st0) } else {
        match h_segs_upto(segs, k - 1, acc0, st0) { HOut::Good(acc, st) => h_segment(segs[k - 1], acc, st), o => o }
    }
}
pub open spec fn h_group(g: Seq<u8>, acc: Seq<HermesScopeOffset>, st: HSt) -> HOut {
    if g.len() == 0 { HOut::Good(acc, st) } else {
        let segs = split_seq(g, 44u8);
        h_segs_upto(segs, segs.len() as int, acc, HSt { column: 0, ..st })
    }
}
pub open spec fn h_groups_upto(groups: Seq<Seq<u8>>, k: int) -> HOut
    decreases k
{
    if k <= 0 { HOut::Good(Seq::<HermesScopeOffset>::empty(), hst0()) } else {
        match h_groups_upto(groups, k - 1) { HOut::Good(acc, st) => h_group(groups[k - 1], acc, st), o => o }
    }
}
/// the reference reading of a function-map mappings string
pub open spec fn hermes_fmap_decode(raw: Seq<u8>) -> HOut {
    let groups = split_seq(raw, 59u8);
    h_groups_upto(groups, groups.len() as int)
}
pub open spec fn h_stuck(o: HOut) -> bool { o is Bad || o is Unfit }
pub proof fn lemma_h_segs_absorb(segs: Seq<Seq<u8>>, k: int, n: int, acc0: Seq<HermesScopeOffset>, st0: HSt)
    requires 0 <= k <= n, h_stuck(h_segs_upto(segs, k, acc0, st0))
    ensures h_segs_upto(segs, n, acc0, st0) == h_segs_upto(segs, k, acc0, st0)
    decreases n - k
{
    if k < n { lemma_h_segs_absorb(segs, k, n - 1, acc0, st0); }
}
pub proof fn lemma_h_groups_absorb(groups: Seq<Seq<u8>>, k: int, n: int)
    requires 0 <= k <= n, h_stuck(h_groups_upto(groups, k))
    ensures h_groups_upto(groups, n) == h_groups_upto(groups, k)
    decreases n - k
{
    if k < n { lemma_h_groups_absorb(groups, k, n - 1); }
}
/// machine state of the decoder vs the reference state after the same prefix
pub open spec fn h_rel(o: HOut, ms: Seq<HermesScopeOffset>, line: u32, name_index: u32) -> bool {
    match o { HOut::Unfit => true, HOut::Bad => false, HOut::Good(acc, st) => ms == acc && line == st.line && name_index == st.name_index }
}
pub open spec fn h_rel_col(o: HOut, ms: Seq<HermesScopeOffset>, line: u32, name_index: u32, column: u32) -> bool {
    h_rel(o, ms, line, name_index) && (o matches HOut::Good(acc, st) ==> column == st.column)
}
/// the contract of the function-map decoder against the reference
pub open spec fn h_post(o: HOut, res: Option<Vec<HermesScopeOffset>>) -> bool {
    match o { HOut::Good(acc, st) => res matches Some(v) && v@ == acc, HOut::Bad => res is None, HOut::Unfit => true }
}
