// C09, last sentence: a Hermes rewrite moves the per-source tables along with the sources.
/// entry `old_id` of a per-source table, nothing past its end
pub open spec fn pick<T>(t: Seq<Option<T>>, old_id: u32) -> Option<T> { if old_id < t.len() { t[old_id as int] } else { None } }
/// new table: entry i is the old table's entry for the old id that new source i remembers
pub open spec fn follows<T>(new: Seq<Option<T>>, old: Seq<Option<T>>, mapping: Seq<u32>) -> bool {
    new.len() == mapping.len() && forall|i: int| 0 <= i < mapping.len() ==> #[trigger] new[i] == pick(old, mapping[i])
}
pub open spec fn injective(m: Seq<u32>) -> bool { forall|i: int, j: int| 0 <= i < j < m.len() ==> #[trigger] m[i] != #[trigger] m[j] }
/// slot k of the table being emptied: still there unless one of the first n new sources took it
pub open spec fn untouched<T>(cur: Seq<Option<T>>, old: Seq<Option<T>>, mapping: Seq<u32>, n: int) -> bool {
    cur.len() == old.len() && forall|k: int| 0 <= k < old.len() ==> ((forall|j: int| 0 <= j < n ==> #[trigger] mapping[j] != k) ==> #[trigger] cur[k] == old[k])
}
//@ lemma_mapping_injective [C09]
/// distinct new sources remember distinct old ids (their names differ, and each old id has one name)
pub proof fn lemma_mapping_injective(mapping: Seq<u32>, us: Seq<Arc<str>>, sm: &SourceMap)
    requires no_dups(us), mapping_ok(mapping, us, sm)
    ensures injective(mapping)
{
    assert forall|i: int, j: int| 0 <= i < j < mapping.len() implies #[trigger] mapping[i] != #[trigger] mapping[j] by {
        if mapping[i] == mapping[j] {
            assert(arc_chars(&us[i]) == arc_chars(&us[j]));
        }
    }
}
//@ lemma_hermes_rewrite_keeps_scopes [C09 C14]
/// a token of the rewritten map whose new source remembers the old token's source (always so when the old map lists no source
/// name twice) resolves to the same enclosing function as the old token: same function map, same original position
pub proof fn lemma_hermes_rewrite_keeps_scopes(old_h: &SourceMapHermes, new_h: &SourceMapHermes, mapping: Seq<u32>, t_old: Token, t_new: Token, res: Option<&str>)
    requires
        follows(new_h.function_maps@, old_h.function_maps@, mapping),
        t_new.raw.src_line == t_old.raw.src_line, t_new.raw.src_col == t_old.raw.src_col, t_new.offset == t_old.offset,
        (t_new.raw.src_id < mapping.len() && mapping[t_new.raw.src_id as int] == t_old.raw.src_id)
            || (t_new.raw.src_id == 0xffff_ffffu32 && t_old.raw.src_id == 0xffff_ffffu32 && old_h.function_maps@.len() < 0xffff_ffff && mapping.len() < 0xffff_ffff),
    ensures token_scope_post(new_h, t_new, res) <==> token_scope_post(old_h, t_old, res)
{
    if t_new.raw.src_id < mapping.len() {
        assert(new_h.function_maps@[t_new.raw.src_id as int] == pick(old_h.function_maps@, mapping[t_new.raw.src_id as int]));
        assert(scope_query(t_new) == scope_query(t_old));
    }
}
