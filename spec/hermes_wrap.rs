// C14: what decode_hermes makes of the metadata: one function map per entry of x_facebook_sources, read from the first
// scope mapping of a non-null, non-empty entry; an entry whose mappings do not parse gives no function map (and nothing else)
//@ fm_post [C14]
pub open spec fn fm_post(v: Option<Vec<FacebookScopeMapping>>, res: Option<HermesFunctionMap>) -> bool {
    match v {
        None => res is None,
        Some(l) => if l@.len() == 0 { res is None } else {
            match hermes_fmap_decode(string_bytes(l@[0].mappings)) {
                HOut::Good(acc, st) => res matches Some(fm) && fm.mappings@ == acc && fm.names@ == l@[0].names@,
                HOut::Bad => res is None,
                HOut::Unfit => true,
            }
        },
    }
}
pub open spec fn without_fb(r: RawSourceMap) -> RawSourceMap { RawSourceMap { x_facebook_sources: None, ..r } }
