// Index maps (C08): a position resolves within the section with the greatest offset not after it;
// the delegated query is section-relative: line minus the section's line offset, and on the
// section's first line column minus its column offset.
pub open spec fn sec_key(s: SourceMapSection) -> (u32, u32) { s.offset }
pub open spec fn sections_sorted(s: Seq<SourceMapSection>) -> bool {
    forall|i: int, j: int| 0 <= i <= j < s.len() ==> tle(#[trigger] sec_key(s[i]), #[trigger] sec_key(s[j]))
}
pub open spec fn rel_line(line: u32, off: (u32, u32)) -> int { line - off.0 }
pub open spec fn rel_col(line: u32, col: u32, off: (u32, u32)) -> int { if line == off.0 { col - off.1 } else { col as int } }
