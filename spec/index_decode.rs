// C01 / C02 / C08: what decode_index makes of the "sections" array: one section per entry, at the entry's offset, with its url, and an embedded map of the
// kind the dispatch rule gives for the entry's document (nothing for an entry without a document).
pub open spec fn raw_sections(rsm: RawSourceMap) -> Seq<RawSection> { match rsm.sections { Some(v) => v@, None => Seq::empty() } }
pub open spec fn raw_kind_ok(rm: RawSourceMap, m: DecodedMap) -> bool { if rm.sections is Some { m is Index } else if rm.x_facebook_sources is Some { m is Hermes } else { m is Regular } }
pub open spec fn section_of_raw(rs: RawSection, s: SourceMapSection) -> bool {
    s.offset == (rs.offset.line, rs.offset.column) && s.url == rs.url
    && (match rs.map { Some(b) => s.map matches Some(m) && raw_kind_ok(*b, *m), None => s.map is None })
}
pub open spec fn sections_of_raw(raw: Seq<RawSection>, un: Seq<SourceMapSection>) -> bool {
    un.len() == raw.len() && forall|k: int| 0 <= k < raw.len() ==> section_of_raw(raw[k], #[trigger] un[k])
}
