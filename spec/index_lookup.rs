// Index maps (C08), lookup side: the answer of an index map, of a DecodedMap, of a regular map, as relations.
/// what a lookup needs of its input, recursively: sections ordered by offset (as decode_index leaves them), token lists
/// ordered by generated position (as every constructor leaves them)
pub open spec fn idx_lookup_wf(idx: SourceMapIndex) -> bool
    decreases idx
{
    sections_sorted(idx.sections@)
    && forall|i: int| 0 <= i < idx.sections@.len() ==> match (#[trigger] idx.sections@[i]).map {
        Some(b) => match *b {
            DecodedMap::Regular(sm) => sorted_tokens(sm.tokens@),
            DecodedMap::Index(inner) => idx_lookup_wf(inner),
            DecodedMap::Hermes(h) => sorted_tokens(h.sm.tokens@) },
        None => true }
}
pub open spec fn dm_lookup_wf(dm: DecodedMap) -> bool {
    match dm { DecodedMap::Regular(sm) => sorted_tokens(sm.tokens@), DecodedMap::Index(inner) => idx_lookup_wf(inner), DecodedMap::Hermes(h) => sorted_tokens(h.sm.tokens@) }
}
/// the answer of an index map: nothing before the first section; otherwise the answer of the section with the greatest
/// offset not after the position (nothing if it is unresolved) to the section-relative position
pub open spec fn idx_lookup_post<'a>(idx: &'a SourceMapIndex, line: u32, col: u32, res: Option<Token<'a>>) -> bool
    decreases *idx
{
    &&& ((forall|i: int| 0 <= i < idx.sections@.len() ==> !tle(#[trigger] sec_key(idx.sections@[i]), (line, col))) ==> res is None)
    &&& ((exists|i: int| 0 <= i < idx.sections@.len() && tle(#[trigger] sec_key(idx.sections@[i]), (line, col))) ==>
            exists|p: int| 0 <= p < idx.sections@.len()
                && tle(#[trigger] sec_key(idx.sections@[p]), (line, col))
                && (forall|i: int| 0 <= i < idx.sections@.len() && tle(#[trigger] sec_key(idx.sections@[i]), (line, col)) ==> tle(sec_key(idx.sections@[i]), sec_key(idx.sections@[p])))
                && 0 <= rel_line(line, idx.sections@[p].offset) && 0 <= rel_col(line, col, idx.sections@[p].offset)
                && (match idx.sections@[p].map {
                        Some(m) => match *m {
                            DecodedMap::Regular(sm) => sm_lookup_post(&sm, rel_line(line, idx.sections@[p].offset) as u32, rel_col(line, col, idx.sections@[p].offset) as u32, res),
                            DecodedMap::Index(inner) => idx_lookup_post(&inner, rel_line(line, idx.sections@[p].offset) as u32, rel_col(line, col, idx.sections@[p].offset) as u32, res),
                            DecodedMap::Hermes(h) => sm_lookup_post(&h.sm, rel_line(line, idx.sections@[p].offset) as u32, rel_col(line, col, idx.sections@[p].offset) as u32, res) },
                        None => res is None }))
}
/// the three-way dispatch of DecodedMap::lookup_token
pub open spec fn dm_lookup_post<'a>(dm: &'a DecodedMap, line: u32, col: u32, res: Option<Token<'a>>) -> bool {
    match *dm {
        DecodedMap::Regular(sm) => sm_lookup_post(&sm, line, col, res),
        DecodedMap::Index(inner) => idx_lookup_post(&inner, line, col, res),
        DecodedMap::Hermes(h) => sm_lookup_post(&h.sm, line, col, res) }
}
