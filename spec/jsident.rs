// C17: JavaScript identifiers and the text of a token, written from the statement (ECMA-262 IdentifierName: ID_Start / $ / _ then ID_Continue / $ / ZWNJ / ZWJ)
pub open spec fn id_start(c: char) -> bool { c == '$' || c == '_' || ascii_alpha(c) || ((c as u32) >= 128 && uni_id_start(c)) }
pub open spec fn id_continue(c: char) -> bool {
    c == '$' || c == '_' || c == '\u{200c}' || c == '\u{200d}' || ascii_alpha(c) || ascii_digit(c) || ((c as u32) >= 128 && uni_id_continue(c))
}
/// cs starts with an identifier of exactly k characters (maximal munch)
pub open spec fn ident_len(cs: Seq<char>, k: int) -> bool {
    1 <= k <= cs.len() && id_start(cs[0]) && (forall|j: int| 1 <= j < k ==> id_continue(#[trigger] cs[j])) && (k < cs.len() ==> !id_continue(cs[k]))
}
/// the whole of cs is one identifier
pub open spec fn is_ident(cs: Seq<char>) -> bool { ident_len(cs, cs.len() as int) }
/// res is the identifier cs starts with, nothing when it does not start with one
pub open spec fn ident_post(cs: Seq<char>, res: Option<&str>) -> bool {
    ((cs.len() == 0 || !id_start(cs[0])) ==> res is None)
    && ((cs.len() > 0 && id_start(cs[0])) ==> exists|k: int| #[trigger] ident_len(cs, k) && (res matches Some(r) && r@ == cs.subrange(0, k)))
}
/// res is the identifier at the start of the first whitespace-separated word of cs
pub open spec fn token_post(cs: Seq<char>, res: Option<&str>) -> bool {
    ((forall|j: int| 0 <= j < cs.len() ==> is_ws(#[trigger] cs[j])) ==> res is None)
    && (!(forall|j: int| 0 <= j < cs.len() ==> is_ws(#[trigger] cs[j])) ==> exists|a: int, b: int| #[trigger] first_word_at(cs, a, b) && ident_post(cs.subrange(a, b), res))
}
pub proof fn lemma_ident_len_unique(cs: Seq<char>, k1: int, k2: int)
    requires ident_len(cs, k1), ident_len(cs, k2)
    ensures k1 == k2
{
    if k1 < k2 { assert(id_continue(cs[k1])); }
    if k2 < k1 { assert(id_continue(cs[k2])); }
}
