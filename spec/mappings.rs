// Well-formedness of a decoded token (C06: "no successfully decoded map ever holds a token whose source or
// name index does not resolve"): no source and no name, or an in-range source and optionally an in-range name.
pub open spec fn wf_tok(t: RawToken, nsrc: int, nnames: int) -> bool {
    (t.src_id == 0xffff_ffffu32 || t.src_id < nsrc) && (t.name_id == 0xffff_ffffu32 || t.name_id < nnames) && (t.src_id == 0xffff_ffffu32 ==> t.name_id == 0xffff_ffffu32)
}
pub open spec fn all_wf(ts: Seq<RawToken>, nsrc: int, nnames: int) -> bool {
    forall|k: int| 0 <= k < ts.len() ==> wf_tok(#[trigger] ts[k], nsrc, nnames)
}

/// every piece of a split is no longer than the whole
pub proof fn lemma_split_piece_len(s: Seq<u8>, sep: u8)
    ensures forall|i: int| 0 <= i < split_seq(s, sep).len() ==> (#[trigger] split_seq(s, sep)[i]).len() <= s.len(),
        split_seq(s, sep).len() >= 1,
    decreases s.len()
{
    let k = find_sep(s, sep, 0);
    lemma_find_sep_range(s, sep, 0);
    if 0 <= k < s.len() {
        let rest = s.subrange(k + 1, s.len() as int);
        lemma_split_piece_len(rest, sep);
        let sp = split_seq(s, sep);
        assert forall|i: int| 0 <= i < sp.len() implies (#[trigger] sp[i]).len() <= s.len() by {
            if i > 0 { assert(sp[i] == split_seq(rest, sep)[i - 1]); }
        }
    }
}
pub proof fn lemma_find_sep_range(s: Seq<u8>, sep: u8, from: int)
    requires 0 <= from
    ensures from <= find_sep(s, sep, from) || find_sep(s, sep, from) == s.len(), find_sep(s, sep, from) <= s.len() || from > s.len(),
    decreases s.len() - from
{
    if from < s.len() && s[from] != sep { lemma_find_sep_range(s, sep, from + 1); }
}
