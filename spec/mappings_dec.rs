// Reference decoder for the "mappings" string (Source Map v3 + range-mappings proposal), written from the
// format: lines separated by ';' (generated line = number of preceding ';'), segments by ','; empty lines
// and empty segments carry nothing; a segment is 1, 4 or 5 VLQ values: generated column (relative to the
// previous segment of the line, 0 at line start), then source index, original line, original column,
// name index, each relative to the previous occurrence anywhere in the string; a source or name index
// outside the declared arrays is an error, computed in mathematical integers; the range flag of a
// segment is bit <segment position in line> of the line's range bitfield.  A position that leaves the
// 32-bit range is outside the property's domain (Unfit: nothing is claimed).
pub struct DecSt { pub dst_col: int, pub src_id: int, pub src_line: int, pub src_col: int, pub name_id: int }
pub open spec fn dec_st0() -> DecSt { DecSt { dst_col: 0, src_id: 0, src_line: 0, src_col: 0, name_id: 0 } }
pub open spec fn in_u32(x: int) -> bool { 0 <= x < 0x1_0000_0000 }

/// outcome of decoding a prefix: tokens and running state; Bad = malformed (must be rejected);
/// Unfit = a VLQ value beyond the 62-bit domain was met (outside the property's domain, nothing claimed)
pub enum DecOut { Good(Seq<RawToken>, DecSt), Bad, Unfit }


pub open spec fn dec_segment(seg: Seq<u8>, acc: Seq<RawToken>, st: DecSt, line_no: int, seg_idx: int, bits: Seq<bool>, nsrc: int, nnames: int) -> DecOut {
    if seg.len() == 0 { DecOut::Good(acc, st) } else {
        match vlq_parse(seg) {
            None => DecOut::Bad,
            Some(v) => if !all_fit(v) { DecOut::Unfit } else {
                let n = v.len();
                let dst_col = st.dst_col + v[0];
                let rng = bit_at(bits, seg_idx);
                if !in_u32(dst_col) { DecOut::Unfit } else
                if n == 1 {
                    DecOut::Good(acc.push(RawToken { dst_line: line_no as u32, dst_col: dst_col as u32, src_line: st.src_line as u32, src_col: st.src_col as u32,
                                                    src_id: 0xffff_ffffu32, name_id: 0xffff_ffffu32, is_range: rng }),
                                 DecSt { dst_col: dst_col, ..st })
                } else if n != 4 && n != 5 { DecOut::Bad } else {
                    let sid = st.src_id + v[1];
                    if !(0 <= sid < nsrc) { DecOut::Bad } else {
                        let sl = st.src_line + v[2];
                        let sc = st.src_col + v[3];
                        if !in_u32(sl) || !in_u32(sc) { DecOut::Unfit } else
                        if n == 5 {
                            let nid = st.name_id + v[4];
                            if !(0 <= nid < nnames) { DecOut::Bad } else {
                                DecOut::Good(acc.push(RawToken { dst_line: line_no as u32, dst_col: dst_col as u32, src_line: sl as u32, src_col: sc as u32,
                                                                src_id: sid as u32, name_id: nid as u32, is_range: rng }),
                                             DecSt { dst_col: dst_col, src_id: sid, src_line: sl, src_col: sc, name_id: nid })
                            }
                        } else {
                            DecOut::Good(acc.push(RawToken { dst_line: line_no as u32, dst_col: dst_col as u32, src_line: sl as u32, src_col: sc as u32,
                                                            src_id: sid as u32, name_id: 0xffff_ffffu32, is_range: rng }),
                                         DecSt { dst_col: dst_col, src_id: sid, src_line: sl, src_col: sc, name_id: st.name_id })
                        }
                    }
                }
            }
        }
    }
}

/// the first k segments of one line
pub open spec fn dec_segs_upto(segs: Seq<Seq<u8>>, k: int, acc0: Seq<RawToken>, st0: DecSt, line_no: int, bits: Seq<bool>, nsrc: int, nnames: int) -> DecOut
    decreases k
{
    if k <= 0 { DecOut::Good(acc0, st0) } else {
        match dec_segs_upto(segs, k - 1, acc0, st0, line_no, bits, nsrc, nnames) {
            DecOut::Good(acc, st) => dec_segment(segs[k - 1], acc, st, line_no, k - 1, bits, nsrc, nnames),
            o => o,
        }
    }
}

pub open spec fn dec_line(line: Seq<u8>, rmi: Seq<u8>, acc: Seq<RawToken>, st: DecSt, line_no: int, nsrc: int, nnames: int) -> DecOut {
    if line.len() == 0 { DecOut::Good(acc, st) }
    else if !rmi_valid(rmi) { DecOut::Bad }
    else {
        let segs = split_seq(line, 44u8);
        dec_segs_upto(segs, segs.len() as int, acc, DecSt { dst_col: 0, ..st }, line_no, rmi_bits(rmi), nsrc, nnames)
    }
}

pub open spec fn rmi_for(rmis: Seq<Seq<u8>>, i: int) -> Seq<u8> { if 0 <= i < rmis.len() { rmis[i] } else { Seq::<u8>::empty() } }

/// the first k lines
pub open spec fn dec_lines_upto(lines: Seq<Seq<u8>>, rmis: Seq<Seq<u8>>, k: int, nsrc: int, nnames: int) -> DecOut
    decreases k
{
    if k <= 0 { DecOut::Good(Seq::<RawToken>::empty(), dec_st0()) } else {
        match dec_lines_upto(lines, rmis, k - 1, nsrc, nnames) {
            DecOut::Good(acc, st) => dec_line(lines[k - 1], rmi_for(rmis, k - 1), acc, st, k - 1, nsrc, nnames),
            o => o,
        }
    }
}

/// the reference reading of a whole mappings string
pub open spec fn mappings_decode(mappings: Seq<u8>, range_mappings: Seq<u8>, nsrc: int, nnames: int) -> DecOut {
    let lines = split_seq(mappings, 59u8);
    dec_lines_upto(lines, split_seq(range_mappings, 59u8), lines.len() as int, nsrc, nnames)
}

/// decoded tokens agree with the reference on every meaningful field (original line / column of a token
/// without source are not defined by the format)
pub open spec fn tok_equiv(a: RawToken, b: RawToken) -> bool {
    a.dst_line == b.dst_line && a.dst_col == b.dst_col && a.src_id == b.src_id && a.name_id == b.name_id && a.is_range == b.is_range
        && (a.src_id != 0xffff_ffffu32 ==> a.src_line == b.src_line && a.src_col == b.src_col)
}
pub open spec fn toks_equiv(a: Seq<RawToken>, b: Seq<RawToken>) -> bool {
    a.len() == b.len() && forall|i: int| 0 <= i < a.len() ==> tok_equiv(#[trigger] a[i], b[i])
}

pub proof fn lemma_split_len(s: Seq<u8>, sep: u8)
    ensures 1 <= split_seq(s, sep).len() <= s.len() + 1
    decreases s.len()
{
    let k = find_sep(s, sep, 0);
    lemma_find_sep_range(s, sep, 0);
    if 0 <= k < s.len() { lemma_split_len(s.subrange(k + 1, s.len() as int), sep); }
}

/// relation between the machine state of the decoder and the reference state after the same prefix
pub open spec fn dec_rel(o: DecOut, toks: Seq<RawToken>, src_id: u32, src_line: u32, src_col: u32, name_id: u32) -> bool {
    match o {
        DecOut::Unfit => true,
        DecOut::Bad => false,
        DecOut::Good(ts, st) => toks_equiv(toks, ts) && src_id == st.src_id && src_line == st.src_line && src_col == st.src_col && name_id == st.name_id,
    }
}
pub open spec fn dec_rel_col(o: DecOut, toks: Seq<RawToken>, dst_col: u32, src_id: u32, src_line: u32, src_col: u32, name_id: u32) -> bool {
    dec_rel(o, toks, src_id, src_line, src_col, name_id) && (o matches DecOut::Good(ts, st) ==> dst_col == st.dst_col)
}
pub proof fn lemma_equiv_push(a: Seq<RawToken>, b: Seq<RawToken>, x: RawToken, y: RawToken)
    requires toks_equiv(a, b), tok_equiv(x, y)
    ensures toks_equiv(a.push(x), b.push(y))
{
    assert forall|i: int| 0 <= i < a.push(x).len() implies tok_equiv(#[trigger] a.push(x)[i], b.push(y)[i]) by {
        if i < a.len() { assert(a.push(x)[i] == a[i]); assert(b.push(y)[i] == b[i]); }
    }
}
/// the contract of the mapping loop against the reference
pub open spec fn dec_post(o: DecOut, ok: bool, toks: Seq<RawToken>) -> bool {
    match o { DecOut::Good(ts, st) => ok && toks_equiv(toks, ts), DecOut::Bad => !ok, DecOut::Unfit => true }
}

pub open spec fn stuck(o: DecOut) -> bool { o is Bad || o is Unfit }

/// Bad and Unfit are absorbing: the outcome of a longer prefix is the same
pub proof fn lemma_segs_absorb(segs: Seq<Seq<u8>>, k: int, n: int, acc0: Seq<RawToken>, st0: DecSt, line_no: int, bits: Seq<bool>, nsrc: int, nnames: int)
    requires 0 <= k <= n, stuck(dec_segs_upto(segs, k, acc0, st0, line_no, bits, nsrc, nnames))
    ensures dec_segs_upto(segs, n, acc0, st0, line_no, bits, nsrc, nnames) == dec_segs_upto(segs, k, acc0, st0, line_no, bits, nsrc, nnames)
    decreases n - k
{
    if k < n { lemma_segs_absorb(segs, k, n - 1, acc0, st0, line_no, bits, nsrc, nnames); }
}
pub proof fn lemma_lines_absorb(lines: Seq<Seq<u8>>, rmis: Seq<Seq<u8>>, k: int, n: int, nsrc: int, nnames: int)
    requires 0 <= k <= n, stuck(dec_lines_upto(lines, rmis, k, nsrc, nnames))
    ensures dec_lines_upto(lines, rmis, n, nsrc, nnames) == dec_lines_upto(lines, rmis, k, nsrc, nnames)
    decreases n - k
{
    if k < n { lemma_lines_absorb(lines, rmis, k, n - 1, nsrc, nnames); }
}
