// Reference encoder for the "mappings" string (Source Map v3), written from the format:
// tokens in order; ';' once per line advanced; ',' between segments of a line; every field as the
// VLQ of its difference to the previous emitted value (generated column restarts at 0 on each line;
// source index, original line, original column and name index run across the whole string);
// a token without source has 1 field, with source 4, with source and name 5.
// An exact consecutive duplicate of the previous token is not written (C01).
pub struct EncSt { pub line: int, pub col: int, pub src_id: int, pub src_line: int, pub src_col: int, pub name_id: int }

pub open spec fn enc_st0() -> EncSt { EncSt { line: 0, col: 0, src_id: 0, src_line: 0, src_col: 0, name_id: 0 } }
pub open spec fn tok_has_source(t: RawToken) -> bool { t.src_id != 0xffff_ffffu32 }
pub open spec fn tok_has_name(t: RawToken, nnames: int) -> bool { t.name_id != 0xffff_ffffu32 && t.name_id < nnames }
pub open spec fn is_dup(ts: Seq<RawToken>, i: int) -> bool { i > 0 && ts[i] == ts[i - 1] }

pub open spec fn semis(n: int) -> Seq<u8> decreases n { if n <= 0 { seq![] } else { semis(n - 1).push(59u8) } }

/// what token i contributes, given the running state before it
pub open spec fn enc_piece(ts: Seq<RawToken>, nnames: int, i: int, st: EncSt) -> Seq<u8> {
    let t = ts[i];
    if is_dup(ts, i) { seq![] } else {
        let sep = if t.dst_line != st.line { semis(t.dst_line - st.line) } else if i > 0 { seq![44u8] } else { seq![] };
        let col0 = if t.dst_line != st.line { 0 } else { st.col };
        sep + vlq_enc(t.dst_col - col0)
            + (if tok_has_source(t) {
                vlq_enc(t.src_id - st.src_id) + vlq_enc(t.src_line - st.src_line) + vlq_enc(t.src_col - st.src_col)
                    + (if tok_has_name(t, nnames) { vlq_enc(t.name_id - st.name_id) } else { seq![] })
              } else { seq![] })
    }
}
pub open spec fn enc_step(ts: Seq<RawToken>, nnames: int, i: int, st: EncSt) -> EncSt {
    let t = ts[i];
    if is_dup(ts, i) { st } else {
        EncSt {
            line: t.dst_line as int,
            col: t.dst_col as int,
            src_id: if tok_has_source(t) { t.src_id as int } else { st.src_id },
            src_line: if tok_has_source(t) { t.src_line as int } else { st.src_line },
            src_col: if tok_has_source(t) { t.src_col as int } else { st.src_col },
            name_id: if tok_has_source(t) && tok_has_name(t, nnames) { t.name_id as int } else { st.name_id },
        }
    }
}
pub open spec fn enc_st_after(ts: Seq<RawToken>, nnames: int, k: int) -> EncSt decreases k {
    if k <= 0 { enc_st0() } else { enc_step(ts, nnames, k - 1, enc_st_after(ts, nnames, k - 1)) }
}
pub open spec fn enc_upto(ts: Seq<RawToken>, nnames: int, k: int) -> Seq<u8> decreases k {
    if k <= 0 { seq![] } else { enc_upto(ts, nnames, k - 1) + enc_piece(ts, nnames, k - 1, enc_st_after(ts, nnames, k - 1)) }
}
/// the reference "mappings" string of a token list
pub open spec fn mappings_encode(ts: Seq<RawToken>, nnames: int) -> Seq<u8> { enc_upto(ts, nnames, ts.len() as int) }

/// the running line is the line of the last token seen (duplicates included)
pub proof fn lemma_enc_line(ts: Seq<RawToken>, nnames: int, k: int)
    requires 0 <= k <= ts.len()
    ensures enc_st_after(ts, nnames, k).line == (if k == 0 { 0int } else { ts[k - 1].dst_line as int })
    decreases k
{
    if k > 0 {
        lemma_enc_line(ts, nnames, k - 1);
        if is_dup(ts, k - 1) { }
    }
}
pub proof fn lemma_chars_add(a: Seq<u8>, b: Seq<u8>)
    ensures chars(a + b) == chars(a) + chars(b)
{
    assert(chars(a + b) =~= chars(a) + chars(b));
}
pub proof fn lemma_chars_push(a: Seq<u8>, b: u8)
    ensures chars(a.push(b)) == chars(a).push(b as char)
{
    assert(chars(a.push(b)) =~= chars(a).push(b as char));
}
