// C01 / C03: reading back what the reference writer wrote.  The reference reader of spec/mappings_dec.rs applied to the
// output of the reference writer of spec/mappings_enc.rs returns the token list with exact consecutive duplicates
// removed (token by token equivalent: generated position, source, name, range flag, and the original position of every
// token that has a source).  Both executables are proved equal to their reference (u5_encode: serialize_mappings,
// u4_decode: the mapping loop of decode_regular), so this is the round trip of the "mappings" string.

/// the token list as the writer emits it: an exact repetition of the previous token is skipped
pub open spec fn dedup(ts: Seq<RawToken>, k: int) -> Seq<RawToken>
    decreases k
{
    if k <= 0 { Seq::empty() } else if is_dup(ts, k - 1) { dedup(ts, k - 1) } else { dedup(ts, k - 1).push(ts[k - 1]) }
}

// ------------------------------------------------------------------ splitting a concatenation
pub open spec fn sep_free(s: Seq<u8>, sep: u8) -> bool { forall|i: int| 0 <= i < s.len() ==> #[trigger] s[i] != sep }

pub proof fn lemma_find_sep_free(s: Seq<u8>, sep: u8, from: int)
    requires sep_free(s, sep), 0 <= from
    ensures find_sep(s, sep, from) == s.len()
    decreases s.len() - from
{
    if from < s.len() { lemma_find_sep_free(s, sep, from + 1); }
}
pub proof fn lemma_split_sep_free(s: Seq<u8>, sep: u8)
    requires sep_free(s, sep)
    ensures split_seq(s, sep) == seq![s]
{
    lemma_find_sep_free(s, sep, 0);
}
/// a separator found inside the first part is found at the same place in the concatenation
pub proof fn lemma_find_sep_left(a: Seq<u8>, c: Seq<u8>, sep: u8, from: int)
    requires 0 <= from <= a.len(), find_sep(a, sep, from) < a.len()
    ensures find_sep(a + c, sep, from) == find_sep(a, sep, from)
    decreases a.len() - from
{
    if from < a.len() {
        assert((a + c)[from] == a[from]);
        if a[from] != sep { lemma_find_sep_left(a, c, sep, from + 1); }
    }
}
pub proof fn lemma_find_sep_shift(a: Seq<u8>, c: Seq<u8>, sep: u8, j: int)
    requires 0 <= j
    ensures find_sep(a + c, sep, a.len() + j) == a.len() + find_sep(c, sep, j)
    decreases c.len() - j
{
    if j < c.len() {
        assert((a + c)[a.len() + j] == c[j]);
        if c[j] != sep { lemma_find_sep_shift(a, c, sep, j + 1); }
    }
}
/// no separator in the first part: the search continues in the second
pub proof fn lemma_find_sep_right(a: Seq<u8>, c: Seq<u8>, sep: u8, from: int)
    requires 0 <= from <= a.len(), find_sep(a, sep, from) >= a.len()
    ensures find_sep(a + c, sep, from) == a.len() + find_sep(c, sep, 0)
    decreases a.len() - from
{
    if from < a.len() {
        assert((a + c)[from] == a[from]);
        lemma_find_sep_range(a, sep, from);
        if a[from] != sep { lemma_find_sep_right(a, c, sep, from + 1); }
    } else {
        lemma_find_sep_shift(a, c, sep, 0);
    }
}
/// split(a ++ [sep] ++ b) == split(a) ++ split(b)
pub proof fn lemma_split_at_sep(a: Seq<u8>, b: Seq<u8>, sep: u8)
    ensures split_seq(a + seq![sep] + b, sep) == split_seq(a, sep) + split_seq(b, sep)
    decreases a.len()
{
    let c = seq![sep] + b;
    let s = a + seq![sep] + b;
    assert(s =~= a + c);
    let k = find_sep(a, sep, 0);
    lemma_find_sep_range(a, sep, 0);
    if k < a.len() {
        lemma_find_sep_left(a, c, sep, 0);
        let a2 = a.subrange(k + 1, a.len() as int);
        assert(s.subrange(0, k) =~= a.subrange(0, k));
        assert(s.subrange(k + 1, s.len() as int) =~= a2 + seq![sep] + b);
        lemma_split_at_sep(a2, b, sep);
        assert(split_seq(s, sep) =~= split_seq(a, sep) + split_seq(b, sep));
    } else {
        lemma_find_sep_right(a, c, sep, 0);
        assert(c[0] == sep);
        assert(find_sep(c, sep, 0) == 0);
        assert(s.subrange(0, a.len() as int) =~= a);
        assert(s.subrange(a.len() as int + 1, s.len() as int) =~= b);
        assert(split_seq(a, sep) == seq![a]);
        assert(split_seq(s, sep) =~= split_seq(a, sep) + split_seq(b, sep));
    }
}
/// appending separator-free text extends the last piece
pub proof fn lemma_split_append_free(a: Seq<u8>, b: Seq<u8>, sep: u8)
    requires sep_free(b, sep)
    ensures
        split_seq(a, sep).len() >= 1,
        split_seq(a + b, sep) == split_seq(a, sep).drop_last().push(split_seq(a, sep).last() + b),
    decreases a.len()
{
    lemma_split_len(a, sep);
    let s = a + b;
    let k = find_sep(a, sep, 0);
    lemma_find_sep_range(a, sep, 0);
    if k < a.len() {
        lemma_find_sep_left(a, b, sep, 0);
        let a2 = a.subrange(k + 1, a.len() as int);
        assert(s.subrange(0, k) =~= a.subrange(0, k));
        assert(s.subrange(k + 1, s.len() as int) =~= a2 + b);
        lemma_split_append_free(a2, b, sep);
        let sa2 = split_seq(a2, sep);
        let head = seq![a.subrange(0, k)];
        assert(split_seq(a, sep) == head + sa2);
        assert(split_seq(s, sep) == head + split_seq(a2 + b, sep));
        assert((head + sa2).drop_last() =~= head + sa2.drop_last());
        assert((head + sa2).last() == sa2.last());
        assert(split_seq(s, sep) =~= split_seq(a, sep).drop_last().push(split_seq(a, sep).last() + b));
    } else {
        lemma_find_sep_right(a, b, sep, 0);
        lemma_find_sep_free(b, sep, 0);
        assert(find_sep(s, sep, 0) == s.len());
        assert(split_seq(s, sep) == seq![s]);
        assert(split_seq(a, sep) == seq![a]);
        assert(seq![a].drop_last().push(seq![a].last() + b) =~= seq![s]);
    }
}
pub open spec fn empties(n: int) -> Seq<Seq<u8>> { Seq::new(if n < 0 { 0nat } else { n as nat }, |i: int| Seq::<u8>::empty()) }
/// j line breaks after e add j empty lines
pub proof fn lemma_split_semis(e: Seq<u8>, j: int)
    requires 0 <= j
    ensures split_seq(e + semis(j), 59u8) == split_seq(e, 59u8) + empties(j)
    decreases j
{
    if j == 0 {
        assert(e + semis(0) =~= e);
        assert(split_seq(e, 59u8) + empties(0) =~= split_seq(e, 59u8));
    } else {
        lemma_split_semis(e, j - 1);
        let e1 = e + semis(j - 1);
        assert(e + semis(j) =~= e1 + seq![59u8] + Seq::<u8>::empty());
        lemma_split_at_sep(e1, Seq::<u8>::empty(), 59u8);
        assert(split_seq(Seq::<u8>::empty(), 59u8) == seq![Seq::<u8>::empty()]);
        assert(split_seq(e, 59u8) + empties(j - 1) + seq![Seq::<u8>::empty()] =~= split_seq(e, 59u8) + empties(j));
    }
}

// ------------------------------------------------------------------ the reader depends only on the pieces it has read
pub proof fn lemma_segs_prefix(s1: Seq<Seq<u8>>, s2: Seq<Seq<u8>>, k: int, acc0: Seq<RawToken>, st0: DecSt, line_no: int, bits: Seq<bool>, nsrc: int, nnames: int)
    requires 0 <= k <= s1.len(), k <= s2.len(), forall|i: int| 0 <= i < k ==> s1[i] == s2[i]
    ensures dec_segs_upto(s1, k, acc0, st0, line_no, bits, nsrc, nnames) == dec_segs_upto(s2, k, acc0, st0, line_no, bits, nsrc, nnames)
    decreases k
{
    if k > 0 { lemma_segs_prefix(s1, s2, k - 1, acc0, st0, line_no, bits, nsrc, nnames); }
}
pub proof fn lemma_lines_prefix(l1: Seq<Seq<u8>>, l2: Seq<Seq<u8>>, rmis: Seq<Seq<u8>>, k: int, nsrc: int, nnames: int)
    requires 0 <= k <= l1.len(), k <= l2.len(), forall|i: int| 0 <= i < k ==> l1[i] == l2[i]
    ensures dec_lines_upto(l1, rmis, k, nsrc, nnames) == dec_lines_upto(l2, rmis, k, nsrc, nnames)
    decreases k
{
    if k > 0 { lemma_lines_prefix(l1, l2, rmis, k - 1, nsrc, nnames); }
}

// ------------------------------------------------------------------ one segment
/// the values the writer puts into the segment of token t (running state est, column base col0)
pub open spec fn seg_vals(t: RawToken, est: EncSt, col0: int, nnames: int) -> Seq<int> {
    if tok_has_source(t) {
        if tok_has_name(t, nnames) { seq![t.dst_col - col0, t.src_id - est.src_id, t.src_line - est.src_line, t.src_col - est.src_col, t.name_id - est.name_id] }
        else { seq![t.dst_col - col0, t.src_id - est.src_id, t.src_line - est.src_line, t.src_col - est.src_col] }
    } else { seq![t.dst_col - col0] }
}
pub open spec fn seg_bytes(t: RawToken, est: EncSt, col0: int, nnames: int) -> Seq<u8> { vlq_enc_list(seg_vals(t, est, col0, nnames)) }
pub open spec fn piece_sep(ts: Seq<RawToken>, i: int, est: EncSt) -> Seq<u8> {
    if ts[i].dst_line != est.line { semis(ts[i].dst_line - est.line) } else if i > 0 { seq![44u8] } else { seq![] }
}
pub open spec fn piece_col0(ts: Seq<RawToken>, i: int, est: EncSt) -> int { if ts[i].dst_line != est.line { 0 } else { est.col } }

pub proof fn lemma_enc_list_1(a: int) ensures vlq_enc_list(seq![a]) == vlq_enc(a) {
    lemma_enc_list_push(seq![], a);
    assert(Seq::<int>::empty().push(a) =~= seq![a]);
    assert(vlq_enc_list(Seq::<int>::empty()) =~= Seq::<u8>::empty());
    assert(Seq::<u8>::empty() + vlq_enc(a) =~= vlq_enc(a));
}
pub proof fn lemma_piece_shape(ts: Seq<RawToken>, nnames: int, i: int, est: EncSt)
    requires 0 <= i < ts.len(), !is_dup(ts, i)
    ensures enc_piece(ts, nnames, i, est) == piece_sep(ts, i, est) + seg_bytes(ts[i], est, piece_col0(ts, i, est), nnames)
{
    let t = ts[i];
    let col0 = piece_col0(ts, i, est);
    let a = t.dst_col - col0; let b = t.src_id - est.src_id; let c = t.src_line - est.src_line; let d = t.src_col - est.src_col; let e = t.name_id - est.name_id;
    lemma_enc_list_1(a);
    if tok_has_source(t) {
        lemma_enc_list_push(seq![a], b); assert(seq![a].push(b) =~= seq![a, b]);
        lemma_enc_list_push(seq![a, b], c); assert(seq![a, b].push(c) =~= seq![a, b, c]);
        lemma_enc_list_push(seq![a, b, c], d); assert(seq![a, b, c].push(d) =~= seq![a, b, c, d]);
        if tok_has_name(t, nnames) {
            lemma_enc_list_push(seq![a, b, c, d], e); assert(seq![a, b, c, d].push(e) =~= seq![a, b, c, d, e]);
            assert(enc_piece(ts, nnames, i, est) =~= piece_sep(ts, i, est) + seg_bytes(t, est, col0, nnames));
        } else {
            assert(enc_piece(ts, nnames, i, est) =~= piece_sep(ts, i, est) + seg_bytes(t, est, col0, nnames));
        }
    } else {
        assert(enc_piece(ts, nnames, i, est) =~= piece_sep(ts, i, est) + seg_bytes(t, est, col0, nnames));
    }
}
/// VLQ text holds neither ',' nor ';' and a non-empty list gives non-empty text
pub proof fn lemma_enc_list_free(xs: Seq<int>)
    ensures sep_free(vlq_enc_list(xs), 44u8), sep_free(vlq_enc_list(xs), 59u8), xs.len() > 0 ==> vlq_enc_list(xs).len() > 0
    decreases xs.len()
{
    if xs.len() > 0 {
        lemma_enc_list_free(xs.drop_last());
        lemma_enc_alphabet(vlq_raw(xs.last()));
        lemma_enc_len(vlq_raw(xs.last()));
        let p = vlq_enc_list(xs.drop_last()); let q = vlq_enc(xs.last());
        assert forall|i: int| 0 <= i < (p + q).len() implies #[trigger] (p + q)[i] != 44u8 && (p + q)[i] != 59u8 by {
            if i < p.len() { assert(p[i] != 44u8 && p[i] != 59u8); } else { assert((p + q)[i] == q[i - p.len()]); }
        }
    }
}
pub open spec fn st_match(st: DecSt, est: EncSt) -> bool {
    st.src_id == est.src_id && st.src_line == est.src_line && st.src_col == est.src_col && st.name_id == est.name_id
}
pub open spec fn est_u32(est: EncSt) -> bool {
    in_u32(est.col) && in_u32(est.src_id) && in_u32(est.src_line) && in_u32(est.src_col) && in_u32(est.name_id) && est.line >= 0
}
/// the reader, given the writer's segment for token t, appends a token equivalent to t and reaches the writer's state
pub proof fn lemma_dec_segment_of_token(ts: Seq<RawToken>, i: int, est: EncSt, col0: int, acc: Seq<RawToken>, st: DecSt, seg_idx: int, bits: Seq<bool>, nsrc: int, nnames: int)
    requires
        0 <= i < ts.len(), !is_dup(ts, i),
        wf_tok(ts[i], nsrc, nnames), est_u32(est), in_u32(col0), st_match(st, est), st.dst_col == col0,
        ts[i].is_range == bit_at(bits, seg_idx),
    ensures
        dec_segment(seg_bytes(ts[i], est, col0, nnames), acc, st, ts[i].dst_line as int, seg_idx, bits, nsrc, nnames) matches DecOut::Good(acc2, st2)
            && acc2.len() == acc.len() + 1 && acc2.drop_last() == acc && tok_equiv(ts[i], acc2.last())
            && st_match(st2, enc_step(ts, nnames, i, est)) && st2.dst_col == ts[i].dst_col && est_u32(enc_step(ts, nnames, i, est)),
{
    let t = ts[i];
    let vals = seg_vals(t, est, col0, nnames);
    lemma_diff_in_domain(t.dst_col, col0 as u32);
    lemma_diff_in_domain(t.src_id, est.src_id as u32);
    lemma_diff_in_domain(t.src_line, est.src_line as u32);
    lemma_diff_in_domain(t.src_col, est.src_col as u32);
    lemma_diff_in_domain(t.name_id, est.name_id as u32);
    assert(all_fit(vals));
    lemma_roundtrip_list(vals);
    lemma_enc_list_free(vals);
    let o = dec_segment(seg_bytes(t, est, col0, nnames), acc, st, t.dst_line as int, seg_idx, bits, nsrc, nnames);
    assert(vlq_parse(seg_bytes(t, est, col0, nnames)) == Some(vals));
    if tok_has_source(t) {
        if tok_has_name(t, nnames) { assert(vals.len() == 5); } else { assert(vals.len() == 4); }
    } else { assert(vals.len() == 1); }
    match o {
        DecOut::Good(acc2, st2) => { assert(acc2.drop_last() =~= acc); }
        _ => {}
    }
}

// ------------------------------------------------------------------ the induction over the token list
/// position of token i's segment within its line: segments the writer has emitted on that line before it
pub open spec fn line_segs(ts: Seq<RawToken>, k: int) -> int
    decreases k
{
    if k <= 0 { 0 } else if is_dup(ts, k - 1) { line_segs(ts, k - 1) } else if k - 1 > 0 && ts[k - 1].dst_line == ts[k - 2].dst_line { line_segs(ts, k - 1) + 1 } else { 1 }
}
/// the range flags the reader is given agree with the tokens: flag of (line, segment position) == is_range of that token
pub open spec fn range_ok(ts: Seq<RawToken>, rmis: Seq<Seq<u8>>) -> bool {
    &&& forall|l: int| rmi_valid(#[trigger] rmi_for(rmis, l))
    &&& forall|i: int| 0 <= i < ts.len() && !is_dup(ts, i) ==> (#[trigger] ts[i]).is_range == bit_at(rmi_bits(rmi_for(rmis, ts[i].dst_line as int)), line_segs(ts, i + 1) - 1)
}
pub open spec fn rt_inv(ts: Seq<RawToken>, nsrc: int, nnames: int, rmis: Seq<Seq<u8>>, k: int) -> bool {
    let e = enc_upto(ts, nnames, k); let est = enc_st_after(ts, nnames, k); let lines = split_seq(e, 59u8);
    &&& est_u32(est)
    &&& lines.len() == est.line + 1
    &&& (k > 0 ==> lines.last().len() > 0 && split_seq(lines.last(), 44u8).len() == line_segs(ts, k))
    &&& (match dec_lines_upto(lines, rmis, lines.len() as int, nsrc, nnames) {
            DecOut::Good(acc, st) => toks_equiv(dedup(ts, k), acc) && st_match(st, est) && (k > 0 ==> st.dst_col == est.col),
            _ => false })
}
pub proof fn lemma_rt_step_dup(ts: Seq<RawToken>, nsrc: int, nnames: int, rmis: Seq<Seq<u8>>, k: int)
    requires 0 <= k < ts.len(), sorted_tokens(ts), all_wf(ts, nsrc, nnames), range_ok(ts, rmis), rt_inv(ts, nsrc, nnames, rmis, k),
        is_dup(ts, k),
    ensures rt_inv(ts, nsrc, nnames, rmis, k + 1)
{
    let e = enc_upto(ts, nnames, k); let est = enc_st_after(ts, nnames, k); let lines = split_seq(e, 59u8);
    let n = lines.len() as int;
    let t = ts[k];
    lemma_enc_line(ts, nnames, k);
    lemma_split_len(e, 59u8);
    let e2 = enc_upto(ts, nnames, k + 1);
    let est2 = enc_st_after(ts, nnames, k + 1);
    assert(est2 == enc_step(ts, nnames, k, est));
    assert(e2 == e + enc_piece(ts, nnames, k, est));
    assert(e2 =~= e);
    assert(line_segs(ts, k + 1) == line_segs(ts, k));
}
pub proof fn lemma_rt_step_same_line(ts: Seq<RawToken>, nsrc: int, nnames: int, rmis: Seq<Seq<u8>>, k: int)
    requires 0 <= k < ts.len(), sorted_tokens(ts), all_wf(ts, nsrc, nnames), range_ok(ts, rmis), rt_inv(ts, nsrc, nnames, rmis, k),
        !is_dup(ts, k), k > 0, ts[k].dst_line == enc_st_after(ts, nnames, k).line,
    ensures rt_inv(ts, nsrc, nnames, rmis, k + 1)
{
    let e = enc_upto(ts, nnames, k); let est = enc_st_after(ts, nnames, k); let lines = split_seq(e, 59u8);
    let n = lines.len() as int;
    let t = ts[k];
    lemma_enc_line(ts, nnames, k);
    lemma_split_len(e, 59u8);
    let e2 = enc_upto(ts, nnames, k + 1);
    let est2 = enc_st_after(ts, nnames, k + 1);
    assert(est2 == enc_step(ts, nnames, k, est));
    assert(e2 == e + enc_piece(ts, nnames, k, est));
    lemma_piece_shape(ts, nnames, k, est);
    let col0 = piece_col0(ts, k, est);
    let f = seg_bytes(t, est, col0, nnames);
    lemma_enc_list_free(seg_vals(t, est, col0, nnames));
    assert(wf_tok(t, nsrc, nnames));
    let rmi_t = rmi_for(rmis, t.dst_line as int);
    let bits = rmi_bits(rmi_t);
    assert(rmi_valid(rmi_t));
    let full = dec_lines_upto(lines, rmis, n, nsrc, nnames);
    let acc = full->Good_0; let st = full->Good_1;
    // same line: ',' then the segment
    let last = lines.last();
    let tail = seq![44u8] + f;
    assert(e2 =~= e + tail);
    assert(sep_free(tail, 59u8)) by {
        assert forall|i: int| 0 <= i < tail.len() implies #[trigger] tail[i] != 59u8 by { if i > 0 { assert(tail[i] == f[i - 1]); } }
    }
    lemma_split_append_free(e, tail, 59u8);
    let last2 = last + tail;
    let lines2 = lines.drop_last().push(last2);
    assert(split_seq(e2, 59u8) == lines2);
    assert(lines2.len() == n);
    // lines before the last are untouched
    lemma_lines_prefix(lines2, lines, rmis, n - 1, nsrc, nnames);
    let before = dec_lines_upto(lines, rmis, n - 1, nsrc, nnames);
    assert(before is Good);
    let a0 = before->Good_0; let s0 = before->Good_1;
    assert(rmi_for(rmis, n - 1) == rmi_t);
    assert(dec_line(last, rmi_t, a0, s0, n - 1, nsrc, nnames) == full);
    // the last line gains one segment
    let segs = split_seq(last, 44u8);
    assert(last2 =~= last + seq![44u8] + f);
    lemma_split_at_sep(last, f, 44u8);
    lemma_split_sep_free(f, 44u8);
    let segs2 = segs + seq![f];
    assert(split_seq(last2, 44u8) == segs2);
    let m = segs.len() as int;
    lemma_split_len(last, 44u8);
    let s00 = DecSt { dst_col: 0, ..s0 };
    lemma_segs_prefix(segs2, segs, m, a0, s00, n - 1, bits, nsrc, nnames);
    assert(dec_segs_upto(segs, m, a0, s00, n - 1, bits, nsrc, nnames) == full);
    assert(segs2[m] == f);
    assert(line_segs(ts, k + 1) == line_segs(ts, k) + 1);
    lemma_dec_segment_of_token(ts, k, est, col0, acc, st, m, bits, nsrc, nnames);
    let res = dec_segment(f, acc, st, n - 1, m, bits, nsrc, nnames);
    assert(dec_segs_upto(segs2, m + 1, a0, s00, n - 1, bits, nsrc, nnames) == res);
    assert(dec_line(last2, rmi_t, a0, s00, n - 1, nsrc, nnames) == dec_line(last2, rmi_t, a0, s0, n - 1, nsrc, nnames));
    assert(dec_lines_upto(lines2, rmis, n, nsrc, nnames) == res);
    let acc2 = res->Good_0;
    assert(acc2 =~= acc.push(acc2.last()));
    lemma_equiv_push(dedup(ts, k), acc, t, acc2.last());
    assert(lines2.last() == last2);
}
pub proof fn lemma_rt_step_first(ts: Seq<RawToken>, nsrc: int, nnames: int, rmis: Seq<Seq<u8>>, k: int)
    requires 0 <= k < ts.len(), sorted_tokens(ts), all_wf(ts, nsrc, nnames), range_ok(ts, rmis), rt_inv(ts, nsrc, nnames, rmis, k),
        !is_dup(ts, k), k == 0, ts[k].dst_line == enc_st_after(ts, nnames, k).line,
    ensures rt_inv(ts, nsrc, nnames, rmis, k + 1)
{
    let e = enc_upto(ts, nnames, k); let est = enc_st_after(ts, nnames, k); let lines = split_seq(e, 59u8);
    let n = lines.len() as int;
    let t = ts[k];
    lemma_enc_line(ts, nnames, k);
    lemma_split_len(e, 59u8);
    let e2 = enc_upto(ts, nnames, k + 1);
    let est2 = enc_st_after(ts, nnames, k + 1);
    assert(est2 == enc_step(ts, nnames, k, est));
    assert(e2 == e + enc_piece(ts, nnames, k, est));
    lemma_piece_shape(ts, nnames, k, est);
    let col0 = piece_col0(ts, k, est);
    let f = seg_bytes(t, est, col0, nnames);
    lemma_enc_list_free(seg_vals(t, est, col0, nnames));
    assert(wf_tok(t, nsrc, nnames));
    let rmi_t = rmi_for(rmis, t.dst_line as int);
    let bits = rmi_bits(rmi_t);
    assert(rmi_valid(rmi_t));
    let full = dec_lines_upto(lines, rmis, n, nsrc, nnames);
    let acc = full->Good_0; let st = full->Good_1;
    // very first token, on line 0: no separator
    assert(e =~= Seq::<u8>::empty());
    assert(e2 =~= f);
    lemma_split_sep_free(f, 59u8);
    lemma_split_sep_free(f, 44u8);
    let lines2 = seq![f];
    assert(split_seq(e2, 59u8) == lines2);
    assert(dec_lines_upto(lines2, rmis, 0, nsrc, nnames) == DecOut::Good(Seq::<RawToken>::empty(), dec_st0()));
    lemma_dec_segment_of_token(ts, k, est, col0, Seq::<RawToken>::empty(), dec_st0(), 0, bits, nsrc, nnames);
    let res = dec_segment(f, Seq::<RawToken>::empty(), dec_st0(), 0, 0, bits, nsrc, nnames);
    assert(seq![f][0] == f);
    assert(dec_segs_upto(seq![f], 0, Seq::<RawToken>::empty(), dec_st0(), 0, bits, nsrc, nnames) == DecOut::Good(Seq::<RawToken>::empty(), dec_st0()));
    assert(dec_segs_upto(seq![f], 1, Seq::<RawToken>::empty(), dec_st0(), 0, bits, nsrc, nnames) == res);
    assert(dec_lines_upto(lines2, rmis, 1, nsrc, nnames) == res);
    let acc2 = res->Good_0;
    assert(acc2 =~= Seq::<RawToken>::empty().push(acc2.last()));
    lemma_equiv_push(dedup(ts, k), Seq::<RawToken>::empty(), t, acc2.last());
    assert(line_segs(ts, 1) == 1);
}
pub proof fn lemma_rt_step_new_line(ts: Seq<RawToken>, nsrc: int, nnames: int, rmis: Seq<Seq<u8>>, k: int)
    requires 0 <= k < ts.len(), sorted_tokens(ts), all_wf(ts, nsrc, nnames), range_ok(ts, rmis), rt_inv(ts, nsrc, nnames, rmis, k),
        !is_dup(ts, k), ts[k].dst_line != enc_st_after(ts, nnames, k).line,
    ensures rt_inv(ts, nsrc, nnames, rmis, k + 1)
{
    let e = enc_upto(ts, nnames, k); let est = enc_st_after(ts, nnames, k); let lines = split_seq(e, 59u8);
    let n = lines.len() as int;
    let t = ts[k];
    lemma_enc_line(ts, nnames, k);
    lemma_split_len(e, 59u8);
    let e2 = enc_upto(ts, nnames, k + 1);
    let est2 = enc_st_after(ts, nnames, k + 1);
    assert(est2 == enc_step(ts, nnames, k, est));
    assert(e2 == e + enc_piece(ts, nnames, k, est));
    lemma_piece_shape(ts, nnames, k, est);
    let col0 = piece_col0(ts, k, est);
    let f = seg_bytes(t, est, col0, nnames);
    lemma_enc_list_free(seg_vals(t, est, col0, nnames));
    assert(wf_tok(t, nsrc, nnames));
    let rmi_t = rmi_for(rmis, t.dst_line as int);
    let bits = rmi_bits(rmi_t);
    assert(rmi_valid(rmi_t));
    let full = dec_lines_upto(lines, rmis, n, nsrc, nnames);
    let acc = full->Good_0; let st = full->Good_1;
    // a later line: d line breaks, then the segment
    let d = t.dst_line - est.line;
    if k > 0 { assert(tle(tkey(ts[k - 1]), tkey(ts[k]))); }
    assert(d > 0);
    assert(e2 =~= e + semis(d) + f);
    lemma_split_new_line(e, d, f);
    let lines2 = lines + empties(d - 1) + seq![f];
    assert(split_seq(e2, 59u8) == lines2);
    let st00 = DecSt { dst_col: 0, ..st };
    lemma_read_new_line(lines, rmis, d, f, nsrc, nnames);
    assert(n + d - 1 == t.dst_line);
    lemma_dec_segment_of_token(ts, k, est, col0, acc, st00, 0, bits, nsrc, nnames);
    let res = dec_segment(f, acc, st00, t.dst_line as int, 0, bits, nsrc, nnames);
    assert(dec_lines_upto(lines2, rmis, n + d, nsrc, nnames) == res);
    let acc2 = res->Good_0;
    assert(acc2 =~= acc.push(acc2.last()));
    lemma_equiv_push(dedup(ts, k), acc, t, acc2.last());
    assert(line_segs(ts, k + 1) == 1);
    assert(lines2.last() == f);
    lemma_split_sep_free(f, 44u8);
}
/// text: d line breaks and a ';'-free piece after e give e's lines, d - 1 empty lines, and the piece
pub proof fn lemma_split_new_line(e: Seq<u8>, d: int, f: Seq<u8>)
    requires d >= 1, sep_free(f, 59u8)
    ensures split_seq(e + semis(d) + f, 59u8) == split_seq(e, 59u8) + empties(d - 1) + seq![f]
{
    let e1 = e + semis(d - 1);
    assert(semis(d) == semis(d - 1).push(59u8));
    assert(e + semis(d) + f =~= e1 + seq![59u8] + f);
    lemma_split_semis(e, d - 1);
    lemma_split_at_sep(e1, f, 59u8);
    lemma_split_sep_free(f, 59u8);
}
/// reader: after complete lines with outcome Good(acc, st), d - 1 empty lines and a one-segment line f read as that segment at column base 0
pub proof fn lemma_read_new_line(lines: Seq<Seq<u8>>, rmis: Seq<Seq<u8>>, d: int, f: Seq<u8>, nsrc: int, nnames: int)
    requires d >= 1, f.len() > 0, sep_free(f, 44u8), dec_lines_upto(lines, rmis, lines.len() as int, nsrc, nnames) is Good,
        rmi_valid(rmi_for(rmis, lines.len() + d - 1)),
    ensures ({
        let full = dec_lines_upto(lines, rmis, lines.len() as int, nsrc, nnames);
        let lines2 = lines + empties(d - 1) + seq![f];
        let ln = lines.len() + d - 1;
        dec_lines_upto(lines2, rmis, lines.len() + d, nsrc, nnames)
            == dec_segment(f, full->Good_0, DecSt { dst_col: 0, ..full->Good_1 }, ln, 0, rmi_bits(rmi_for(rmis, ln)), nsrc, nnames) }),
{
    let n = lines.len() as int;
    let full = dec_lines_upto(lines, rmis, n, nsrc, nnames);
    let acc = full->Good_0; let st = full->Good_1;
    let lines2 = lines + empties(d - 1) + seq![f];
    let ln = n + d - 1;
    let rmi_t = rmi_for(rmis, ln);
    let bits = rmi_bits(rmi_t);
    assert(lines2.len() == n + d);
    lemma_lines_prefix(lines2, lines, rmis, n, nsrc, nnames);
    lemma_rt_empty_lines(lines2, rmis, n, d - 1, nsrc, nnames);
    assert(dec_lines_upto(lines2, rmis, ln, nsrc, nnames) == full);
    assert(lines2[ln] == f);
    lemma_split_sep_free(f, 44u8);
    let st00 = DecSt { dst_col: 0, ..st };
    let res = dec_segment(f, acc, st00, ln, 0, bits, nsrc, nnames);
    assert(seq![f][0] == f);
    assert(dec_segs_upto(seq![f], 0, acc, st00, ln, bits, nsrc, nnames) == DecOut::Good(acc, st00));
    assert(dec_segs_upto(seq![f], 1, acc, st00, ln, bits, nsrc, nnames) == res);
    assert(dec_line(f, rmi_t, acc, st, ln, nsrc, nnames) == res);
}
pub proof fn lemma_rt_step(ts: Seq<RawToken>, nsrc: int, nnames: int, rmis: Seq<Seq<u8>>, k: int)
    requires 0 <= k < ts.len(), sorted_tokens(ts), all_wf(ts, nsrc, nnames), range_ok(ts, rmis), rt_inv(ts, nsrc, nnames, rmis, k),
    ensures rt_inv(ts, nsrc, nnames, rmis, k + 1)
{
    if is_dup(ts, k) { lemma_rt_step_dup(ts, nsrc, nnames, rmis, k); }
    else if ts[k].dst_line == enc_st_after(ts, nnames, k).line {
        if k > 0 { lemma_rt_step_same_line(ts, nsrc, nnames, rmis, k); } else { lemma_rt_step_first(ts, nsrc, nnames, rmis, k); }
    } else { lemma_rt_step_new_line(ts, nsrc, nnames, rmis, k); }
}
/// j empty lines after line n leave the reader's outcome unchanged
pub proof fn lemma_rt_empty_lines(lines: Seq<Seq<u8>>, rmis: Seq<Seq<u8>>, n: int, j: int, nsrc: int, nnames: int)
    requires 0 <= n, 0 <= j, n + j <= lines.len(), forall|i: int| n <= i < n + j ==> (#[trigger] lines[i]).len() == 0,
        dec_lines_upto(lines, rmis, n, nsrc, nnames) is Good
    ensures dec_lines_upto(lines, rmis, n + j, nsrc, nnames) == dec_lines_upto(lines, rmis, n, nsrc, nnames)
    decreases j
{
    if j > 0 {
        lemma_rt_empty_lines(lines, rmis, n, j - 1, nsrc, nnames);
        assert(lines[n + j - 1].len() == 0);
    }
}
pub proof fn lemma_rt_all(ts: Seq<RawToken>, nsrc: int, nnames: int, rmis: Seq<Seq<u8>>, k: int)
    requires 0 <= k <= ts.len(), sorted_tokens(ts), all_wf(ts, nsrc, nnames), range_ok(ts, rmis)
    ensures rt_inv(ts, nsrc, nnames, rmis, k)
    decreases k
{
    if k == 0 {
        let e = enc_upto(ts, nnames, 0);
        assert(e =~= Seq::<u8>::empty());
        assert(split_seq(e, 59u8) == seq![e]);
        let lines = split_seq(e, 59u8);
        assert(dec_lines_upto(lines, rmis, 0, nsrc, nnames) == DecOut::Good(Seq::<RawToken>::empty(), dec_st0()));
        assert(dec_line(lines[0], rmi_for(rmis, 0), Seq::<RawToken>::empty(), dec_st0(), 0, nsrc, nnames) == DecOut::Good(Seq::<RawToken>::empty(), dec_st0()));
        assert(dec_lines_upto(lines, rmis, 1, nsrc, nnames) == DecOut::Good(Seq::<RawToken>::empty(), dec_st0()));
    } else {
        lemma_rt_all(ts, nsrc, nnames, rmis, k - 1);
        lemma_rt_step(ts, nsrc, nnames, rmis, k - 1);
    }
}

//@ lemma_mappings_roundtrip [C01 C03]
/// THE ROUND TRIP of the "mappings" string, for token lists without range flags: what the reference writer emits for a
/// sorted list of well-formed tokens, the reference reader reads back as that list without exact consecutive duplicates.
pub proof fn lemma_mappings_roundtrip(ts: Seq<RawToken>, nsrc: int, nnames: int)
    requires
        sorted_tokens(ts), all_wf(ts, nsrc, nnames),
        forall|i: int| 0 <= i < ts.len() ==> !(#[trigger] ts[i]).is_range,
    ensures
        mappings_decode(mappings_encode(ts, nnames), Seq::<u8>::empty(), nsrc, nnames) matches DecOut::Good(acc, st)
            && toks_equiv(dedup(ts, ts.len() as int), acc),
{
    let rmis = split_seq(Seq::<u8>::empty(), 59u8);
    assert(rmis == seq![Seq::<u8>::empty()]);
    assert forall|l: int| rmi_valid(#[trigger] rmi_for(rmis, l)) by {}
    assert forall|i: int| 0 <= i < ts.len() && !is_dup(ts, i) implies (#[trigger] ts[i]).is_range == bit_at(rmi_bits(rmi_for(rmis, ts[i].dst_line as int)), line_segs(ts, i + 1) - 1) by {
        assert(rmi_for(rmis, ts[i].dst_line as int).len() == 0);
    }
    lemma_rt_all(ts, nsrc, nnames, rmis, ts.len() as int);
}

//@ lemma_mappings_roundtrip_with_ranges [C01 C03 C07]
/// the same with range flags, for any range-mappings text whose bit (line, segment position) is the token's flag
pub proof fn lemma_mappings_roundtrip_with_ranges(ts: Seq<RawToken>, range_mappings: Seq<u8>, nsrc: int, nnames: int)
    requires
        sorted_tokens(ts), all_wf(ts, nsrc, nnames), range_ok(ts, split_seq(range_mappings, 59u8)),
    ensures
        mappings_decode(mappings_encode(ts, nnames), range_mappings, nsrc, nnames) matches DecOut::Good(acc, st)
            && toks_equiv(dedup(ts, ts.len() as int), acc),
{
    lemma_rt_all(ts, nsrc, nnames, split_seq(range_mappings, 59u8), ts.len() as int);
}

//@ lemma_roundtrip_witness [C01 C03]
/// the hypotheses of the round trip are satisfiable (guard against a vacuous lemma): a concrete three-token list with a
/// duplicate, a token without source and a token with source and name meets them
pub proof fn lemma_roundtrip_witness()
{
    let a = RawToken { dst_line: 0, dst_col: 4, src_line: 0, src_col: 0, src_id: 0xffff_ffffu32, name_id: 0xffff_ffffu32, is_range: false };
    let b = RawToken { dst_line: 2, dst_col: 1, src_line: 7, src_col: 3, src_id: 1, name_id: 0, is_range: false };
    let ts = seq![a, a, b];
    assert(sorted_tokens(ts)) by {
        assert forall|i: int, j: int| 0 <= i <= j < ts.len() implies tle(#[trigger] tkey(ts[i]), #[trigger] tkey(ts[j])) by {}
    }
    assert(all_wf(ts, 2, 1));
    lemma_mappings_roundtrip(ts, 2, 1);
    assert(dedup(ts, 0) =~= Seq::<RawToken>::empty());
    assert(!is_dup(ts, 0) && is_dup(ts, 1) && !is_dup(ts, 2));
    assert(dedup(ts, 1) =~= seq![a]);
    assert(dedup(ts, 2) =~= seq![a]);
    assert(dedup(ts, 3) =~= seq![a, b]);
    let o = mappings_decode(mappings_encode(ts, 1), Seq::<u8>::empty(), 2, 1);
    assert(o is Good && o->Good_0.len() == 2);
}
