// The iteration model of NameIter: what is still to come is get_name(next_idx), get_name(next_idx + 1), ...
// The iterator counts in a u32, so it carries a type invariant (at most 2^32-1 names; established by `names()`, whose contract requires it).
pub open spec fn name_ref<'a>(sm: &'a SourceMap, i: int) -> &'a str { &**(&sm.names@[i]) }
impl<'a> NameIter<'a> {
    pub closed spec fn vi(&self) -> &'a SourceMap { self.i }
    pub closed spec fn vn(&self) -> u32 { self.next_idx }
    #[verifier::type_invariant]
    closed spec fn inv(&self) -> bool { self.i.names@.len() <= 0xffff_ffff && self.next_idx <= self.i.names@.len() }
}
pub open spec fn names_from<'a>(sm: &'a SourceMap, from: int) -> Seq<&'a str> {
    if 0 <= from < sm.names@.len() { Seq::new((sm.names@.len() - from) as nat, |k: int| name_ref(sm, from + k)) } else { Seq::empty() }
}
impl<'a> IteratorSpecImpl for NameIter<'a> {
    closed spec fn obeys_prophetic_iter_laws(&self) -> bool { true }
    #[verifier::prophetic]
    closed spec fn remaining(&self) -> Seq<&'a str> { names_from(self.i, self.next_idx as int) }
    #[verifier::prophetic]
    closed spec fn will_return_none(&self) -> bool { true }
    closed spec fn decrease(&self) -> Option<nat> { Some(names_from(self.i, self.next_idx as int).len()) }
    closed spec fn peek(&self, k: int) -> Option<&'a str> {
        if 0 <= k < names_from(self.i, self.next_idx as int).len() { Some(names_from(self.i, self.next_idx as int)[k]) } else { None }
    }
}
