// Ordering vocabulary and the statement of "greatest lower bound" (C04), over an abstract key function.

// what the contract needs from K's comparison: a total preorder whose Equal class is spec equality
pub open spec fn ord_laws<K: Ord>() -> bool {
    &&& K::obeys_eq_spec()
    &&& forall|a: K, b: K| #![trigger a.eq_spec(&b)] a.eq_spec(&b) <==> a == b
    &&& forall|a: K, b: K| #![trigger a.cmp_spec(&b)] (a.cmp_spec(&b) == Ordering::Equal) <==> a == b
    &&& forall|a: K, b: K| #![trigger a.cmp_spec(&b)] (a.cmp_spec(&b) == Ordering::Less) <==> (b.cmp_spec(&a) == Ordering::Greater)
    &&& forall|a: K, b: K, c: K| #![trigger a.cmp_spec(&b), b.cmp_spec(&c)] le(a, b) && le(b, c) ==> le(a, c)
}
pub open spec fn le<K: Ord>(a: K, b: K) -> bool {
    a.cmp_spec(&b) == Ordering::Less || a.cmp_spec(&b) == Ordering::Equal
}
pub open spec fn lt<K: Ord>(a: K, b: K) -> bool { a.cmp_spec(&b) == Ordering::Less }

/// kf is a spec-level key function the executable closure f agrees with wherever it returns
pub open spec fn consistent<'a, T: 'a, K, F: FnOnce(&'a T) -> K>(f: F, kf: spec_fn(T) -> K) -> bool {
    forall|t: &'a T, k: K| #[trigger] call_ensures(f, (t,), k) ==> k == kf(*t)
}
pub open spec fn sorted_kf<T, K: Ord>(s: Seq<T>, kf: spec_fn(T) -> K) -> bool {
    forall|i: int, j: int| 0 <= i <= j < s.len() ==> le(#[trigger] kf(s[i]), #[trigger] kf(s[j]))
}

/// C04's statement for one lookup, over an abstract key function:
/// nothing exactly when every element lies after the key; otherwise an element whose key is the
/// greatest one not after the query, and the first such element when the key is hit exactly.
pub open spec fn glb_post<'a, T, K: Ord>(s: Seq<T>, key: K, kf: spec_fn(T) -> K, res: Option<(usize, &'a T)>) -> bool {
    &&& res is None <==> (forall|i: int| 0 <= i < s.len() ==> lt(key, #[trigger] kf(s[i])))
    &&& res matches Some((j, r)) ==> exists|p: int| 0 <= p < s.len() && r == &#[trigger] s[p]
            && le(kf(s[p]), key)
            && (forall|i: int| 0 <= i < s.len() && le(#[trigger] kf(s[i]), key) ==> le(kf(s[i]), kf(s[p])))
            // the index handed back is the index of the element handed back (C17 walks back from it)
            && p == j
            && (kf(s[p]) == key ==> forall|i: int| 0 <= i < p ==> #[trigger] kf(s[i]) != key)
}

pub open spec fn err_facts<T, K: Ord>(s: Seq<T>, key: K, kf: spec_fn(T) -> K, index: int) -> bool {
    &&& 0 <= index <= s.len()
    &&& (forall|j: int| 0 <= j < index ==> lt(#[trigger] kf(s[j]), key))
    &&& (forall|j: int| index <= j < s.len() ==> lt(key, #[trigger] kf(s[j])))
}

//@ lemma_glb_err [C04 C08 C14]
pub proof fn lemma_glb_err<'a, T, K: Ord>(s: Seq<T>, key: K, kf: spec_fn(T) -> K, index: int, j: usize, r: &'a T)
    requires ord_laws::<K>(), sorted_kf(s, kf), err_facts(s, key, kf, index), index > 0, r == &s[index - 1], j as int == index - 1,
    ensures glb_post(s, key, kf, Some((j, r)))
{
    let p = index - 1;
    assert(lt(kf(s[p]), key));
    assert forall|i: int| 0 <= i < s.len() && le(#[trigger] kf(s[i]), key) implies le(kf(s[i]), kf(s[p])) by {
        if i >= index { assert(lt(key, kf(s[i]))); }
    }
    assert(!(forall|i: int| 0 <= i < s.len() ==> lt(key, #[trigger] kf(s[i]))));
}

pub open spec fn tle(a: (u32,u32), b: (u32,u32)) -> bool { a.0 < b.0 || (a.0 == b.0 && a.1 <= b.1) }

//@ lemma_tuple_ord_laws [C04 C08 C14]
pub proof fn lemma_tuple_ord_laws()
    ensures ord_laws::<(u32,u32)>(),
        forall|a: (u32,u32), b: (u32,u32)| #![trigger le(a, b)] le(a, b) <==> tle(a, b),
        forall|a: (u32,u32), b: (u32,u32)| #![trigger lt(a, b)] lt(a, b) <==> !tle(b, a),
{
}
