// C20: the indexed RAM bundle layout.  12-byte header (magic, module count, startup code size; little-endian u32),
// then one 8-byte table entry (offset, length) per module id, then the startup code, then module data addressed
// relative to the start of the startup code; a stored module length includes one trailing NUL.
pub open spec fn rb_recognised(s: Seq<u8>) -> bool { s.len() >= 12 && le32(s, 0) == 0xFB0B_D1E5 }
pub open spec fn rb_count(s: Seq<u8>) -> int { le32(s, 4) }
pub open spec fn rb_startup_size(s: Seq<u8>) -> int { le32(s, 8) }
pub open spec fn rb_startup_off(s: Seq<u8>) -> int { 12 + 8 * rb_count(s) }
pub open spec fn rb_entry_off(s: Seq<u8>, id: int) -> int { le32(s, 12 + 8 * id) }
pub open spec fn rb_entry_len(s: Seq<u8>, id: int) -> int { le32(s, 12 + 8 * id + 4) }
/// representation invariant of IndexedRamBundle: the three cached numbers are the header's
pub open spec fn rb_wf(b: &IndexedRamBundle) -> bool {
    let s = cow_bytes(b.bytes);
    rb_recognised(s) && b.module_count == rb_count(s) && b.startup_code_size == rb_startup_size(s) && b.startup_code_offset == rb_startup_off(s)
}
/// what startup_code answers for bundle bytes s
pub open spec fn rb_startup_post(s: Seq<u8>, res: Result<&[u8]>) -> bool {
    let o = rb_startup_off(s); let n = rb_startup_size(s);
    if o < s.len() && o + n <= s.len() { (res matches Ok(c) && c@ == s.subrange(o, o + n)) } else { res is Err }
}
/// what get_module(id) answers for bundle bytes s
pub open spec fn rb_module_post(s: Seq<u8>, id: usize, res: Result<Option<RamBundleModule>>) -> bool {
    //  an id past the table is an error
    &&& (id >= rb_count(s) ==> res is Err)
    //  a table cut off before this entry is an error
    &&& (id < rb_count(s) && 12 + 8 * id + 8 > s.len() ==> res is Err)
    //  otherwise: nothing for an empty slot; an error for a zero length with an offset; the module bytes without the
    //  trailing NUL when they lie inside the buffer; an error when they do not
    &&& (id < rb_count(s) && 12 + 8 * id + 8 <= s.len() ==> ({
            let o = rb_entry_off(s, id as int); let l = rb_entry_len(s, id as int); let at = rb_startup_off(s) + o;
            if o == 0 && l == 0 { (res matches Ok(None)) }
            else if l == 0 { res is Err }
            else if at < s.len() && at + (l - 1) <= s.len() { (res matches Ok(Some(m)) && m.id == id && m.data@ == s.subrange(at, at + (l - 1))) }
            else { res is Err } }))
}
/// table slot id is inside the buffer and empty
pub open spec fn rb_slot_empty(s: Seq<u8>, id: int) -> bool {
    0 <= id < rb_count(s) && 12 + 8 * id + 8 <= s.len() && rb_entry_off(s, id) == 0 && rb_entry_len(s, id) == 0
}
/// representation invariant of the public wrapper (the file-based variant is outside this unit)
pub open spec fn bundle_wf(rb: &RamBundle) -> bool { rb.repr matches RamBundleImpl::Indexed(b) ==> rb_wf(&b) }
pub proof fn lemma_le32_range(s: Seq<u8>, at: int)
    requires 0 <= at, at + 4 <= s.len()
    ensures 0 <= le32(s, at) <= 0xffff_ffff
{}
