// Stretches of adjust_mappings (C10): one per token, ordered by the key; a stretch starts at its token's key and
// ends where the next one starts or at the end of its line, whichever comes first.
pub open spec fn range_values(rs: Seq<Range>) -> Seq<RawToken> { rs.map_values(|r: Range| r.value) }
pub open spec fn min_pos(a: (u32, u32), b: (u32, u32)) -> (u32, u32) { if tle(a, b) { a } else { b } }
pub open spec fn stretch_ok(rs: Seq<Range>, vals: Seq<RawToken>, kf: spec_fn(RawToken) -> (u32, u32), i: int) -> bool {
    rs[i].value == vals[i] && rs[i].start == kf(vals[i])
        && rs[i].end == (if i + 1 < vals.len() { min_pos(kf(vals[i + 1]), (rs[i].start.0, u32::MAX)) } else { (rs[i].start.0, u32::MAX) })
}
pub open spec fn stretches_ok(rs: Seq<Range>, vals: Seq<RawToken>, kf: spec_fn(RawToken) -> (u32, u32), n: int) -> bool {
    forall|i: int| 0 <= i < n ==> #[trigger] stretch_ok(rs, vals, kf, i)
}
/// C10's "stretch covered by a token", for the whole list
pub open spec fn stretch_post(rs: Seq<Range>, tokens: Seq<RawToken>, kf: spec_fn(RawToken) -> (u32, u32)) -> bool {
    rs.len() == tokens.len() && sorted_kf(range_values(rs), kf) && range_values(rs).to_multiset() == tokens.to_multiset()
        && stretches_ok(rs, range_values(rs), kf, rs.len() as int)
}
pub open spec fn key_is(key_calls: spec_fn(RawToken, (u32, u32)) -> bool, kf: spec_fn(RawToken) -> (u32, u32)) -> bool {
    forall|t: RawToken, k: (u32, u32)| #[trigger] key_calls(t, k) ==> k == kf(t)
}
