// C19, the helper under make_relative_path: the common leading components of two component lists.
/// the first k components of a occur, equal, at the same places in b
pub open spec fn common_upto(a: Seq<&str>, b: Seq<&str>, k: int) -> bool {
    0 <= k <= a.len() && forall|j: int| 0 <= j < k ==> j < b.len() && (#[trigger] a[j])@ == b[j]@
}
/// k is the length of the longest common prefix of a and b, counted along a
pub open spec fn is_lcp(a: Seq<&str>, b: Seq<&str>, k: int) -> bool {
    common_upto(a, b, k) && (k == a.len() || !(k < b.len() && a[k]@ == b[k]@))
}
pub open spec fn lcp_from(a: Seq<&str>, b: Seq<&str>, k: int) -> int
    decreases a.len() - k
{
    if 0 <= k < a.len() && k < b.len() && a[k]@ == b[k]@ { lcp_from(a, b, k + 1) } else { k }
}
/// the number of leading components a and b share
pub open spec fn lcp_len(a: Seq<&str>, b: Seq<&str>) -> int { lcp_from(a, b, 0) }
pub proof fn lemma_lcp_skip(a: Seq<&str>, b: Seq<&str>, k: int, j: int)
    requires common_upto(a, b, k), 0 <= j <= k
    ensures lcp_from(a, b, j) == lcp_from(a, b, k)
    decreases k - j
{
    if j < k { assert(a[j]@ == b[j]@); lemma_lcp_skip(a, b, k, j + 1); }
}
//@ lemma_lcp_unique [C19]
pub proof fn lemma_lcp_unique(a: Seq<&str>, b: Seq<&str>, k: int)
    requires is_lcp(a, b, k)
    ensures lcp_len(a, b) == k
{
    lemma_lcp_skip(a, b, k, 0);
}
pub open spec fn idx_for(k: int) -> Option<usize> { if k > 0 { Some((k - 1) as usize) } else { None } }
