// C19, the helper under make_relative_path: the common leading components of two component lists.
/// the first k components of a occur, equal, at the same places in b
pub open spec fn common_upto(a: Seq<&str>, b: Seq<&str>, k: int) -> bool {
    0 <= k <= a.len() && forall|j: int| 0 <= j < k ==> j < b.len() && (#[trigger] a[j])@ == b[j]@
}
/// k is the length of the longest common prefix of a and b, counted along a
pub open spec fn is_lcp(a: Seq<&str>, b: Seq<&str>, k: int) -> bool {
    common_upto(a, b, k) && (k == a.len() || !(k < b.len() && a[k]@ == b[k]@))
}
pub open spec fn lcp_from(a: Seq<&str>, b: Seq<&str>, k: int) -> int
    decreases a.len() - k
{
    if 0 <= k < a.len() && k < b.len() && a[k]@ == b[k]@ { lcp_from(a, b, k + 1) } else { k }
}
/// the number of leading components a and b share
pub open spec fn lcp_len(a: Seq<&str>, b: Seq<&str>) -> int { lcp_from(a, b, 0) }
pub proof fn lemma_lcp_skip(a: Seq<&str>, b: Seq<&str>, k: int, j: int)
    requires common_upto(a, b, k), 0 <= j <= k
    ensures lcp_from(a, b, j) == lcp_from(a, b, k)
    decreases k - j
{
    if j < k { assert(a[j]@ == b[j]@); lemma_lcp_skip(a, b, k, j + 1); }
}
//@ lemma_lcp_unique [C19]
pub proof fn lemma_lcp_unique(a: Seq<&str>, b: Seq<&str>, k: int)
    requires is_lcp(a, b, k)
    ensures lcp_len(a, b) == k
{
    lemma_lcp_skip(a, b, k, 0);
}
pub open spec fn idx_for(k: int) -> Option<usize> { if k > 0 { Some((k - 1) as usize) } else { None } }

// ---- make_relative_path: path components, the text it writes, and resolution against a directory (C19) ----
pub open spec fn is_sep(c: char) -> bool { c == '/' || c == '\\' }
/// the non-empty maximal runs of non-separator characters, in order (a character that is not a separator starts a new component
/// when a separator or the end follows it, and otherwise joins the component that starts right after it)
pub open spec fn components(cs: Seq<char>) -> Seq<Seq<char>> decreases cs.len() {
    if cs.len() == 0 { Seq::empty() }
    else if is_sep(cs[0]) { components(cs.drop_first()) }
    else if cs.len() == 1 || is_sep(cs[1]) { seq![seq![cs[0]]] + components(cs.drop_first()) }
    else { seq![seq![cs[0]] + components(cs.drop_first())[0]] + components(cs.drop_first()).drop_first() }
}
pub open spec fn ordinary(w: Seq<char>) -> bool { w.len() > 0 && forall|j: int| 0 <= j < w.len() ==> !is_sep(#[trigger] w[j]) }
pub proof fn lemma_components_nonempty(cs: Seq<char>)
    requires cs.len() > 0, !is_sep(cs[0])
    ensures components(cs).len() > 0
    decreases cs.len()
{
    if cs.len() == 1 || is_sep(cs[1]) {} else { assert(cs.drop_first()[0] == cs[1]); lemma_components_nonempty(cs.drop_first()); }
}
pub proof fn lemma_components_ordinary(cs: Seq<char>)
    ensures forall|i: int| 0 <= i < components(cs).len() ==> ordinary(#[trigger] components(cs)[i])
    decreases cs.len()
{
    if cs.len() == 0 {} else {
        lemma_components_ordinary(cs.drop_first());
        let r = components(cs.drop_first());
        if is_sep(cs[0]) {} else if cs.len() == 1 || is_sep(cs[1]) {
            assert forall|i: int| 0 <= i < components(cs).len() implies ordinary(#[trigger] components(cs)[i]) by { if i > 0 { assert(components(cs)[i] == r[i - 1]); } }
        } else {
            assert(cs.drop_first()[0] == cs[1]);
            lemma_components_nonempty(cs.drop_first());
            assert forall|i: int| 0 <= i < components(cs).len() implies ordinary(#[trigger] components(cs)[i]) by {
                if i > 0 { assert(components(cs)[i] == r[i]); } else {
                    let w = seq![cs[0]] + r[0];
                    assert(components(cs)[0] == w);
                    assert forall|j: int| 0 <= j < w.len() implies !is_sep(#[trigger] w[j]) by { if j > 0 { assert(w[j] == r[0][j - 1]); } }
                }
            }
        }
    }
}
/// a word followed by a separator and anything: the word is the first component
pub proof fn lemma_components_word_sep(w: Seq<char>, sep: char, rest: Seq<char>)
    requires ordinary(w), is_sep(sep)
    ensures components(w + seq![sep] + rest) == seq![w] + components(rest)
    decreases w.len()
{
    let cs = w + seq![sep] + rest;
    assert(cs[0] == w[0]);
    if w.len() == 1 {
        assert(cs[1] == sep);
        assert(cs.drop_first() == seq![sep] + rest);
        assert((seq![sep] + rest).drop_first() == rest);
        assert((seq![sep] + rest)[0] == sep);
        assert(seq![cs[0]] == w);
        assert(components(seq![sep] + rest) == components(rest));
        assert(components(cs) == seq![seq![cs[0]]] + components(cs.drop_first()));
    } else {
        let w1 = w.drop_first();
        assert(cs[1] == w[1]);
        assert(cs.drop_first() == w1 + seq![sep] + rest);
        assert forall|j: int| 0 <= j < w1.len() implies !is_sep(#[trigger] w1[j]) by { assert(w1[j] == w[j + 1]); }
        lemma_components_word_sep(w1, sep, rest);
        let r = components(cs.drop_first());
        assert(r[0] == w1);
        assert(seq![cs[0]] + w1 == w);
        assert(r.drop_first() == components(rest));
        assert(!is_sep(cs[1]));
        assert(components(cs) == seq![seq![cs[0]] + r[0]] + r.drop_first());
    }
}
pub proof fn lemma_components_word(w: Seq<char>)
    requires ordinary(w)
    ensures components(w) == seq![w]
    decreases w.len()
{
    if w.len() == 1 { assert(w.drop_first() == Seq::<char>::empty()); assert(components(w.drop_first()) == Seq::<Seq<char>>::empty()); assert(seq![w[0]] == w); assert(seq![seq![w[0]]] + Seq::<Seq<char>>::empty() == seq![w]); } else {
        let w1 = w.drop_first();
        assert forall|j: int| 0 <= j < w1.len() implies !is_sep(#[trigger] w1[j]) by { assert(w1[j] == w[j + 1]); }
        lemma_components_word(w1);
        assert(seq![w[0]] + w1 == w);
        assert(seq![w1].drop_first() == Seq::<Seq<char>>::empty());
        assert(!is_sep(w[1]));
        assert(components(w) == seq![seq![w[0]] + components(w1)[0]] + components(w1).drop_first());
        assert(seq![w] + Seq::<Seq<char>>::empty() == seq![w]);
    }
}
pub open spec fn repeat_str(s: Seq<char>, n: nat) -> Seq<char> decreases n { if n == 0 { Seq::empty() } else { s + repeat_str(s, (n - 1) as nat) } }
pub open spec fn join_spec(v: Seq<Seq<char>>, sep: Seq<char>) -> Seq<char> decreases v.len() {
    if v.len() == 0 { Seq::empty() } else if v.len() == 1 { v[0] } else { v[0] + sep + join_spec(v.drop_first(), sep) }
}
pub proof fn lemma_components_join(v: Seq<Seq<char>>)
    requires forall|i: int| 0 <= i < v.len() ==> ordinary(#[trigger] v[i])
    ensures components(join_spec(v, "/"@)) == v, v.len() > 0 ==> join_spec(v, "/"@).len() > 0
    decreases v.len()
{
    reveal_strlit("/");
    if v.len() == 0 {} else if v.len() == 1 { lemma_components_word(v[0]); assert(seq![v[0]] == v); } else {
        assert forall|i: int| 0 <= i < v.drop_first().len() implies ordinary(#[trigger] v.drop_first()[i]) by { assert(v.drop_first()[i] == v[i + 1]); }
        lemma_components_join(v.drop_first());
        assert("/"@ == seq!['/']);
        lemma_components_word_sep(v[0], '/', join_spec(v.drop_first(), "/"@));
        assert(seq![v[0]] + v.drop_first() == v);
    }
}
pub open spec fn dotdots(n: nat) -> Seq<Seq<char>> { Seq::new(n, |i: int| ".."@) }
pub proof fn lemma_components_updirs(n: nat, rest: Seq<char>)
    ensures components(repeat_str("../"@, n) + rest) == dotdots(n) + components(rest)
    decreases n
{
    reveal_strlit("../"); reveal_strlit("..");
    if n == 0 { assert(repeat_str("../"@, 0) + rest == rest); assert(dotdots(0) + components(rest) == components(rest)); } else {
        let r1 = repeat_str("../"@, (n - 1) as nat) + rest;
        lemma_components_updirs((n - 1) as nat, rest);
        assert("../"@ == ".."@ + seq!['/']);
        assert(repeat_str("../"@, n) + rest == ".."@ + seq!['/'] + r1);
        assert(ordinary(".."@));
        lemma_components_word_sep(".."@, '/', r1);
        assert(seq![".."@] + (dotdots((n - 1) as nat) + components(rest)) == dotdots(n) + components(rest));
    }
}
/// resolving a relative path, component by component, against a directory given by its components
pub open spec fn resolve(dir: Seq<Seq<char>>, rel: Seq<Seq<char>>) -> Seq<Seq<char>> decreases rel.len() {
    if rel.len() == 0 { dir }
    else if rel[0] == ".."@ { resolve(dir.drop_last(), rel.drop_first()) }
    else if rel[0] == "."@ { resolve(dir, rel.drop_first()) }
    else { resolve(dir.push(rel[0]), rel.drop_first()) }
}
pub open spec fn plain(v: Seq<Seq<char>>) -> bool { forall|i: int| 0 <= i < v.len() ==> #[trigger] v[i] != ".."@ && v[i] != "."@ }
pub proof fn lemma_resolve_up(dir: Seq<Seq<char>>, n: nat, rel: Seq<Seq<char>>)
    requires n <= dir.len()
    ensures resolve(dir, dotdots(n) + rel) == resolve(dir.subrange(0, dir.len() - n), rel)
    decreases n
{
    if n == 0 { assert(dotdots(0) + rel == rel); assert(dir.subrange(0, dir.len() as int) == dir); } else {
        let r = dotdots(n) + rel;
        assert(r[0] == ".."@);
        assert(r.drop_first() == dotdots((n - 1) as nat) + rel);
        lemma_resolve_up(dir.drop_last(), (n - 1) as nat, rel);
        assert(dir.drop_last().subrange(0, dir.len() - 1 - (n - 1)) == dir.subrange(0, dir.len() - n));
    }
}
pub proof fn lemma_resolve_down(dir: Seq<Seq<char>>, rel: Seq<Seq<char>>)
    requires plain(rel)
    ensures resolve(dir, rel) == dir + rel
    decreases rel.len()
{
    if rel.len() == 0 { assert(dir + rel == dir); } else {
        assert forall|i: int| 0 <= i < rel.drop_first().len() implies #[trigger] rel.drop_first()[i] != ".."@ && rel.drop_first()[i] != "."@ by { assert(rel.drop_first()[i] == rel[i + 1]); }
        lemma_resolve_down(dir.push(rel[0]), rel.drop_first());
        assert(dir.push(rel[0]) + rel.drop_first() == dir + rel);
    }
}

/// p leading components are shared and the next ones (if both exist) differ
pub open spec fn is_lcpv(a: Seq<Seq<char>>, b: Seq<Seq<char>>, p: int) -> bool {
    0 <= p <= a.len() && p <= b.len() && a.subrange(0, p) == b.subrange(0, p) && !(p < a.len() && p < b.len() && a[p] == b[p])
}
/// what make_relative_path writes for target components t and base-directory components d sharing p leading components
pub open spec fn rel_text(t: Seq<Seq<char>>, d: Seq<Seq<char>>, p: int) -> Seq<char> {
    let s = repeat_str("../"@, (d.len() - p) as nat) + join_spec(t.subrange(p, t.len() as int), "/"@);
    if s.len() == 0 { "."@ } else { s }
}
pub open spec fn base_dir(b: Seq<Seq<char>>) -> Seq<Seq<char>> { if b.len() == 0 { b } else { b.drop_last() } }
pub open spec fn rel_post(base: Seq<char>, target: Seq<char>, res: Seq<char>) -> bool {
    exists|p: int| #[trigger] is_lcpv(components(target), base_dir(components(base)), p) && res == rel_text(components(target), base_dir(components(base)), p)
}
pub proof fn lemma_lcp_props(a: Seq<&str>, b: Seq<&str>, k: int)
    requires common_upto(a, b, k)
    ensures is_lcp(a, b, lcp_from(a, b, k)), k <= lcp_from(a, b, k) <= a.len(), lcp_from(a, b, k) <= b.len() || lcp_from(a, b, k) == k
    decreases a.len() - k
{
    if 0 <= k < a.len() && k < b.len() && a[k]@ == b[k]@ { lemma_lcp_props(a, b, k + 1); }
}
pub proof fn lemma_lcp_views(a: Seq<&str>, b: Seq<&str>)
    ensures is_lcpv(views(a), views(b), lcp_len(a, b))
{
    lemma_lcp_props(a, b, 0);
    let k = lcp_len(a, b);
    assert(k <= b.len()) by { if k > 0 { assert(a[k - 1]@ == b[k - 1]@ && k - 1 < b.len()); } }
    assert(views(a).subrange(0, k) =~= views(b).subrange(0, k)) by {
        assert forall|j: int| 0 <= j < k implies views(a).subrange(0, k)[j] == views(b).subrange(0, k)[j] by { assert(a[j]@ == b[j]@); }
    }
}
pub proof fn lemma_is_lcpv_sym(a: Seq<Seq<char>>, b: Seq<Seq<char>>, p: int)
    requires is_lcpv(a, b, p) ensures is_lcpv(b, a, p)
{}
//@ lemma_make_relative_path_leads_to_target [C19]
/// C19 as a theorem over the contract: resolving what make_relative_path returns against the directory of the base file gives the target,
/// and the result is "." only when the target is that directory
pub proof fn lemma_make_relative_path_leads_to_target(base: Seq<char>, target: Seq<char>, res: Seq<char>)
    requires rel_post(base, target, res), plain(components(target))
    ensures resolve(base_dir(components(base)), components(res)) == components(target),
        res == "."@ ==> components(target) == base_dir(components(base)),
        components(target) == base_dir(components(base)) ==> res == "."@,
{
    reveal_strlit("."); reveal_strlit("../"); reveal_strlit("/"); reveal_strlit("..");
    let t = components(target); let d = base_dir(components(base));
    let p = choose|p: int| #[trigger] is_lcpv(t, d, p) && res == rel_text(t, d, p);
    let n = (d.len() - p) as nat;
    let tail = t.subrange(p, t.len() as int);
    let s = repeat_str("../"@, n) + join_spec(tail, "/"@);
    lemma_components_ordinary(target);
    assert forall|i: int| 0 <= i < tail.len() implies ordinary(#[trigger] tail[i]) by { assert(tail[i] == t[p + i]); }
    lemma_components_join(tail);
    lemma_components_updirs(n, join_spec(tail, "/"@));
    assert(components(s) == dotdots(n) + tail);
    lemma_resolve_up(d, n, tail);
    assert(plain(tail)) by { assert forall|i: int| 0 <= i < tail.len() implies #[trigger] tail[i] != ".."@ && tail[i] != "."@ by { assert(tail[i] == t[p + i]); } }
    lemma_resolve_down(d.subrange(0, p), tail);
    assert(d.subrange(0, p) + tail == t) by { assert(t.subrange(0, p) + tail == t); }
    assert(resolve(d, components(s)) == t);
    lemma_repeat_len(n);
    if s.len() == 0 {
        assert(n == 0 && tail.len() == 0);
        assert(t == d) by { assert(t.subrange(0, p) == t); assert(d.subrange(0, p) == d); }
        assert(ordinary("."@));
        lemma_components_word("."@);
        assert(resolve(d, seq!["."@]) == d) by { assert(seq!["."@].drop_first() == Seq::<Seq<char>>::empty()); assert(resolve(d, Seq::<Seq<char>>::empty()) == d); }
    } else {
        if res == "."@ {
            // a non-empty s equal to "." is impossible: it would start with ".." or be a plain component
            if n > 0 { assert(s[1] == '.'); assert(s.len() >= 3); }
            else { assert(s == join_spec(tail, "/"@)); assert(components(s) == tail); lemma_components_word("."@); assert(tail == seq!["."@]); assert(tail[0] == t[p]); }
        }
        if t == d { assert(p == t.len()) by { if p < t.len() { assert(t[p] == d[p]); } } }
    }
}
pub proof fn lemma_repeat_len(n: nat)
    ensures repeat_str("../"@, n).len() == 3 * n, n > 0 ==> repeat_str("../"@, n)[1] == '.'
    decreases n
{
    reveal_strlit("../");
    if n > 0 { lemma_repeat_len((n - 1) as nat); }
}

