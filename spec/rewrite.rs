// C09: what "resolves to the same" means, token by token.
pub open spec fn tok_source(sm: &SourceMap, t: RawToken) -> Option<Seq<char>> {
    if t.src_id != 0xffff_ffffu32 && t.src_id < sm.sources@.len() { Some(reads_as(opt_chars(sm.source_root), arc_chars(&sm.sources@[t.src_id as int]))) } else { None }
}
pub open spec fn tok_name(sm: &SourceMap, t: RawToken) -> Option<Seq<char>> {
    if t.name_id != 0xffff_ffffu32 && t.name_id < sm.names@.len() { Some(arc_chars(&sm.names@[t.name_id as int])) } else { None }
}
/// token bt over the tables (srcs, nms) re-expresses token t of map sm: same generated and original position and range
/// flag, same source string, same name string (or none when names are dropped)
pub open spec fn rewritten(srcs: Seq<Arc<str>>, nms: Seq<Arc<str>>, bt: RawToken, sm: &SourceMap, t: RawToken, with_names: bool) -> bool {
    &&& bt.dst_line == t.dst_line && bt.dst_col == t.dst_col && bt.src_line == t.src_line && bt.src_col == t.src_col && bt.is_range == t.is_range
    &&& (match tok_source(sm, t) { Some(s) => bt.src_id < srcs.len() && arc_chars(&srcs[bt.src_id as int]) == s, None => bt.src_id == 0xffff_ffffu32 })
    &&& (match tok_name(sm, t) { Some(n) => if with_names { bt.name_id < nms.len() && arc_chars(&nms[bt.name_id as int]) == n } else { bt.name_id == 0xffff_ffffu32 }, None => bt.name_id == 0xffff_ffffu32 })
}
pub open spec fn all_rewritten(srcs: Seq<Arc<str>>, nms: Seq<Arc<str>>, bts: Seq<RawToken>, sm: &SourceMap, k: int, with_names: bool) -> bool {
    bts.len() == k && forall|j: int| 0 <= j < k ==> #[trigger] rewritten(srcs, nms, bts[j], sm, sm.tokens@[j], with_names)
}
/// every table entry is used by some token (nothing unreferenced)
pub open spec fn src_used(bts: Seq<RawToken>, i: int) -> bool { exists|j: int| 0 <= j < bts.len() && #[trigger] bts[j].src_id == i }
pub open spec fn name_used(bts: Seq<RawToken>, i: int) -> bool { exists|j: int| 0 <= j < bts.len() && #[trigger] bts[j].name_id == i }
pub open spec fn all_referenced(n: nat, bts: Seq<RawToken>) -> bool { forall|i: int| 0 <= i < n ==> #[trigger] src_used(bts, i) }
pub open spec fn names_referenced(n: nat, bts: Seq<RawToken>) -> bool { forall|i: int| 0 <= i < n ==> #[trigger] name_used(bts, i) }
pub open spec fn no_dups(t: Seq<Arc<str>>) -> bool {
    forall|i: int, j: int| 0 <= i < j < t.len() ==> arc_chars(&#[trigger] t[i]) != arc_chars(&#[trigger] t[j])
}
/// mapping[new id] is an old id of the same source string
pub open spec fn mapping_ok(mapping: Seq<u32>, srcs: Seq<Arc<str>>, sm: &SourceMap) -> bool {
    mapping.len() == srcs.len() && forall|i: int| 0 <= i < srcs.len() ==> (#[trigger] mapping[i]) < sm.sources@.len()
        && reads_as(opt_chars(sm.source_root), arc_chars(&sm.sources@[mapping[i] as int])) == arc_chars(&srcs[i])
}
pub proof fn lemma_mirrors_no_dups(map: Map<Arc<str>, u32>, table: Seq<Arc<str>>)
    requires interner_wf(map, table.len()), table_mirrors(map, table)
    ensures no_dups(table)
{
    assert forall|i: int, j: int| 0 <= i < j < table.len() implies arc_chars(&#[trigger] table[i]) != arc_chars(&#[trigger] table[j]) by {
        if arc_chars(&table[i]) == arc_chars(&table[j]) {
            axiom_arc_str_ext(table[i], table[j]);
            assert(map[table[i]] == i && map[table[j]] == j);
        }
    }
}
/// under the full builder invariant, "string s has id i" is the same as "table entry i is s" (both tables)
pub proof fn lemma_has_id_all(b: &SourceMapBuilder)
    requires bfull(b)
    ensures
        forall|s: Seq<char>, i: u32| #[trigger] has_id(b.source_map@, s, i) <==> (i < b.sources@.len() && arc_chars(&b.sources@[i as int]) == s),
        forall|s: Seq<char>, i: u32| #[trigger] has_id(b.name_map@, s, i) <==> (i < b.names@.len() && arc_chars(&b.names@[i as int]) == s),
{
    assert forall|s: Seq<char>, i: u32| #[trigger] has_id(b.source_map@, s, i) <==> (i < b.sources@.len() && arc_chars(&b.sources@[i as int]) == s) by {
        lemma_has_id_iff(b.source_map@, b.sources@, s, i);
    }
    assert forall|s: Seq<char>, i: u32| #[trigger] has_id(b.name_map@, s, i) <==> (i < b.names@.len() && arc_chars(&b.names@[i as int]) == s) by {
        lemma_has_id_iff(b.name_map@, b.names@, s, i);
    }
}
/// contents follow their source: if the old id remembered for new source i has embedded text, new source i carries that text
pub open spec fn old_text(sm: &SourceMap, old_id: u32) -> Option<Seq<char>> {
    if old_id < sm.sources_content@.len() { match sm.sources_content@[old_id as int] { Some(v) => Some(sv_text(&v)), None => None } } else { None }
}
pub open spec fn builder_contents_follow(contents: Seq<Option<Arc<str>>>, mapping: Seq<u32>, sm: &SourceMap, n: nat) -> bool {
    forall|i: int| 0 <= i < n ==> (#[trigger] old_text(sm, mapping[i]) matches Some(txt) ==> (i < contents.len() && (match contents[i] { Some(a) => arc_chars(&a) == txt, None => false })))
}
pub open spec fn map_contents_follow(contents: Seq<Option<SourceView>>, mapping: Seq<u32>, sm: &SourceMap, n: nat) -> bool {
    forall|i: int| 0 <= i < n ==> (#[trigger] old_text(sm, mapping[i]) matches Some(txt) ==> (i < contents.len() && (match contents[i] { Some(v) => sv_text(&v) == txt, None => false })))
}

