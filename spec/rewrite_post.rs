// C09: the statement of a rewrite as one predicate (needs rewrite.rs, strip.rs).
/// C09's statement for one rewrite, as one predicate (what rewrite_with_mapping ensures clause by clause; `rewrite` hands on the map and forgets the mapping)
pub open spec fn rewrite_post(old: &SourceMap, with_names: bool, with_contents: bool, opts: Seq<&str>, sm: SourceMap, mapping: Seq<u32>) -> bool {
    &&& exists|bts: Seq<RawToken>, us: Seq<Arc<str>>, pfx: Seq<Seq<char>>| #![trigger all_rewritten(us, sm.names@, bts, old, old.tokens@.len() as int, with_names), prefix_list_ok(pfx, opts)]
            all_rewritten(us, sm.names@, bts, old, old.tokens@.len() as int, with_names)
            && prefix_list_ok(pfx, opts)
            && sm.tokens@.to_multiset() == bts.to_multiset()
            && all_referenced(us.len(), bts) && names_referenced(sm.names@.len(), bts)
            && no_dups(us) && mapping_ok(mapping, us, old)
            && sm.sources@.len() == us.len()
            && (forall|i: int| 0 <= i < us.len() ==> arc_chars(&#[trigger] sm.sources@[i]) == strip_name(arc_chars(&us[i]), pfx, 0))
    &&& no_dups(sm.names@)
    &&& sm.file == old.file && sm.debug_id == old.debug_id && sm.source_root is None && sorted_tokens(sm.tokens@)
    &&& (if with_contents { map_contents_follow(sm.sources_content@, mapping, old, sm.sources@.len()) } else { sm.sources_content@.len() == 0 })
}
