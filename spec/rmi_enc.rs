// Reference writer for "rangeMappings" (range-mappings proposal): per generated line one base64 digit per six
// segments, bit k of digit j = range flag of segment 6j+k, trailing zero digits trimmed (nothing for a line
// without range segments), lines joined by ';' up to the line of the last token; the key is absent when no
// segment is a range.  Segments are what the mappings writer emits: exact consecutive duplicates do not count.
pub open spec fn last_true(s: Seq<bool>) -> int decreases s.len() {
    if s.len() == 0 { -1 } else if s.last() { s.len() - 1 } else { last_true(s.drop_last()) }
}
pub open spec fn has_true(s: Seq<bool>) -> bool { last_true(s) >= 0 }
/// digits for a bit string, trimmed after its last set bit (a single 'A' if no bit is set)
pub open spec fn digits_of(b: Seq<bool>) -> Seq<u8> {
    let n = (if last_true(b) < 0 { 0 } else { last_true(b) }) + 1;
    let ch = chunk_seq(b.subrange(0, n), 6);
    Seq::new(ch.len(), |c: int| b64_char(load_spec(ch[c])))
}
pub struct RmiSt { pub line: int, pub flags: Seq<bool>, pub out: Seq<u8>, pub any: bool }
pub open spec fn rmi_st0() -> RmiSt { RmiSt { line: 0, flags: Seq::<bool>::empty(), out: Seq::<u8>::empty(), any: false } }
pub open spec fn rmi_flush(st: RmiSt) -> Seq<u8> { if has_true(st.flags) { digits_of(st.flags) } else { Seq::<u8>::empty() } }
pub open spec fn rmi_step(ts: Seq<RawToken>, i: int, st: RmiSt) -> RmiSt {
    let t = ts[i];
    let st1 = if t.dst_line != st.line {
        RmiSt { line: t.dst_line as int, flags: Seq::<bool>::empty(), out: st.out + rmi_flush(st) + semis(t.dst_line - st.line), any: st.any }
    } else { st };
    if is_dup(ts, i) { st1 } else { RmiSt { flags: st1.flags.push(t.is_range), any: st1.any || t.is_range, ..st1 } }
}
pub open spec fn rmi_after(ts: Seq<RawToken>, k: int) -> RmiSt decreases k {
    if k <= 0 { rmi_st0() } else { rmi_step(ts, k - 1, rmi_after(ts, k - 1)) }
}
/// the reference "rangeMappings" value of a token list (None = key absent)
pub open spec fn rmi_encode(ts: Seq<RawToken>) -> Option<Seq<u8>> {
    let st = rmi_after(ts, ts.len() as int);
    if !st.any { None } else { Some(st.out + rmi_flush(st)) }
}

pub proof fn lemma_last_true_push(s: Seq<bool>, b: bool)
    ensures last_true(s.push(b)) == (if b { s.len() as int } else { last_true(s) })
{
    assert(s.push(b).drop_last() =~= s);
}
pub proof fn lemma_last_true_range(s: Seq<bool>)
    ensures -1 <= last_true(s) < s.len(), last_true(s) >= 0 ==> s[last_true(s)],
        forall|i: int| last_true(s) < i < s.len() ==> !#[trigger] s[i],
    decreases s.len()
{
    if s.len() > 0 && !s.last() {
        lemma_last_true_range(s.drop_last());
        assert forall|i: int| last_true(s) < i < s.len() implies !#[trigger] s[i] by {
            if i < s.len() - 1 { assert(s.drop_last()[i] == s[i]); }
        }
    }
}
/// two bit strings that agree at every position (false beyond their ends) have the same last set bit
pub proof fn lemma_last_true_agree(a: Seq<bool>, b: Seq<bool>)
    requires forall|i: int| 0 <= i ==> bit_at(a, i) == bit_at(b, i)
    ensures last_true(a) == last_true(b)
{
    lemma_last_true_range(a);
    lemma_last_true_range(b);
    let la = last_true(a);
    let lb = last_true(b);
    if la >= 0 { assert(bit_at(a, la) == bit_at(b, la)); }
    if lb >= 0 { assert(bit_at(a, lb) == bit_at(b, lb)); }
    if la > lb { if la < b.len() { assert(!b[la]); } }
    if lb > la { if lb < a.len() { assert(!a[lb]); } }
}
pub proof fn lemma_digits_agree(a: Seq<bool>, b: Seq<bool>)
    requires forall|i: int| 0 <= i ==> bit_at(a, i) == bit_at(b, i), has_true(a)
    ensures digits_of(a) == digits_of(b)
{
    lemma_last_true_agree(a, b);
    lemma_last_true_range(a);
    lemma_last_true_range(b);
    let n = last_true(a) + 1;
    assert(a.subrange(0, n) =~= b.subrange(0, n)) by {
        assert forall|i: int| 0 <= i < n implies a.subrange(0, n)[i] == b.subrange(0, n)[i] by {
            assert(bit_at(a, i) == bit_at(b, i));
        }
    }
}
pub proof fn lemma_load_bound(s: Seq<bool>)
    ensures 0 <= load_spec(s) < pow2(s.len())
    decreases s.len()
{
    lemma2_to64();
    if s.len() > 0 {
        lemma_load_bound(s.drop_first());
        lemma_pow2_adds(1, (s.len() - 1) as nat);
    }
}

/// the running line is the line of the last token seen
pub proof fn lemma_rmi_line(ts: Seq<RawToken>, k: int)
    requires 0 <= k <= ts.len()
    ensures rmi_after(ts, k).line == (if k == 0 { 0int } else { ts[k - 1].dst_line as int })
    decreases k
{
    if k > 0 { lemma_rmi_line(ts, k - 1); }
}
pub open spec fn ascii(s: Seq<u8>) -> bool { forall|i: int| 0 <= i < s.len() ==> #[trigger] s[i] < 128 }
pub proof fn lemma_digits_ascii(b: Seq<bool>)
    ensures ascii(digits_of(b))
{
    let n = (if last_true(b) < 0 { 0 } else { last_true(b) }) + 1;
    let ch = chunk_seq(b.subrange(0, n), 6);
    assert forall|c: int| 0 <= c < digits_of(b).len() implies #[trigger] digits_of(b)[c] < 128 by {
        lemma_load_bound(ch[c]);
    }
}
pub proof fn lemma_semis_ascii(n: int)
    ensures ascii(semis(n)), semis(n).len() == (if n < 0 { 0 } else { n })
    decreases n
{
    if n > 0 { lemma_semis_ascii(n - 1); }
}
/// pushing a flag: the bit view changes only at the new position
pub proof fn lemma_bit_at_push(f: Seq<bool>, b: bool)
    ensures forall|i: int| 0 <= i ==> bit_at(f.push(b), i) == (if i == f.len() { b } else { bit_at(f, i) })
{
}
/// growing a byte vector with zero bytes adds only cleared bits
pub proof fn lemma_bytes_bits_grow(old: Seq<u8>, new: Seq<u8>)
    requires new.len() >= old.len(), forall|i: int| 0 <= i < new.len() ==> #[trigger] new[i] == (if i < old.len() { old[i] } else { 0u8 })
    ensures forall|j: int| 0 <= j ==> bit_at(bytes_bits(new), j) == bit_at(bytes_bits(old), j)
{
    assert forall|j: int| 0 <= j implies bit_at(bytes_bits(new), j) == bit_at(bytes_bits(old), j) by {
        if j < 8 * new.len() {
            if j / 8 < old.len() {
                assert(new[j / 8] == old[j / 8]);
            } else {
                assert(new[j / 8] == 0u8);
                assert(!bit_of(0u8, j % 8)) by {
                    lemma_pow2_pos((j % 8) as nat);
                    assert(0int / (pow2((j % 8) as nat) as int) == 0) by (nonlinear_arith) requires pow2((j % 8) as nat) > 0;
                }
            }
        }
    }
}
pub proof fn lemma_has_true_bit(f: Seq<bool>, bits: Seq<bool>)
    requires forall|i: int| 0 <= i ==> bit_at(bits, i) == bit_at(f, i), has_true(f)
    ensures bits.len() > last_true(f), has_true(bits)
{
    lemma_last_true_range(f);
    lemma_last_true_agree(bits, f);
    lemma_last_true_range(bits);
}
pub proof fn lemma_no_true_empty(f: Seq<bool>)
    ensures !has_true(Seq::<bool>::empty()), has_true(f.push(true)), has_true(f.push(false)) == has_true(f)
{
    lemma_last_true_push(f, true);
    lemma_last_true_push(f, false);
}
