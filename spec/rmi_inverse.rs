// C07, spec level: the reference bitfield reader inverts the reference writer.  For the flags f of one line
// (with at least one flag set) the digits the writer emits, read back by the reader, give a bit string that
// agrees with f at every position (false beyond the written digits) -- "wherever they sit on their line and
// however many tokens precede them".
pub proof fn lemma_bit_of_small(x: u8, k: int)
    requires 0 <= k < 8
    ensures bit_of(x, k) == ((x as int / (if k == 0 { 1int } else if k == 1 { 2 } else if k == 2 { 4 } else if k == 3 { 8 } else if k == 4 { 16 } else if k == 5 { 32 } else if k == 6 { 64 } else { 128 })) % 2 == 1)
{
    lemma2_to64();
}
/// bit k of the little-endian value of a short bit string is that string's k-th entry
pub proof fn lemma_load_bit(s: Seq<bool>, k: int)
    requires s.len() <= 6, 0 <= k < 6
    ensures 0 <= load_spec(s) < 64, bit_of(load_spec(s) as u8, k) == bit_at(s, k)
    decreases s.len()
{
    lemma_load_bound(s);
    lemma2_to64();
    assert(pow2(s.len()) <= 64) by { if s.len() == 0 {} else if s.len() == 1 {} else if s.len() == 2 {} else if s.len() == 3 {} else if s.len() == 4 {} else if s.len() == 5 {} else {} }
    lemma_bit_of_small(load_spec(s) as u8, k);
    if s.len() == 0 {
    } else {
        let rest = s.drop_first();
        lemma_load_bit(rest, if k > 0 { k - 1 } else { 0 });
        lemma_load_bound(rest);
        let v = load_spec(s);
        let r = load_spec(rest);
        let b0: int = if s[0] { 1 } else { 0 };
        assert(v == b0 + 2 * r);
        assert(pow2(rest.len()) <= 32) by { if rest.len() == 0 {} else if rest.len() == 1 {} else if rest.len() == 2 {} else if rest.len() == 3 {} else if rest.len() == 4 {} else {} }
        if k == 0 {
            assert(v % 2 == b0);
        } else {
            lemma_bit_of_small(r as u8, k - 1);
            assert(bit_at(s, k) == bit_at(rest, k - 1));
            // (b0 + 2 r) / 2^k == r / 2^(k-1)
            if k == 1 { assert(v / 2 == r); }
            else if k == 2 { assert(v / 4 == r / 2); }
            else if k == 3 { assert(v / 8 == r / 4); }
            else if k == 4 { assert(v / 16 == r / 8); }
            else { assert(v / 32 == r / 16); }
        }
    }
}

/// the reader's view of the writer's digits agrees with the flags everywhere
//@ lemma_rmi_reader_inverts_writer [C07]
pub proof fn lemma_rmi_reader_inverts_writer(f: Seq<bool>)
    requires has_true(f)
    ensures rmi_valid(digits_of(f)),
        forall|i: int| 0 <= i ==> bit_at(rmi_bits(digits_of(f)), i) == bit_at(f, i),
{
    lemma_last_true_range(f);
    let n = last_true(f) + 1;
    let t = f.subrange(0, n);
    let ch = chunk_seq(t, 6);
    let d = digits_of(f);
    assert(d.len() == ch.len());
    assert forall|c: int| 0 <= c < d.len() implies b64_index(#[trigger] d[c]) >= 0 && b64_index(d[c]) == load_spec(ch[c]) by {
        lemma_load_bit(ch[c], 0);
        lemma_index_char(load_spec(ch[c]));
    }
    assert forall|i: int| 0 <= i implies bit_at(rmi_bits(d), i) == bit_at(f, i) by {
        if i < 6 * d.len() {
            let c = i / 6;
            let k = i % 6;
            lemma_load_bit(ch[c], k);
            lemma_index_char(load_spec(ch[c]));
            assert(rmi_bits(d)[i] == bit_of(b64_index(d[c]) as u8, k));
            assert(ch[c] == t.subrange(6 * c, if 6 * c + 6 <= t.len() { 6 * c + 6 } else { t.len() as int }));
            if 6 * c + k < t.len() { assert(ch[c][k] == t[6 * c + k]); assert(t[6 * c + k] == f[i]); }
            else { assert(bit_at(ch[c], k) == false); assert(i >= n); if i < f.len() { assert(!f[i]); } }
        } else {
            // beyond the written digits: 6 * digits >= n, and f has no set bit at or after n
            assert(6 * d.len() >= n) by { assert(ch.len() == (t.len() + 5) / 6); }
            if i < f.len() { assert(!f[i]); }
        }
    }
}
