// C07 / C01 with range flags: the reference "rangeMappings" text of a token list gives the reader, at (line, segment
// position), exactly the flag of the token the "mappings" writer put there (range_ok), so the round trip of
// spec/mappings_inverse.rs also returns every range flag.

/// flags of a finished line read back from its text
pub proof fn lemma_flush_bits(f: Seq<bool>)
    ensures
        rmi_valid(if has_true(f) { digits_of(f) } else { Seq::<u8>::empty() }),
        sep_free(if has_true(f) { digits_of(f) } else { Seq::<u8>::empty() }, 59u8),
        forall|j: int| 0 <= j ==> bit_at(rmi_bits(if has_true(f) { digits_of(f) } else { Seq::<u8>::empty() }), j) == bit_at(f, j),
{
    if has_true(f) {
        lemma_rmi_reader_inverts_writer(f);
        let d = digits_of(f);
        assert forall|i: int| 0 <= i < d.len() implies #[trigger] d[i] != 59u8 by { assert(b64_index(d[i]) >= 0); }
    } else {
        lemma_last_true_range(f);
        assert forall|j: int| 0 <= j implies bit_at(rmi_bits(Seq::<u8>::empty()), j) == bit_at(f, j) by {
            if j < f.len() { assert(!f[j]); }
        }
    }
}
/// token i's flag is where the reader will look for it: in the text of its (finished) line, or among the pending flags of the running line
pub open spec fn rmi_tok_ok(ts: Seq<RawToken>, st: RmiSt, lines: Seq<Seq<u8>>, i: int) -> bool {
    let p = line_segs(ts, i + 1) - 1;
    is_dup(ts, i) || (if ts[i].dst_line < st.line { ts[i].is_range == bit_at(rmi_bits(lines[ts[i].dst_line as int]), p) }
                      else { ts[i].dst_line == st.line && 0 <= p < st.flags.len() && ts[i].is_range == st.flags[p] })
}
/// the writer's state after k tokens, read back
pub open spec fn rmi_inv(ts: Seq<RawToken>, k: int) -> bool {
    let st = rmi_after(ts, k); let lines = split_seq(st.out, 59u8);
    &&& st.line >= 0
    &&& lines.len() == st.line + 1
    &&& lines.last().len() == 0
    &&& (forall|l: int| 0 <= l < lines.len() ==> rmi_valid(#[trigger] lines[l]))
    &&& st.flags.len() == (if k > 0 { line_segs(ts, k) } else { 0 })
    &&& (forall|i: int| 0 <= i < k ==> #[trigger] rmi_tok_ok(ts, st, lines, i))
}
pub proof fn lemma_line_segs_pos(ts: Seq<RawToken>, k: int)
    requires 0 < k <= ts.len()
    ensures line_segs(ts, k) >= 1
    decreases k
{
    if is_dup(ts, k - 1) { lemma_line_segs_pos(ts, k - 1); }
    else if k - 1 > 0 && ts[k - 1].dst_line == ts[k - 2].dst_line { lemma_line_segs_pos(ts, k - 1); }
}
pub open spec fn no_range_before(ts: Seq<RawToken>, k: int) -> bool { forall|i: int| 0 <= i < k ==> !(#[trigger] ts[i]).is_range }
/// the key is absent only if no token is a range token
pub proof fn lemma_rmi_any(ts: Seq<RawToken>, k: int)
    requires 0 <= k <= ts.len()
    ensures !rmi_after(ts, k).any ==> no_range_before(ts, k)
    decreases k
{
    if k > 0 {
        lemma_rmi_any(ts, k - 1);
        let st = rmi_after(ts, k - 1);
        assert(rmi_after(ts, k) == rmi_step(ts, k - 1, st));
        if !rmi_after(ts, k).any {
            assert(!st.any);
            if is_dup(ts, k - 1) { assert(ts[k - 1] == ts[k - 2]); }
            assert forall|i: int| 0 <= i < k implies !(#[trigger] ts[i]).is_range by { if i < k - 1 { assert(no_range_before(ts, k - 1)); } }
        }
    }
}
pub proof fn lemma_rmi_step_newline(ts: Seq<RawToken>, k: int)
    requires 0 <= k < ts.len(), sorted_tokens(ts), rmi_inv(ts, k), ts[k].dst_line != rmi_after(ts, k).line
    ensures rmi_inv(ts, k + 1)
{
    let st = rmi_after(ts, k); let lines = split_seq(st.out, 59u8);
    let t = ts[k];
    let st2 = rmi_after(ts, k + 1);
    assert(st2 == rmi_step(ts, k, st));
    lemma_rmi_line(ts, k);
    lemma_rmi_line(ts, k + 1);
    if k > 0 { assert(tle(tkey(ts[k - 1]), tkey(ts[k]))); }
    // the running line is finished: its digits (or nothing), then the line breaks
    let d = t.dst_line - st.line;
    assert(d > 0);
    let fl = rmi_flush(st);
    lemma_flush_bits(st.flags);
    lemma_split_append_free(st.out, fl, 59u8);
    let l1 = lines.drop_last().push(lines.last() + fl);
    assert(lines.last() + fl =~= fl);
    assert(split_seq(st.out + fl, 59u8) == l1);
    lemma_split_semis(st.out + fl, d);
    let lines2 = l1 + empties(d);
    assert(st.out + fl + semis(d) =~= (st.out + fl) + semis(d));
    assert(!is_dup(ts, k)) by { if k > 0 { assert(ts[k].dst_line != ts[k - 1].dst_line); } }
    assert(st2.out == st.out + fl + semis(d));
    assert(split_seq(st2.out, 59u8) == lines2);
    assert(lines2.len() == st.line + 1 + d);
    assert(lines2.last().len() == 0);
    assert(st2.flags =~= seq![t.is_range]);
    assert(line_segs(ts, k + 1) == 1);
    assert forall|l: int| 0 <= l < lines2.len() implies rmi_valid(#[trigger] lines2[l]) by {
        if l < st.line { assert(lines2[l] == lines[l]); } else if l == st.line { assert(lines2[l] == fl); } else { assert(lines2[l].len() == 0); }
    }
    assert forall|i: int| 0 <= i < k + 1 implies #[trigger] rmi_tok_ok(ts, st2, lines2, i) by {
        if i < k {
            assert(rmi_tok_ok(ts, st, lines, i));
            assert(tle(tkey(ts[i]), tkey(ts[k - 1])));
            if !is_dup(ts, i) {
                let p = line_segs(ts, i + 1) - 1;
                if ts[i].dst_line < st.line { assert(lines2[ts[i].dst_line as int] == lines[ts[i].dst_line as int]); }
                else { assert(lines2[st.line] == fl); assert(bit_at(st.flags, p) == st.flags[p]); }
            }
        }
    }
}
pub proof fn lemma_rmi_step_sameline(ts: Seq<RawToken>, k: int)
    requires 0 <= k < ts.len(), sorted_tokens(ts), rmi_inv(ts, k), ts[k].dst_line == rmi_after(ts, k).line
    ensures rmi_inv(ts, k + 1)
{
    let st = rmi_after(ts, k); let lines = split_seq(st.out, 59u8);
    let t = ts[k];
    let st2 = rmi_after(ts, k + 1);
    assert(st2 == rmi_step(ts, k, st));
    lemma_rmi_line(ts, k);
    lemma_rmi_line(ts, k + 1);
    if k > 0 { lemma_line_segs_pos(ts, k); }
    assert(st2.out == st.out);
    if is_dup(ts, k) {
        assert(st2 == st);
        assert(line_segs(ts, k + 1) == line_segs(ts, k));
        assert forall|i: int| 0 <= i < k + 1 implies #[trigger] rmi_tok_ok(ts, st2, lines, i) by {
            if i < k { assert(rmi_tok_ok(ts, st, lines, i)); }
        }
    } else {
        assert(st2.flags == st.flags.push(t.is_range));
        if k > 0 { assert(line_segs(ts, k + 1) == line_segs(ts, k) + 1); } else { assert(line_segs(ts, 1) == 1); }
        assert forall|i: int| 0 <= i < k + 1 implies #[trigger] rmi_tok_ok(ts, st2, lines, i) by {
            if i < k {
                assert(rmi_tok_ok(ts, st, lines, i));
                if !is_dup(ts, i) && ts[i].dst_line == st.line { let p = line_segs(ts, i + 1) - 1; assert(st2.flags[p] == st.flags[p]); }
            }
        }
    }
}
pub proof fn lemma_rmi_step_inv(ts: Seq<RawToken>, k: int)
    requires 0 <= k < ts.len(), sorted_tokens(ts), rmi_inv(ts, k)
    ensures rmi_inv(ts, k + 1)
{
    if ts[k].dst_line != rmi_after(ts, k).line { lemma_rmi_step_newline(ts, k); } else { lemma_rmi_step_sameline(ts, k); }
}
pub proof fn lemma_rmi_inv_all(ts: Seq<RawToken>, k: int)
    requires 0 <= k <= ts.len(), sorted_tokens(ts)
    ensures rmi_inv(ts, k)
    decreases k
{
    if k == 0 {
        assert(split_seq(Seq::<u8>::empty(), 59u8) == seq![Seq::<u8>::empty()]);
    } else {
        lemma_rmi_inv_all(ts, k - 1);
        lemma_rmi_step_inv(ts, k - 1);
    }
}
/// what the reader is handed when the key is absent
pub open spec fn rmi_text(ts: Seq<RawToken>) -> Seq<u8> { match rmi_encode(ts) { Some(s) => s, None => Seq::<u8>::empty() } }

//@ lemma_range_text_matches_tokens [C07 C01]
pub proof fn lemma_range_text_matches_tokens(ts: Seq<RawToken>)
    requires sorted_tokens(ts)
    ensures range_ok(ts, split_seq(rmi_text(ts), 59u8))
{
    let n = ts.len() as int;
    lemma_rmi_inv_all(ts, n);
    lemma_rmi_any(ts, n);
    let st = rmi_after(ts, n); let lines = split_seq(st.out, 59u8);
    let rmis = split_seq(rmi_text(ts), 59u8);
    lemma_rmi_line(ts, n);
    if st.any {
        let fl = rmi_flush(st);
        lemma_flush_bits(st.flags);
        lemma_split_append_free(st.out, fl, 59u8);
        assert(lines.last() + fl =~= fl);
        assert(rmis == lines.drop_last().push(fl));
        assert forall|l: int| rmi_valid(#[trigger] rmi_for(rmis, l)) by {
            if 0 <= l < rmis.len() { if l < st.line { assert(rmis[l] == lines[l]); } else { assert(rmis[l] == fl); } }
        }
        assert forall|i: int| 0 <= i < ts.len() && !is_dup(ts, i) implies (#[trigger] ts[i]).is_range == bit_at(rmi_bits(rmi_for(rmis, ts[i].dst_line as int)), line_segs(ts, i + 1) - 1) by {
            assert(rmi_tok_ok(ts, st, lines, i));
            assert(tle(tkey(ts[i]), tkey(ts[n - 1])));
            let p = line_segs(ts, i + 1) - 1;
            if ts[i].dst_line < st.line { assert(rmis[ts[i].dst_line as int] == lines[ts[i].dst_line as int]); }
            else { assert(rmis[st.line] == fl); assert(bit_at(st.flags, p) == st.flags[p]); }
        }
    } else {
        assert(rmis == seq![Seq::<u8>::empty()]);
        assert forall|l: int| rmi_valid(#[trigger] rmi_for(rmis, l)) by {}
        assert forall|i: int| 0 <= i < ts.len() && !is_dup(ts, i) implies (#[trigger] ts[i]).is_range == bit_at(rmi_bits(rmi_for(rmis, ts[i].dst_line as int)), line_segs(ts, i + 1) - 1) by {
            assert(no_range_before(ts, n));
            assert(rmi_for(rmis, ts[i].dst_line as int).len() == 0);
        }
    }
}

//@ lemma_document_roundtrip_with_ranges [C01 C07 C03]
/// THE ROUND TRIP with range flags: the reference "mappings" and "rangeMappings" texts of a sorted list of well-formed
/// tokens, read by the reference reader, give that list without exact consecutive duplicates, range flags included.
pub proof fn lemma_document_roundtrip_with_ranges(ts: Seq<RawToken>, nsrc: int, nnames: int)
    requires sorted_tokens(ts), all_wf(ts, nsrc, nnames)
    ensures
        mappings_decode(mappings_encode(ts, nnames), rmi_text(ts), nsrc, nnames) matches DecOut::Good(acc, st)
            && toks_equiv(dedup(ts, ts.len() as int), acc),
{
    lemma_range_text_matches_tokens(ts);
    lemma_mappings_roundtrip_with_ranges(ts, rmi_text(ts), nsrc, nnames);
}

//@ lemma_range_roundtrip_witness [C07 C01]
/// satisfiable hypotheses and a visible consequence: a list with one range token reads back with that flag set
pub proof fn lemma_range_roundtrip_witness()
{
    let a = RawToken { dst_line: 0, dst_col: 4, src_line: 0, src_col: 0, src_id: 0xffff_ffffu32, name_id: 0xffff_ffffu32, is_range: false };
    let b = RawToken { dst_line: 2, dst_col: 1, src_line: 7, src_col: 3, src_id: 1, name_id: 0, is_range: true };
    let ts = seq![a, a, b];
    assert(sorted_tokens(ts)) by {
        assert forall|i: int, j: int| 0 <= i <= j < ts.len() implies tle(#[trigger] tkey(ts[i]), #[trigger] tkey(ts[j])) by {}
    }
    assert(all_wf(ts, 2, 1));
    lemma_document_roundtrip_with_ranges(ts, 2, 1);
    assert(dedup(ts, 0) =~= Seq::<RawToken>::empty());
    assert(!is_dup(ts, 0) && is_dup(ts, 1) && !is_dup(ts, 2));
    assert(dedup(ts, 1) =~= seq![a]);
    assert(dedup(ts, 2) =~= seq![a]);
    assert(dedup(ts, 3) =~= seq![a, b]);
    let o = mappings_decode(mappings_encode(ts, 1), rmi_text(ts), 2, 1);
    assert(o is Good && o->Good_0.len() == 2);
    assert(tok_equiv(dedup(ts, 3)[1], o->Good_0[1]));
    assert(o->Good_0[1].is_range && o->Good_0[1].src_line == 7 && !o->Good_0[0].is_range);
}
