// The documented sourceRoot rule (C02 last sentence, C13): a non-empty sourceRoot is joined to every
// source that is not absolute ('/', 'http:', 'https:'); one trailing '/' of the root is dropped first.
pub open spec fn is_abs_source(s: Seq<char>) -> bool {
    s.len() > 0 && (s[0] == '/' || seq_starts_with(s, "http:"@) || seq_starts_with(s, "https:"@))
}
pub open spec fn strip_one_slash(r: Seq<char>) -> Seq<char> { if r.len() > 0 && r.last() == '/' { r.drop_last() } else { r } }
pub open spec fn prefix_spec(root: Seq<char>, source: Seq<char>) -> Seq<char> {
    if is_abs_source(source) { source } else { strip_one_slash(root) + "/"@ + source }
}
/// how source i reads for a given root: raw name when the root is absent or empty
pub open spec fn reads_as(root: Option<Seq<char>>, raw: Seq<char>) -> Seq<char> {
    match root { Some(r) => if r.len() > 0 { prefix_spec(r, raw) } else { raw }, None => raw }
}
pub open spec fn opt_chars(o: Option<Arc<str>>) -> Option<Seq<char>> { match o { Some(a) => Some(arc_chars(&a)), None => None } }

/// representation invariant of the prefixed-name cache
pub open spec fn root_wf(sm: &SourceMap) -> bool {
    match opt_chars(sm.source_root) {
        Some(r) => if r.len() > 0 {
                sm.sources_prefixed matches Some(sp) && sp@.len() == sm.sources@.len()
                && forall|i: int| 0 <= i < sm.sources@.len() ==> arc_chars(&#[trigger] sp@[i]) == prefix_spec(r, arc_chars(&sm.sources@[i]))
            } else { sm.sources_prefixed is None },
        None => sm.sources_prefixed is None,
    }
}
/// everything but the root / prefixed cache
pub open spec fn same_but_root(a: &SourceMap, b: &SourceMap) -> bool {
    a.tokens == b.tokens && a.names == b.names && a.sources == b.sources && a.sources_content == b.sources_content
        && a.file == b.file && a.debug_id == b.debug_id && a.ignore_list == b.ignore_list
}

