// The iteration model of SourceMapSectionIter: what is still to come is exactly get_section(next_idx),
// get_section(next_idx + 1), ...  Verus checks the real `next` against vstd's prophetic iterator laws for this model.
// The iterator counts in a u32, so it carries a type invariant: at most 2^32-1 sections (established by `sections()`,
// whose contract requires it); the struct keeps its private fields, as a type invariant demands.
impl<'a> SourceMapSectionIter<'a> {
    pub closed spec fn vi(&self) -> &'a SourceMapIndex { self.i }
    pub closed spec fn vn(&self) -> u32 { self.next_idx }
    #[verifier::type_invariant]
    closed spec fn inv(&self) -> bool { self.i.sections@.len() <= 0xffff_ffff && self.next_idx <= self.i.sections@.len() }
}
pub open spec fn sections_from<'a>(idx: &'a SourceMapIndex, from: int) -> Seq<&'a SourceMapSection> {
    if 0 <= from < idx.sections@.len() { Seq::new((idx.sections@.len() - from) as nat, |k: int| &idx.sections@[from + k]) } else { Seq::empty() }
}
impl<'a> IteratorSpecImpl for SourceMapSectionIter<'a> {
    closed spec fn obeys_prophetic_iter_laws(&self) -> bool { true }
    #[verifier::prophetic]
    closed spec fn remaining(&self) -> Seq<&'a SourceMapSection> { sections_from(self.i, self.next_idx as int) }
    #[verifier::prophetic]
    closed spec fn will_return_none(&self) -> bool { true }
    closed spec fn decrease(&self) -> Option<nat> { Some(sections_from(self.i, self.next_idx as int).len()) }
    closed spec fn peek(&self, k: int) -> Option<&'a SourceMapSection> {
        if 0 <= k < sections_from(self.i, self.next_idx as int).len() { Some(sections_from(self.i, self.next_idx as int)[k]) } else { None }
    }
}
