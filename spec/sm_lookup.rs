// The statement of SourceMap::lookup_token (C04 / C07) as a relation (used by the index lookup of C08 and the position-based name resolution of C17).
/// the statement of SourceMap::lookup_token (C04 / C07) as a relation between map, position and answer
pub open spec fn sm_lookup_post<'a>(sm: &'a SourceMap, line: u32, col: u32, res: Option<Token<'a>>) -> bool {
    &&& (res is None <==> (forall|i: int| 0 <= i < sm.tokens@.len() ==> !tle(#[trigger] tkey(sm.tokens@[i]), (line, col))))
    &&& (res matches Some(t) ==> tle(tkey(*t.raw), (line, col))
            && (forall|i: int| 0 <= i < sm.tokens@.len() && tle(#[trigger] tkey(sm.tokens@[i]), (line, col)) ==> tle(tkey(sm.tokens@[i]), tkey(*t.raw))))
    &&& (res matches Some(t) ==> (exists|p: int| 0 <= p < sm.tokens@.len() && t.raw == &#[trigger] sm.tokens@[p] && (tkey(sm.tokens@[p]) == (line, col) ==> (p == t.idx && forall|i: int| 0 <= i < p ==> #[trigger] tkey(sm.tokens@[i]) != (line, col)))))
    &&& (res matches Some(t) ==> t.offset == (if t.raw.is_range && t.raw.dst_line == line { (col - t.raw.dst_col) as u32 } else { 0u32 }))
    &&& (res matches Some(t) ==> t.sm == sm)
    &&& (res matches Some(t) ==> t.idx < sm.tokens@.len() && t.raw == &sm.tokens@[t.idx as int])
}
