// The iteration models of SourceIter / SourceContentsIter: what is still to come is get_source(next_idx), get_source(next_idx + 1), ... resp.
// get_source_contents(next_idx), ... up to the number of sources.  Both count in a u32 and carry a type invariant (at most 2^32-1 sources; for SourceIter also the
// prefixed-name cache invariant get_source needs), established by `sources()` / `source_contents()`.
pub open spec fn src_ref<'a>(sm: &'a SourceMap, i: int) -> &'a str { choose|s: &'a str| #[trigger] s@ == reads_as(opt_chars(sm.source_root), arc_chars(&sm.sources@[i])) }
impl<'a> SourceIter<'a> {
    pub closed spec fn vi(&self) -> &'a SourceMap { self.i }
    pub closed spec fn vn(&self) -> u32 { self.next_idx }
    #[verifier::type_invariant]
    closed spec fn inv(&self) -> bool { self.i.sources@.len() <= 0xffff_ffff && self.next_idx <= self.i.sources@.len() && root_wf(self.i) }
}
pub open spec fn sources_from<'a>(sm: &'a SourceMap, from: int) -> Seq<&'a str> {
    if 0 <= from < sm.sources@.len() { Seq::new((sm.sources@.len() - from) as nat, |k: int| src_ref(sm, from + k)) } else { Seq::empty() }
}
impl<'a> IteratorSpecImpl for SourceIter<'a> {
    closed spec fn obeys_prophetic_iter_laws(&self) -> bool { true }
    #[verifier::prophetic]
    closed spec fn remaining(&self) -> Seq<&'a str> { sources_from(self.i, self.next_idx as int) }
    #[verifier::prophetic]
    closed spec fn will_return_none(&self) -> bool { true }
    closed spec fn decrease(&self) -> Option<nat> { Some(sources_from(self.i, self.next_idx as int).len()) }
    closed spec fn peek(&self, k: int) -> Option<&'a str> {
        if 0 <= k < sources_from(self.i, self.next_idx as int).len() { Some(sources_from(self.i, self.next_idx as int)[k]) } else { None }
    }
}
pub open spec fn text_of(sm: &SourceMap, i: int) -> Option<Seq<char>> {
    if 0 <= i < sm.sources_content@.len() { match sm.sources_content@[i] { Some(v) => Some(sv_text(&v)), None => None } } else { None }
}
pub open spec fn cont_ref<'a>(sm: &'a SourceMap, i: int) -> Option<&'a str> { match text_of(sm, i) { Some(t) => Some(choose|s: &'a str| #[trigger] s@ == t), None => None } }
impl<'a> SourceContentsIter<'a> {
    pub closed spec fn vi(&self) -> &'a SourceMap { self.i }
    pub closed spec fn vn(&self) -> u32 { self.next_idx }
    #[verifier::type_invariant]
    closed spec fn inv(&self) -> bool { self.i.sources@.len() <= 0xffff_ffff && self.next_idx <= self.i.sources@.len() }
}
pub open spec fn contents_from<'a>(sm: &'a SourceMap, from: int) -> Seq<Option<&'a str>> {
    if 0 <= from < sm.sources@.len() { Seq::new((sm.sources@.len() - from) as nat, |k: int| cont_ref(sm, from + k)) } else { Seq::empty() }
}
impl<'a> IteratorSpecImpl for SourceContentsIter<'a> {
    closed spec fn obeys_prophetic_iter_laws(&self) -> bool { true }
    #[verifier::prophetic]
    closed spec fn remaining(&self) -> Seq<Option<&'a str>> { contents_from(self.i, self.next_idx as int) }
    #[verifier::prophetic]
    closed spec fn will_return_none(&self) -> bool { true }
    closed spec fn decrease(&self) -> Option<nat> { Some(contents_from(self.i, self.next_idx as int).len()) }
    closed spec fn peek(&self, k: int) -> Option<Option<&'a str>> {
        if 0 <= k < contents_from(self.i, self.next_idx as int).len() { Some(contents_from(self.i, self.next_idx as int)[k]) } else { None }
    }
}
