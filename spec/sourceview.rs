// C15: lines of a text and UTF-16 slices of a line, written from the statement.
pub open spec fn is_term(b: u8) -> bool { b == 10 || b == 13 }
/// index of the first line-terminator byte of s, s.len() when there is none
pub open spec fn first_term(s: Seq<u8>) -> int decreases s.len() {
    if s.len() == 0 { 0 } else if is_term(s[0]) { 0 } else { 1 + first_term(s.drop_first()) }
}
/// a terminator is \r\n (two bytes), \n or a lone \r
pub open spec fn term_len(s: Seq<u8>, i: int) -> int { if s[i] == 13 && i + 1 < s.len() && s[i + 1] == 10 { 2 } else { 1 } }
/// the pieces obtained by splitting s at \r\n, \n or lone \r; a trailing terminator yields a final empty piece
pub open spec fn lines_of(s: Seq<u8>) -> Seq<Seq<u8>> decreases s.len() {
    let i = first_term(s);
    if 0 <= i < s.len() { seq![s.subrange(0, i)] + lines_of(s.subrange(i + term_len(s, i), s.len() as int)) } else { seq![s] }
}
pub proof fn lemma_first_term(s: Seq<u8>, k: int)
    requires 0 <= k <= s.len(), forall|j: int| 0 <= j < k ==> !is_term(#[trigger] s[j]), k < s.len() ==> is_term(s[k])
    ensures first_term(s) == k
    decreases s.len()
{
    if s.len() == 0 {} else if k == 0 {} else {
        assert forall|j: int| 0 <= j < k - 1 implies !is_term(#[trigger] s.drop_first()[j]) by { assert(s.drop_first()[j] == s[j + 1]); }
        lemma_first_term(s.drop_first(), k - 1);
    }
}
//@ lemma_split_at_ascii [C15 C05]
/// cutting valid UTF-8 at an ASCII byte leaves valid UTF-8 on both sides (the obligation of the unsafe from_utf8_unchecked)
pub proof fn lemma_split_at_ascii(s: Seq<u8>, i: int)
    requires valid_utf8(s), 0 <= i < s.len(), s[i] < 128
    ensures valid_utf8(s.subrange(0, i)), valid_utf8(s.subrange(i + 1, s.len() as int))
{
    is_char_boundary_iff_not_is_continuation_byte(s, i);
    valid_utf8_split(s, i);
    let t = s.subrange(i, s.len() as int);
    assert(t[0] == s[i]);
    assert(valid_first_scalar(t));
    assert(pop_first_scalar(t) == s.subrange(i + 1, s.len() as int));
}
pub open spec fn line_bytes(v: Seq<&'static str>) -> Seq<Seq<u8>> { v.map_values(|s: &'static str| s.spec_bytes()) }
/// the lazily built line index: the cached lines are the first pieces of the text, and `processed_until` is the offset at which the
/// remaining pieces start (text length + 1 once every piece is cached)
pub open spec fn sv_wf(sv: &SourceView) -> bool {
    let b = arc_bytes(&sv.source); let p = sv.processed_until.val as int; let c = line_bytes(sv.lines.v@);
    (0 <= p <= b.len() && valid_utf8(b.subrange(p, b.len() as int)) && lines_of(b) == c + lines_of(b.subrange(p, b.len() as int)))
     || (p == b.len() + 1 && lines_of(b) == c)
}
pub open spec fn sv_lines(sv: &SourceView) -> Seq<Seq<u8>> { lines_of(arc_bytes(&sv.source)) }
/// C15, first half: the answer for line idx is the idx-th piece, nothing past the end -- a function of the text and idx only (any access order)
pub open spec fn line_post(sv: &SourceView, idx: int, res: Option<&str>) -> bool {
    (res matches Some(l) ==> idx < sv_lines(sv).len() && l.spec_bytes() == sv_lines(sv)[idx])
    && (res is None ==> idx >= sv_lines(sv).len())
}

/// i0 is the first character boundary at or after code unit `col`, i1 the first one at or after code unit `end` (not before i0)
pub open spec fn slice_bounds(cs: Seq<char>, col: int, end: int, i0: int, i1: int) -> bool {
    0 <= i0 <= i1 <= cs.len()
    && cum16(cs.subrange(0, i0)) >= col && (i0 > 0 ==> cum16(cs.subrange(0, i0 - 1)) < col)
    && cum16(cs.subrange(0, i1)) >= end && (i1 > i0 ==> cum16(cs.subrange(0, i1 - 1)) < end)
}
/// C15, second half: nothing if the line is shorter than `end` code units, else the characters covering code units col..end (a character
/// that straddles the end is included whole)
pub open spec fn slice_post(cs: Seq<char>, col: int, end: int, res: Option<&str>) -> bool {
    (cum16(cs) < end ==> res is None) &&
    (cum16(cs) >= end ==> exists|i0: int, i1: int| #[trigger] slice_bounds(cs, col, end, i0, i1) && (res matches Some(x) && x@ == cs.subrange(i0, i1)))
}
