// C09: prefix stripping as the builder applies it, written from the statement ("the same source name minus a stripped prefix").
/// a prefix as strip_prefixes applies it: with a trailing '/' added unless it has one (so a prefix only matches at a path-component boundary)
pub open spec fn norm_prefix(p: Seq<char>) -> Seq<char> { if p.len() > 0 && p.last() == '/' { p } else { p.push('/') } }
/// the name with the first applicable prefix (in list order, from index k on) cut off, unchanged when none applies
pub open spec fn strip_name(name: Seq<char>, prefixes: Seq<Seq<char>>, k: int) -> Seq<char>
    decreases prefixes.len() - k
{
    if k < 0 || k >= prefixes.len() { name }
    else if seq_starts_with(name, norm_prefix(prefixes[k])) { name.subrange(norm_prefix(prefixes[k]).len() as int, name.len() as int) }
    else { strip_name(name, prefixes, k + 1) }
}
pub open spec fn str_views(v: Seq<String>) -> Seq<Seq<char>> { v.map_values(|s: String| s@) }
pub open spec fn str_slices(v: Seq<&str>) -> Seq<Seq<char>> { v.map_values(|s: &str| s@) }
