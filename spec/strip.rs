// C09: prefix stripping as the builder applies it, written from the statement ("the same source name minus a stripped prefix").
/// a prefix as strip_prefixes applies it: with a trailing '/' added unless it has one (so a prefix only matches at a path-component boundary)
pub open spec fn norm_prefix(p: Seq<char>) -> Seq<char> { if p.len() > 0 && p.last() == '/' { p } else { p.push('/') } }
/// the name with the first applicable prefix (in list order, from index k on) cut off, unchanged when none applies
pub open spec fn strip_name(name: Seq<char>, prefixes: Seq<Seq<char>>, k: int) -> Seq<char>
    decreases prefixes.len() - k
{
    if k < 0 || k >= prefixes.len() { name }
    else if seq_starts_with(name, norm_prefix(prefixes[k])) { name.subrange(norm_prefix(prefixes[k]).len() as int, name.len() as int) }
    else { strip_name(name, prefixes, k + 1) }
}
pub open spec fn str_views(v: Seq<String>) -> Seq<Seq<char>> { v.map_values(|s: String| s@) }
pub open spec fn str_slices(v: Seq<&str>) -> Seq<Seq<char>> { v.map_values(|s: &str| s@) }
/// the prefixes named explicitly among the first k options ("~" asks for the computed common prefix instead)
pub open spec fn explicit_prefixes(ps: Seq<&str>, k: int) -> Seq<Seq<char>>
    decreases k
{
    if k <= 0 { Seq::empty() } else if ps[k - 1]@ == "~"@ { explicit_prefixes(ps, k - 1) } else { explicit_prefixes(ps, k - 1).push(ps[k - 1]@) }
}
pub open spec fn has_tilde(ps: Seq<&str>, k: int) -> bool { exists|j: int| 0 <= j < k && (#[trigger] ps[j])@ == "~"@ }
/// the list strip_prefixes receives: the explicit prefixes in option order, then at most one computed prefix, and that only when "~" was given
pub open spec fn prefix_list_ok(pfx: Seq<Seq<char>>, opts: Seq<&str>) -> bool {
    pfx == explicit_prefixes(opts, opts.len() as int)
    || (has_tilde(opts, opts.len() as int) && pfx.len() > 0 && pfx.drop_last() == explicit_prefixes(opts, opts.len() as int))
}
