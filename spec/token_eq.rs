// Token equality as the code defines it (impl PartialEq for Token): equality of the raw tokens.
// Verus checks the real `eq` body against this model.
impl<'a> PartialEqSpecImpl for Token<'a> {
    open spec fn obeys_eq_spec() -> bool { true }
    open spec fn eq_spec(&self, other: &Token<'a>) -> bool { *self.raw == *other.raw }
}
