// The iteration model of TokenIter (C04 "get_token(i) agrees with the i-th iterated token"):
// what is still to come is exactly get_token(next_idx), get_token(next_idx + 1), ...
// Verus checks the real `next` against vstd's prophetic iterator laws for this model.
pub open spec fn token_at<'a>(sm: &'a SourceMap, k: int) -> Token<'a> {
    Token { raw: &sm.tokens@[k], sm: sm, idx: k as usize, offset: 0 }
}
pub open spec fn tokens_from<'a>(sm: &'a SourceMap, from: int) -> Seq<Token<'a>> {
    if 0 <= from < sm.tokens@.len() { Seq::new((sm.tokens@.len() - from) as nat, |k: int| token_at(sm, from + k)) } else { Seq::empty() }
}
impl<'a> IteratorSpecImpl for TokenIter<'a> {
    open spec fn obeys_prophetic_iter_laws(&self) -> bool { true }
    #[verifier::prophetic]
    open spec fn remaining(&self) -> Seq<Token<'a>> { tokens_from(self.i, self.next_idx as int) }
    #[verifier::prophetic]
    open spec fn will_return_none(&self) -> bool { true }
    open spec fn decrease(&self) -> Option<nat> { Some(tokens_from(self.i, self.next_idx as int).len()) }
    open spec fn peek(&self, k: int) -> Option<Token<'a>> {
        if 0 <= k < tokens_from(self.i, self.next_idx as int).len() { Some(tokens_from(self.i, self.next_idx as int)[k]) } else { None }
    }
}

