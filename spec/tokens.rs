// Token ordering vocabulary (C04): generated position = (dst_line, dst_col), lexicographic.
pub open spec fn tkey(t: RawToken) -> (u32, u32) { (t.dst_line, t.dst_col) }
pub open spec fn sorted_tokens(s: Seq<RawToken>) -> bool {
    forall|i: int, j: int| 0 <= i <= j < s.len() ==> tle(#[trigger] tkey(s[i]), #[trigger] tkey(s[j]))
}
