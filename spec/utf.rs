// UTF-8 offsets and UTF-16 widths of character prefixes (shared by C15 / C17)
/// UTF-16 code units of a run of characters
pub open spec fn cum16(cs: Seq<char>) -> int decreases cs.len() { if cs.len() == 0 { 0 } else { cum16(cs.drop_last()) + u16w(cs.last()) } }
pub proof fn lemma_prefix_step(cs: Seq<char>, k: int)
    requires 0 <= k < cs.len()
    ensures cum16(cs.subrange(0, k + 1)) == cum16(cs.subrange(0, k)) + u16w(cs[k]),
        utf8_len(cs.subrange(0, k + 1)) == utf8_len(cs.subrange(0, k)) + u8w(cs[k]),
        1 <= u16w(cs[k]) <= u8w(cs[k]) <= 4,
{
    let a = cs.subrange(0, k + 1);
    assert(a.drop_last() == cs.subrange(0, k));
    assert(a.last() == cs[k]);
    assert(a == cs.subrange(0, k) + seq![cs[k]]);
    encode_utf8_concat(cs.subrange(0, k), seq![cs[k]]);
    assert(seq![cs[k]].drop_first() == Seq::<char>::empty());
    assert(encode_utf8(seq![cs[k]]) == encode_scalar(cs[k] as u32) + encode_utf8(Seq::<char>::empty()));
    char_is_scalar(cs[k]);
}
pub proof fn lemma_prefix_mono(cs: Seq<char>, i: int, j: int)
    requires 0 <= i <= j <= cs.len()
    ensures cum16(cs.subrange(0, i)) <= cum16(cs.subrange(0, j)), utf8_len(cs.subrange(0, i)) <= utf8_len(cs.subrange(0, j)),
        cum16(cs.subrange(0, j)) <= utf8_len(cs.subrange(0, j)), 0 <= cum16(cs.subrange(0, i))
    decreases j
{
    if j == 0 { assert(cs.subrange(0, 0) == Seq::<char>::empty()); }
    else if i == j { lemma_prefix_mono(cs, 0, j - 1); lemma_prefix_step(cs, j - 1); }
    else { lemma_prefix_mono(cs, i, j - 1); lemma_prefix_step(cs, j - 1); }
}
pub proof fn lemma_prefix_unique(cs: Seq<char>, k: int)
    requires 0 <= k <= cs.len()
    ensures forall|j: int| 0 <= j <= cs.len() && utf8_len(cs.subrange(0, k)) == utf8_len(#[trigger] cs.subrange(0, j)) ==> j == k
{
    assert forall|j: int| 0 <= j <= cs.len() && utf8_len(cs.subrange(0, k)) == utf8_len(#[trigger] cs.subrange(0, j)) implies j == k by {
        if j < k { lemma_prefix_mono(cs, j + 1, k); lemma_prefix_step(cs, j); }
        if k < j { lemma_prefix_mono(cs, k + 1, j); lemma_prefix_step(cs, k); }
    }
}
