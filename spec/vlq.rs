// Specification of base64 VLQ as used by Source Map v3, written from the
// format description (not from the code): alphabet A-Z a-z 0-9 + /, five data
// bits per digit, little-endian, bit 5 = continuation, bit 0 of the assembled
// number = sign.

pub open spec fn b64_index(c: u8) -> int {
    if 65 <= c <= 90 { c - 65 } else if 97 <= c <= 122 { c - 97 + 26 }
    else if 48 <= c <= 57 { c - 48 + 52 } else if c == 43 { 62 } else if c == 47 { 63 } else { -1 }
}

pub open spec fn b64_char(d: int) -> u8 {
    if 0 <= d < 26 { (65 + d) as u8 } else if d < 52 { (97 + d - 26) as u8 } else if d < 62 { (48 + d - 52) as u8 } else if d == 62 { 43u8 } else { 47u8 }
}

//@ lemma_index_char [C11 C01 C03]
pub proof fn lemma_index_char(d: int) requires 0 <= d < 64 ensures b64_index(b64_char(d)) == d {}

//@ lemma_char_index [C11]
pub proof fn lemma_char_index(c: u8) requires b64_index(c) >= 0 ensures b64_char(b64_index(c)) == c, b64_index(c) < 64 {}

pub open spec fn vlq_value(raw: int) -> int { if raw % 2 == 1 { -(raw / 2) } else { raw / 2 } }
pub open spec fn vlq_raw(n: int) -> int { if n < 0 { (-n) * 2 + 1 } else { n * 2 } }

//@ lemma_value_raw [C11 C01 C03]
pub proof fn lemma_value_raw(n: int) ensures vlq_value(vlq_raw(n)) == n {}

/// The reference decoder: left to right, `cur` = bits assembled so far of the
/// current value, `ndig` = digits of the current value seen so far, `acc` =
/// values completed so far.  None = malformed: foreign byte, a 14th digit,
/// input ending inside a value, or no value at all.
pub open spec fn parse_from(s: Seq<u8>, i: int, cur: int, ndig: nat, acc: Seq<int>) -> Option<Seq<int>>
    decreases s.len() - i
{
    if i < 0 { None } else
    if i >= s.len() {
        if ndig != 0 { None } else if acc.len() == 0 { None } else { Some(acc) }
    } else {
        let d = b64_index(s[i]);
        if d < 0 { None }
        else if ndig >= 13 { None }
        else {
            let cur2 = cur + (d % 32) * pow2(5 * ndig);
            if d >= 32 { parse_from(s, i + 1, cur2, ndig + 1, acc) }
            else { parse_from(s, i + 1, 0, 0, acc.push(vlq_value(cur2))) }
        }
    }
}

pub open spec fn vlq_parse(s: Seq<u8>) -> Option<Seq<int>> { parse_from(s, 0, 0, 0, seq![]) }

pub open spec fn ints(v: Seq<i64>) -> Seq<int> { v.map_values(|x: i64| x as int) }

/// the 62-bit domain of the property
pub open spec fn fits(m: int) -> bool { -0x4000_0000_0000_0000 < m < 0x4000_0000_0000_0000 }

/// machine values agree with mathematical values wherever the latter fit
pub open spec fn agree(v: Seq<i64>, m: Seq<int>) -> bool {
    v.len() == m.len() && forall|k: int| 0 <= k < v.len() && fits(#[trigger] m[k]) ==> v[k] == m[k]
}

/// The reference encoder: base-32 little-endian digits of raw, continuation
/// bit (32) on all but the last.
pub open spec fn vlq_raw_enc(raw: int) -> Seq<u8>
    decreases raw
{
    if raw < 32 { seq![b64_char(if raw < 0 { 0 } else { raw })] } else { seq![b64_char(raw % 32 + 32)] + vlq_raw_enc(raw / 32) }
}
pub open spec fn vlq_enc(n: int) -> Seq<u8> { vlq_raw_enc(vlq_raw(n)) }
pub open spec fn chars(b: Seq<u8>) -> Seq<char> { b.map_values(|x: u8| x as char) }

pub open spec fn vlq_enc_list(xs: Seq<int>) -> Seq<u8>
    decreases xs.len()
{
    if xs.len() == 0 { seq![] } else { vlq_enc_list(xs.drop_last()) + vlq_enc(xs.last()) }
}

/// every machine value the decoder stores has magnitude at most 2^62 (so adding a u32 to it cannot overflow an i64)
pub open spec fn small_i64(v: i64) -> bool { -0x4000_0000_0000_0000 <= v <= 0x4000_0000_0000_0000 }

pub open spec fn all_fit(xs: Seq<int>) -> bool { forall|k: int| 0 <= k < xs.len() ==> fits(#[trigger] xs[k]) }

pub open spec fn ndigits(raw: int) -> nat decreases raw { if raw < 32 { 1 } else { 1 + ndigits(raw / 32) } }

// ---------------------------------------------------------------- arithmetic helpers

pub proof fn lemma_pow2_5(n: nat)
    requires n <= 13
    ensures pow2(5 * n) == if n == 0 { 1int } else if n == 1 { 0x20 } else if n == 2 { 0x400 } else if n == 3 { 0x8000 } else if n == 4 { 0x10_0000 }
        else if n == 5 { 0x200_0000 } else if n == 6 { 0x4000_0000 } else if n == 7 { 0x8_0000_0000 } else if n == 8 { 0x100_0000_0000 }
        else if n == 9 { 0x2000_0000_0000 } else if n == 10 { 0x4_0000_0000_0000 } else if n == 11 { 0x80_0000_0000_0000 } else if n == 12 { 0x1000_0000_0000_0000 } else { 0x2_0000_0000_0000_0000 }
{
    lemma2_to64();
    lemma2_to64_rest();
    if n == 13 { lemma_pow2_adds(64, 1); }
}

pub proof fn lemma_acc(mcur: int, n: nat, v: int)
    requires 0 <= mcur < pow2(5 * n), 0 <= v < 32, n <= 12,
    ensures
        0 <= mcur + v * pow2(5 * n) < pow2(5 * (n + 1)),
        pow2(5 * (n + 1)) == 32 * pow2(5 * n),
        0 <= v * pow2(5 * n) < pow2(5 * (n + 1)),
{
    lemma_pow2_adds(5 * n, 5);
    lemma2_to64();
    assert(5 * (n + 1) == 5 * n + 5);
    let p = pow2(5 * n);
    assert(0 <= v * p <= 31 * p) by (nonlinear_arith) requires 0 <= v < 32, p > 0;
}

pub proof fn lemma_shl(v: i64, sh: u32)
    requires 0 <= v < 32, sh <= 55, sh % 5 == 0,
    ensures (v << sh) == v * pow2(sh as nat),
{
    lemma_pow2_5((sh / 5) as nat);
    assert(5 * ((sh / 5) as nat) == sh as nat);
    if sh == 0 { assert((v << 0u32) == v * 0x1) by (bit_vector) requires 0 <= v < 32; }
    if sh == 5 { assert((v << 5u32) == v * 0x20) by (bit_vector) requires 0 <= v < 32; }
    if sh == 10 { assert((v << 10u32) == v * 0x400) by (bit_vector) requires 0 <= v < 32; }
    if sh == 15 { assert((v << 15u32) == v * 0x8000) by (bit_vector) requires 0 <= v < 32; }
    if sh == 20 { assert((v << 20u32) == v * 0x100000) by (bit_vector) requires 0 <= v < 32; }
    if sh == 25 { assert((v << 25u32) == v * 0x2000000) by (bit_vector) requires 0 <= v < 32; }
    if sh == 30 { assert((v << 30u32) == v * 0x40000000) by (bit_vector) requires 0 <= v < 32; }
    if sh == 35 { assert((v << 35u32) == v * 0x800000000) by (bit_vector) requires 0 <= v < 32; }
    if sh == 40 { assert((v << 40u32) == v * 0x10000000000) by (bit_vector) requires 0 <= v < 32; }
    if sh == 45 { assert((v << 45u32) == v * 0x200000000000) by (bit_vector) requires 0 <= v < 32; }
    if sh == 50 { assert((v << 50u32) == v * 0x4000000000000) by (bit_vector) requires 0 <= v < 32; }
    if sh == 55 { assert((v << 55u32) == v * 0x80000000000000) by (bit_vector) requires 0 <= v < 32; }
}

/// machine bit operations used by the decoder, as arithmetic
pub proof fn lemma_bits()
    ensures
        forall|e: i64| 0 <= e < 64 ==> #[trigger] (e & 0b11111) == e % 32,
        forall|e: i64| 0 <= e < 64 ==> #[trigger] (e >> 5) == e / 32,
        forall|v: i64, sh: u32| 0 <= v < 32 && sh <= 55 && sh % 5 == 0 ==> #[trigger] (v << sh) == v * pow2(sh as nat),
        forall|v: i64| 0 <= v < 8 ==> #[trigger] (v << 60u32) == v * 0x1000_0000_0000_0000,
        forall|v: i64| 0 <= v < 32 ==> -0x8000_0000_0000_0000 <= #[trigger] (v << 60u32) <= 0x7000_0000_0000_0000,
        forall|c: i64| 0 <= c ==> #[trigger] (c & 1) == c % 2,
        forall|c: i64| 0 <= c ==> #[trigger] (c >> 1) == c / 2,
        forall|c: i64| -0x4000_0000_0000_0000 <= #[trigger] (c >> 1) < 0x4000_0000_0000_0000,
{
    assert forall|e: i64| 0 <= e < 64 implies #[trigger] (e & 0b11111) == e % 32 by { assert((e & 0b11111) == e % 32) by (bit_vector) requires 0 <= e < 64; }
    assert forall|e: i64| 0 <= e < 64 implies #[trigger] (e >> 5) == e / 32 by { assert((e >> 5) == e / 32) by (bit_vector) requires 0 <= e < 64; }
    assert forall|v: i64, sh: u32| 0 <= v < 32 && sh <= 55 && sh % 5 == 0 implies #[trigger] (v << sh) == v * pow2(sh as nat) by { lemma_shl(v, sh); }
    assert forall|v: i64| 0 <= v < 8 implies #[trigger] (v << 60u32) == v * 0x1000_0000_0000_0000 by { assert((v << 60u32) == v * 0x1000_0000_0000_0000) by (bit_vector) requires 0 <= v < 8; }
    assert forall|v: i64| 0 <= v < 32 implies -0x8000_0000_0000_0000 <= #[trigger] (v << 60u32) <= 0x7000_0000_0000_0000 by { assert(-0x8000_0000_0000_0000 <= (v << 60u32) <= 0x7000_0000_0000_0000) by (bit_vector) requires 0 <= v < 32; }
    assert forall|c: i64| 0 <= c implies #[trigger] (c & 1) == c % 2 by { assert((c & 1) == c % 2) by (bit_vector) requires 0 <= c; }
    assert forall|c: i64| 0 <= c implies #[trigger] (c >> 1) == c / 2 by { assert((c >> 1) == c / 2) by (bit_vector) requires 0 <= c; }
    assert forall|c: i64| -0x4000_0000_0000_0000 <= #[trigger] (c >> 1) < 0x4000_0000_0000_0000 by { assert(-0x4000_0000_0000_0000 <= (c >> 1) < 0x4000_0000_0000_0000) by (bit_vector); }
}

/// machine bit operations used by the encoder, as arithmetic
pub proof fn lemma_enc_bits()
    ensures
        forall|n: i64| 0 <= n ==> #[trigger] (n & 0b11111) == n % 32,
        forall|n: i64| 0 <= n ==> #[trigger] (n >> 5) == n / 32,
        forall|d: i64| 0 <= d < 32 ==> #[trigger] (d | (1i64 << 5)) == d + 32,
        forall|n: i64| 0 <= n < 0x4000_0000_0000_0000 ==> #[trigger] (n << 1) == n * 2,
{
    assert forall|n: i64| 0 <= n implies #[trigger] (n & 0b11111) == n % 32 by { assert((n & 0b11111) == n % 32) by (bit_vector) requires 0 <= n; }
    assert forall|n: i64| 0 <= n implies #[trigger] (n >> 5) == n / 32 by { assert((n >> 5) == n / 32) by (bit_vector) requires 0 <= n; }
    assert forall|d: i64| 0 <= d < 32 implies #[trigger] (d | (1i64 << 5)) == d + 32 by { assert((d | (1i64 << 5)) == d + 32) by (bit_vector) requires 0 <= d < 32; }
    assert forall|n: i64| 0 <= n < 0x4000_0000_0000_0000 implies #[trigger] (n << 1) == n * 2 by { assert((n << 1) == n * 2) by (bit_vector) requires 0 <= n < 0x4000_0000_0000_0000; }
}

// ---------------------------------------------------------------- inverse lemmas (spec level)

pub proof fn lemma_enc_len(raw: int)
    ensures vlq_raw_enc(raw).len() == ndigits(raw)
    decreases raw
{
    if raw >= 32 { lemma_enc_len(raw / 32); }
}

pub proof fn lemma_ndigits_bound(raw: int, k: nat)
    requires 0 <= raw < pow2(5 * k), k >= 1,
    ensures ndigits(raw) <= k
    decreases k
{
    lemma2_to64();
    if raw >= 32 {
        assert(k >= 2) by { if k == 1 { assert(pow2(5) == 32); } }
        lemma_pow2_adds(5 * (k - 1) as nat, 5);
        assert(5 * (k - 1) + 5 == 5 * k);
        assert(raw / 32 < pow2(5 * (k - 1) as nat)) by (nonlinear_arith) requires raw < pow2(5 * (k - 1) as nat) * 32, pow2(5) == 32;
        lemma_ndigits_bound(raw / 32, (k - 1) as nat);
    }
}

/// decoding a string that continues with the encoding of `raw` consumes exactly that encoding
//@ lemma_parse_enc [C11 C01 C03]
pub proof fn lemma_parse_enc(s: Seq<u8>, i: int, cur: int, ndig: nat, acc: Seq<int>, raw: int)
    requires
        0 <= raw, 0 <= i,
        ndig + ndigits(raw) <= 13,
        i + ndigits(raw) <= s.len(),
        s.subrange(i, i + ndigits(raw)) == vlq_raw_enc(raw),
    ensures
        parse_from(s, i, cur, ndig, acc) == parse_from(s, i + ndigits(raw), 0, 0, acc.push(vlq_value(cur + raw * pow2(5 * ndig)))),
    decreases raw
{
    lemma_enc_len(raw);
    let e = vlq_raw_enc(raw);
    assert(s[i] == s.subrange(i, i + ndigits(raw))[0]);
    if raw < 32 {
        lemma_index_char(raw);
        assert(s[i] == b64_char(raw));
        assert(raw % 32 == raw);
    } else {
        let d = raw % 32 + 32;
        lemma_index_char(d);
        assert(e[0] == b64_char(d));
        assert(s[i] == b64_char(d));
        assert(d % 32 == raw % 32);
        let cur2 = cur + (raw % 32) * pow2(5 * ndig);
        assert(s.subrange(i + 1, i + 1 + ndigits(raw / 32)) =~= e.subrange(1, e.len() as int));
        assert(e.subrange(1, e.len() as int) =~= vlq_raw_enc(raw / 32));
        lemma_parse_enc(s, i + 1, cur2, ndig + 1, acc, raw / 32);
        lemma_pow2_adds(5 * ndig, 5);
        lemma2_to64();
        assert(5 * (ndig + 1) == 5 * ndig + 5);
        let p = pow2(5 * ndig);
        assert(cur2 + (raw / 32) * (p * 32) == cur + raw * p) by (nonlinear_arith)
            requires cur2 == cur + (raw % 32) * p, raw == 32 * (raw / 32) + raw % 32;
    }
}

/// every value of the 62-bit domain encodes to at most 13 digits
//@ lemma_fits_13_digits [C11]
pub proof fn lemma_fits_13_digits(n: int)
    requires fits(n)
    ensures ndigits(vlq_raw(n)) <= 13, vlq_enc(n).len() == ndigits(vlq_raw(n)), vlq_enc(n).len() >= 1
{
    let raw = vlq_raw(n);
    lemma2_to64(); lemma2_to64_rest();
    lemma_pow2_adds(64, 1);
    assert(pow2(65) == 0x2_0000_0000_0000_0000);
    assert(5 * 13 == 65);
    lemma_ndigits_bound(raw, 13);
    lemma_enc_len(raw);
}

/// C11 first sentence, one value in the middle of a string:
/// a decoder positioned at the start of enc(n) consumes it and appends n.
//@ lemma_parse_one [C11 C01 C03]
pub proof fn lemma_parse_one(s: Seq<u8>, i: int, acc: Seq<int>, n: int)
    requires
        fits(n), 0 <= i,
        i + vlq_enc(n).len() <= s.len(),
        s.subrange(i, i + vlq_enc(n).len()) == vlq_enc(n),
    ensures
        parse_from(s, i, 0, 0, acc) == parse_from(s, i + vlq_enc(n).len(), 0, 0, acc.push(n)),
{
    lemma_fits_13_digits(n);
    let raw = vlq_raw(n);
    assert(raw >= 0);
    lemma_parse_enc(s, i, 0, 0, acc, raw);
    assert(pow2(0) == 1) by { lemma2_to64(); }
    assert(5 * 0 == 0);
    assert(0 + raw * pow2(5 * 0) == raw) by (nonlinear_arith) requires pow2(5 * 0) == 1;
    lemma_value_raw(n);
}

pub proof fn lemma_enc_list_push(xs: Seq<int>, x: int)
    ensures vlq_enc_list(xs.push(x)) == vlq_enc_list(xs) + vlq_enc(x)
{
    assert(xs.push(x).drop_last() =~= xs);
}

/// decoding enc(pre) ++ enc(xs) from the boundary, for any prefix string p
pub proof fn lemma_parse_list_from(p: Seq<u8>, xs: Seq<int>, acc: Seq<int>, k: int)
    requires
        all_fit(xs), 0 <= k <= xs.len(),
    ensures
        parse_from(p + vlq_enc_list(xs), (p.len() + vlq_enc_list(xs.subrange(0, k)).len()) as int, 0, 0, acc + xs.subrange(0, k))
            == parse_from(p + vlq_enc_list(xs), (p + vlq_enc_list(xs)).len() as int, 0, 0, acc + xs),
    decreases xs.len() - k
{
    let s = p + vlq_enc_list(xs);
    if k == xs.len() {
        assert(xs.subrange(0, k) =~= xs);
    } else {
        let pre = xs.subrange(0, k);
        let pre1 = xs.subrange(0, k + 1);
        assert(pre1 =~= pre.push(xs[k]));
        lemma_enc_list_push(pre, xs[k]);
        lemma_enc_list_prefix(xs, k + 1);
        let i = (p.len() + vlq_enc_list(pre).len()) as int;
        let e = vlq_enc(xs[k]);
        let a = vlq_enc_list(pre);
        let b = vlq_enc_list(pre1);
        let f = vlq_enc_list(xs);
        assert(b == a + e);
        assert(f.subrange(0, b.len() as int) == b);
        assert(b.len() <= f.len());
        assert forall|j: int| 0 <= j < e.len() implies s[i + j] == e[j] by {
            assert(s[i + j] == f[a.len() + j]);
            assert(f[a.len() + j] == f.subrange(0, b.len() as int)[a.len() + j]);
            assert(b[a.len() + j] == e[j]);
        }
        assert(s.subrange(i, i + e.len()) =~= e);
        lemma_parse_one(s, i, acc + pre, xs[k]);
        assert((acc + pre).push(xs[k]) =~= acc + pre1);
        lemma_parse_list_from(p, xs, acc, k + 1);
    }
}

/// enc_list(xs[..k]) is a prefix of enc_list(xs)
pub proof fn lemma_enc_list_prefix(xs: Seq<int>, k: int)
    requires 0 <= k <= xs.len()
    ensures
        vlq_enc_list(xs.subrange(0, k)).len() <= vlq_enc_list(xs).len(),
        vlq_enc_list(xs).subrange(0, vlq_enc_list(xs.subrange(0, k)).len() as int) == vlq_enc_list(xs.subrange(0, k)),
    decreases xs.len() - k
{
    if k == xs.len() {
        assert(xs.subrange(0, k) =~= xs);
        assert(vlq_enc_list(xs).subrange(0, vlq_enc_list(xs).len() as int) =~= vlq_enc_list(xs));
    } else {
        lemma_enc_list_prefix(xs, k + 1);
        let pre = xs.subrange(0, k);
        let pre1 = xs.subrange(0, k + 1);
        assert(pre1 =~= pre.push(xs[k]));
        lemma_enc_list_push(pre, xs[k]);
        let a = vlq_enc_list(pre);
        let b = vlq_enc_list(pre1);
        let f = vlq_enc_list(xs);
        assert(b == a + vlq_enc(xs[k]));
        assert(f.subrange(0, a.len() as int) =~= b.subrange(0, a.len() as int));
        assert(b.subrange(0, a.len() as int) =~= a);
    }
}

/// C11, first sentence: for every non-empty list of 62-bit integers, decoding
/// the concatenated encodings returns the list.
//@ lemma_roundtrip_list [C11 C01 C03]
pub proof fn lemma_roundtrip_list(xs: Seq<int>)
    requires all_fit(xs), xs.len() > 0
    ensures vlq_parse(vlq_enc_list(xs)) == Some(xs)
{
    let e: Seq<u8> = seq![];
    lemma_parse_list_from(e, xs, seq![], 0);
    assert(xs.subrange(0, 0) =~= seq![]);
    assert(e + vlq_enc_list(xs) =~= vlq_enc_list(xs));
    assert(seq![] + xs =~= xs);
    let empty_i: Seq<int> = seq![];
    assert(empty_i + xs.subrange(0, 0) =~= empty_i);
    assert(vlq_enc_list(xs.subrange(0, 0)).len() == 0);
}

/// "every difference of two 32-bit unsigned numbers" lies in the domain
//@ lemma_diff_in_domain [C11 C03 C01]
pub proof fn lemma_diff_in_domain(a: u32, b: u32)
    ensures fits(a as int - b as int), ndigits(vlq_raw(a as int - b as int)) <= 7
{
    let raw = vlq_raw(a as int - b as int);
    lemma_pow2_5(7);
    assert(raw < 0x2_0000_0000);
    lemma_ndigits_bound(raw, 7);
}

/// the encoder only emits alphabet bytes, hence never ',' or ';'
//@ lemma_enc_alphabet [C03 C01 C11]
pub proof fn lemma_enc_alphabet(raw: int)
    ensures forall|k: int| 0 <= k < vlq_raw_enc(raw).len() ==> b64_index(#[trigger] vlq_raw_enc(raw)[k]) >= 0
        && vlq_raw_enc(raw)[k] != 44 && vlq_raw_enc(raw)[k] != 59
    decreases raw
{
    if raw < 32 {
        lemma_index_char(if raw < 0 { 0 } else { raw });
    } else {
        lemma_index_char(raw % 32 + 32);
        lemma_enc_alphabet(raw / 32);
        let e = vlq_raw_enc(raw);
        assert forall|k: int| 0 <= k < e.len() implies b64_index(#[trigger] e[k]) >= 0 && e[k] != 44 && e[k] != 59 by {
            if k > 0 { assert(e[k] == vlq_raw_enc(raw / 32)[k - 1]); }
        }
    }
}

/// C11, second sentence.  A VLQ text is canonical when it is the reference encoding of some non-empty
/// list of 62-bit integers (minimal number of digits per value, no negative zero); for every such
/// text, encoding the decoded values returns the text.
pub open spec fn canonical(s: Seq<u8>) -> bool { exists|xs: Seq<int>| #[trigger] vlq_enc_list(xs) == s && all_fit(xs) && xs.len() > 0 }
//@ lemma_canonical_text_roundtrip [C11]
pub proof fn lemma_canonical_text_roundtrip(s: Seq<u8>)
    requires canonical(s)
    ensures vlq_parse(s) matches Some(vs) && vlq_enc_list(vs) == s
{
    let xs = choose|xs: Seq<int>| #[trigger] vlq_enc_list(xs) == s && all_fit(xs) && xs.len() > 0;
    lemma_roundtrip_list(xs);
}
