// C11, second sentence, made independent of the encoder: canonical VLQ texts described on the digits alone, and the proof that this
// description coincides with "is the reference encoding of a non-empty list of 62-bit values".
// ---------------------------------------------------------------- canonical texts, syntactically
/// A canonical VLQ text, described on the digits alone: a non-empty sequence of groups; a group is up to 12 digits with the continuation
/// bit followed by one digit without it; the last digit of a multi-digit group is not 0 (no padding), a single-digit group is not 1
/// (that would be "-0"), and a 13-digit group ends in a digit below 8 (the value fits 62 bits + sign).
pub open spec fn syn_ok(s: Seq<u8>, i: int, glen: nat) -> bool
    decreases s.len() - i
{
    if i < 0 { false } else if i >= s.len() { glen == 0 } else {
        let d = b64_index(s[i]);
        d >= 0 && glen < 13 && (
            if d >= 32 { syn_ok(s, i + 1, glen + 1) }
            else { (glen == 0 || d != 0) && !(glen == 0 && d == 1) && (glen == 12 ==> d < 8) && syn_ok(s, i + 1, 0) })
    }
}
pub open spec fn syn_canonical(s: Seq<u8>) -> bool { s.len() > 0 && syn_ok(s, 0, 0) }

/// the k digits from position i as a base-32 number, least significant first
pub open spec fn group_raw(s: Seq<u8>, i: int, k: nat) -> int
    decreases k
{
    if k == 0 { 0 } else { b64_index(s[i]) % 32 + 32 * group_raw(s, i + 1, (k - 1) as nat) }
}
/// s[i..i+k] is one group: k-1 digits with the continuation bit, then one without
pub open spec fn is_group(s: Seq<u8>, i: int, k: nat) -> bool {
    k >= 1 && 0 <= i && i + k <= s.len()
    && (forall|j: int| i <= j < i + k - 1 ==> 32 <= b64_index(#[trigger] s[j]) < 64)
    && 0 <= b64_index(s[i + k - 1]) < 32
}
//@ lemma_group_enc [C11]
pub proof fn lemma_group_enc(s: Seq<u8>, i: int, k: nat)
    requires is_group(s, i, k), k == 1 || b64_index(s[i + k - 1]) != 0,
    ensures
        vlq_raw_enc(group_raw(s, i, k)) == s.subrange(i, i + k),
        0 <= group_raw(s, i, k) < pow2(5 * k),
        b64_index(s[i + k - 1]) != 0 ==> group_raw(s, i, k) >= 1,
        k > 1 ==> group_raw(s, i, k) >= 32,
        ndigits(group_raw(s, i, k)) == k,
    decreases k
{
    lemma2_to64();
    reveal_with_fuel(group_raw, 2);
    if k == 1 {
        let d = b64_index(s[i]);
        assert(group_raw(s, i, 1) == d % 32 + 32 * group_raw(s, i + 1, 0));
        assert(group_raw(s, i, 1) == d);
        lemma_char_index(s[i]);
        assert(vlq_raw_enc(d) =~= s.subrange(i, i + 1));
        assert(pow2(5) == 32);
    } else {
        let k1 = (k - 1) as nat;
        assert(is_group(s, i + 1, k1));
        lemma_group_enc(s, i + 1, k1);
        let r1 = group_raw(s, i + 1, k1);
        let d0 = b64_index(s[i]);
        let raw = group_raw(s, i, k);
        assert(raw == d0 % 32 + 32 * r1);
        assert(r1 >= 1);
        assert(raw >= 32);
        assert(raw % 32 == d0 % 32 && raw / 32 == r1);
        lemma_char_index(s[i]);
        assert(d0 % 32 + 32 == d0);
        assert(vlq_raw_enc(raw) == seq![b64_char(raw % 32 + 32)] + vlq_raw_enc(raw / 32));
        assert(vlq_raw_enc(raw) =~= s.subrange(i, i + k));
        lemma_pow2_adds(5 * k1, 5);
        assert(5 * k1 + 5 == 5 * k);
        assert(raw < pow2(5 * k)) by (nonlinear_arith) requires raw == d0 % 32 + 32 * r1, 0 <= d0 % 32 < 32, 0 <= r1 < pow2(5 * k1), pow2(5 * k) == pow2(5 * k1) * 32, pow2(5) == 32;
    }
}


pub open spec fn group_canonical(s: Seq<u8>, i: int, k: nat) -> bool {
    is_group(s, i, k) && k <= 13 && (k == 1 || b64_index(s[i + k - 1]) != 0) && !(k == 1 && b64_index(s[i + k - 1]) == 1) && (k == 13 ==> b64_index(s[i + k - 1]) < 8)
}
//@ lemma_syn_group [C11]
/// a canonical text continues, at a group boundary, with one canonical group and then a canonical rest
pub proof fn lemma_syn_group(s: Seq<u8>, i: int, j: nat) -> (k: nat)
    requires 0 <= i, i + j < s.len(), syn_ok(s, i + j, j), forall|m: int| i <= m < i + j ==> 32 <= b64_index(#[trigger] s[m]) < 64,
    ensures k > j, group_canonical(s, i, k), syn_ok(s, i + k, 0),
    decreases s.len() - (i + j)
{
    let d = b64_index(s[i + j]);
    lemma_char_index(s[i + j]);
    if d >= 32 {
        assert(syn_ok(s, i + j + 1, j + 1));
        if i + j + 1 >= s.len() { assert(false); }
        lemma_syn_group(s, i, j + 1)
    } else {
        j + 1
    }
}
//@ lemma_group_value [C11]
/// the value a canonical group denotes is in the 62-bit domain and re-encodes to the group
pub proof fn lemma_group_value(s: Seq<u8>, i: int, k: nat)
    requires group_canonical(s, i, k)
    ensures fits(vlq_value(group_raw(s, i, k))), vlq_enc(vlq_value(group_raw(s, i, k))) == s.subrange(i, i + k),
{
    lemma_group_enc(s, i, k);
    let raw = group_raw(s, i, k);
    lemma2_to64(); lemma2_to64_rest();
    lemma_pow2_5(k);
    // raw != 1 (no negative zero): a single digit 1 is excluded, a longer group is >= 32
    assert(raw != 1);
    // raw < 2^63
    if k == 13 {
        reveal_with_fuel(group_raw, 1);
        lemma_group_top(s, i, k);
    }
    assert(raw < 0x8000_0000_0000_0000);
    assert(vlq_raw(vlq_value(raw)) == raw);
}
//@ lemma_group_top [C11]
/// a 13-digit group whose last digit is below 8 stays below 2^63
pub proof fn lemma_group_top(s: Seq<u8>, i: int, k: nat)
    requires is_group(s, i, k), k == 13, b64_index(s[i + k - 1]) < 8
    ensures group_raw(s, i, k) < 0x8000_0000_0000_0000
{
    lemma_group_split(s, i, 12);
    lemma_pow2_5(12);
}
//@ lemma_group_split [C11]
/// the first k digits of a longer run, and the rest shifted
pub proof fn lemma_group_split(s: Seq<u8>, i: int, k: nat)
    requires 0 <= i, i + k + 1 <= s.len(), forall|j: int| i <= j < i + k + 1 ==> 0 <= b64_index(#[trigger] s[j]) < 64,
    ensures group_raw(s, i, k + 1) == group_raw(s, i, k) + pow2(5 * k) * (b64_index(s[i + k]) % 32), 0 <= group_raw(s, i, k) < pow2(5 * k),
    decreases k
{
    lemma2_to64();
    reveal_with_fuel(group_raw, 2);
    if k == 0 {
        assert(group_raw(s, i, 1) == b64_index(s[i]) % 32 + 32 * group_raw(s, i + 1, 0));
    } else {
        lemma_group_split(s, i + 1, (k - 1) as nat);
        lemma_pow2_adds(5 * (k - 1) as nat, 5);
        assert(5 * (k - 1) + 5 == 5 * k);
        let a = group_raw(s, i + 1, (k - 1) as nat);
        let t = b64_index(s[i + k]) % 32;
        let p = pow2(5 * (k - 1) as nat);
        assert(group_raw(s, i, k + 1) == b64_index(s[i]) % 32 + 32 * group_raw(s, i + 1, k));
        assert(group_raw(s, i + 1, k) == a + p * t);
        assert(group_raw(s, i, k) == b64_index(s[i]) % 32 + 32 * a);
        assert(32 * (a + p * t) == 32 * a + (p * 32) * t) by (nonlinear_arith);
        assert(b64_index(s[i]) % 32 + 32 * a < p * 32) by (nonlinear_arith) requires 0 <= b64_index(s[i]) % 32 < 32, 0 <= a < p;
    }
}


//@ lemma_syn_parse [C11]
pub proof fn lemma_syn_parse(s: Seq<u8>, i: int, acc: Seq<int>)
    requires 0 <= i <= s.len(), syn_ok(s, i, 0), all_fit(acc), vlq_enc_list(acc) == s.subrange(0, i), acc.len() > 0 || i < s.len(),
    ensures parse_from(s, i, 0, 0, acc) matches Some(vs) && all_fit(vs) && vs.len() > 0 && vlq_enc_list(vs) == s,
    decreases s.len() - i
{
    if i >= s.len() {
        assert(s.subrange(0, i) == s);
    } else {
        let k = lemma_syn_group(s, i, 0);
        lemma_group_value(s, i, k);
        let n = vlq_value(group_raw(s, i, k));
        assert(vlq_enc(n).len() == k);
        lemma_parse_one(s, i, acc, n);
        let acc2 = acc.push(n);
        lemma_enc_list_push(acc, n);
        assert(vlq_enc_list(acc2) =~= s.subrange(0, i + k));
        assert forall|m: int| 0 <= m < acc2.len() implies fits(#[trigger] acc2[m]) by { if m < acc.len() { assert(acc2[m] == acc[m]); } }
        lemma_syn_parse(s, i + k, acc2);
    }
}
//@ lemma_syn_canonical_roundtrip [C11]
/// C11, second sentence, with canonical defined on the digits: decoding a canonical text and encoding the values returns the text
pub proof fn lemma_syn_canonical_roundtrip(s: Seq<u8>)
    requires syn_canonical(s)
    ensures vlq_parse(s) matches Some(vs) && all_fit(vs) && vlq_enc_list(vs) == s, canonical(s),
{
    assert(s.subrange(0, 0) =~= Seq::<u8>::empty());
    assert(vlq_enc_list(Seq::<int>::empty()) =~= Seq::<u8>::empty());
    lemma_syn_parse(s, 0, Seq::<int>::empty());
}


// ---- the converse: every text the reference encoder writes for values of the domain is canonical on the digits
//@ lemma_enc_is_group [C11]
pub proof fn lemma_enc_is_group(raw: int)
    requires 0 <= raw
    ensures ({ let e = vlq_raw_enc(raw); let k = ndigits(raw);
        e.len() == k && is_group(e, 0, k) && (raw >= 1 ==> b64_index(e[k - 1]) != 0) && (raw < 32 ==> b64_index(e[0]) == raw) && group_raw(e, 0, k) == raw })
    decreases raw
{
    let e = vlq_raw_enc(raw); let k = ndigits(raw);
    reveal_with_fuel(group_raw, 2);
    if raw < 32 {
        lemma_index_char(raw);
        assert(e =~= seq![b64_char(raw)]);
        assert(group_raw(e, 0, 1) == b64_index(e[0]) % 32 + 32 * group_raw(e, 1, 0));
    } else {
        let t = vlq_raw_enc(raw / 32);
        lemma_enc_is_group(raw / 32);
        lemma_index_char(raw % 32 + 32);
        assert(e == seq![b64_char(raw % 32 + 32)] + t);
        let k1 = ndigits(raw / 32);
        assert(e.len() == k1 + 1);
        assert forall|j: int| 0 <= j < k - 1 implies 32 <= b64_index(#[trigger] e[j]) < 64 by { if j > 0 { assert(e[j] == t[j - 1]); } }
        assert(e[k - 1] == t[k1 - 1]);
        assert(e.subrange(1, 1 + k1 as int) =~= t.subrange(0, k1 as int));
        lemma_group_shift(e, t, 1, k1);
        assert(group_raw(e, 0, k) == b64_index(e[0]) % 32 + 32 * group_raw(e, 1, k1));
    }
}
//@ lemma_group_shift [C11]
/// group_raw only looks at the digits it spans
pub proof fn lemma_group_shift(a: Seq<u8>, b: Seq<u8>, off: int, k: nat)
    requires 0 <= off, off + k <= a.len(), k <= b.len(), a.subrange(off, off + k) == b.subrange(0, k as int)
    ensures group_raw(a, off, k) == group_raw(b, 0, k)
{
    lemma_group_shift2(a, b, off, 0, k);
}
//@ lemma_group_shift2 [C11]
pub proof fn lemma_group_shift2(a: Seq<u8>, b: Seq<u8>, ia: int, ib: int, k: nat)
    requires 0 <= ia, 0 <= ib, ia + k <= a.len(), ib + k <= b.len(), a.subrange(ia, ia + k) == b.subrange(ib, ib + k)
    ensures group_raw(a, ia, k) == group_raw(b, ib, k)
    decreases k
{
    reveal_with_fuel(group_raw, 2);
    if k > 0 {
        let sa = a.subrange(ia, ia + k); let sb = b.subrange(ib, ib + k);
        assert(a[ia] == sa[0] && b[ib] == sb[0]);
        assert(a.subrange(ia + 1, ia + k) =~= sa.subrange(1, k as int));
        assert(b.subrange(ib + 1, ib + k) =~= sb.subrange(1, k as int));
        lemma_group_shift2(a, b, ia + 1, ib + 1, (k - 1) as nat);
    }
}


//@ lemma_enc_group_canonical [C11]
pub proof fn lemma_enc_group_canonical(n: int)
    requires fits(n)
    ensures group_canonical(vlq_enc(n), 0, vlq_enc(n).len())
{
    let raw = vlq_raw(n);
    let e = vlq_enc(n);
    lemma_fits_13_digits(n);
    lemma_enc_is_group(raw);
    let k = ndigits(raw);
    lemma2_to64(); lemma2_to64_rest();
    if k == 13 {
        lemma_group_split(e, 0, 12);
        lemma_pow2_5(12);
        let last = b64_index(e[12]);
        assert(raw == group_raw(e, 0, 12) + 0x1000_0000_0000_0000 * (last % 32));
        assert(raw < 0x8000_0000_0000_0000);
        assert(last % 32 < 8) by (nonlinear_arith) requires raw == group_raw(e, 0, 12) + 0x1000_0000_0000_0000 * (last % 32), group_raw(e, 0, 12) >= 0, raw < 0x8000_0000_0000_0000, last % 32 >= 0;
    }
}
//@ lemma_group_syn [C11]
pub proof fn lemma_group_syn(t: Seq<u8>, p: int, k: nat, j: nat)
    requires group_canonical(t, p, k), j < k, syn_ok(t, p + k, 0)
    ensures syn_ok(t, p + j, j)
    decreases k - j
{
    if j + 1 < k { lemma_group_syn(t, p, k, j + 1); }
}
//@ lemma_syn_append [C11]
pub proof fn lemma_syn_append(a: Seq<u8>, g: Seq<u8>, i: int, j: nat)
    requires 0 <= i <= a.len(), syn_ok(a, i, j), group_canonical(g, 0, g.len())
    ensures syn_ok(a + g, i, j)
    decreases a.len() - i
{
    let t = a + g;
    if i == a.len() {
        let k = g.len();
        assert forall|m: int| a.len() <= m < a.len() + k - 1 implies 32 <= b64_index(#[trigger] t[m]) < 64 by { assert(t[m] == g[m - a.len()]); }
        assert(t[a.len() + k - 1] == g[k - 1]);
        assert(group_canonical(t, a.len() as int, k));
        assert(syn_ok(t, a.len() as int + k as int, 0));
        lemma_group_syn(t, a.len() as int, k, 0);
    } else {
        assert(t[i] == a[i]);
        let d = b64_index(a[i]);
        if d >= 32 { lemma_syn_append(a, g, i + 1, j + 1); } else { lemma_syn_append(a, g, i + 1, 0); }
    }
}
//@ lemma_enc_list_syn [C11]
/// every text the reference encoder writes for a non-empty list of 62-bit values is canonical on the digits
pub proof fn lemma_enc_list_syn(xs: Seq<int>)
    requires all_fit(xs)
    ensures syn_ok(vlq_enc_list(xs), 0, 0), xs.len() > 0 ==> vlq_enc_list(xs).len() > 0
    decreases xs.len()
{
    if xs.len() > 0 {
        let pre = xs.drop_last();
        assert forall|m: int| 0 <= m < pre.len() implies fits(#[trigger] pre[m]) by { assert(pre[m] == xs[m]); }
        lemma_enc_list_syn(pre);
        lemma_enc_group_canonical(xs.last());
        lemma_syn_append(vlq_enc_list(pre), vlq_enc(xs.last()), 0, 0);
        lemma_fits_13_digits(xs.last());
    }
}
//@ lemma_canonical_iff_syn [C11]
/// the two descriptions of "canonical" coincide
pub proof fn lemma_canonical_iff_syn(s: Seq<u8>)
    ensures canonical(s) <==> syn_canonical(s)
{
    if canonical(s) {
        let xs = choose|xs: Seq<int>| #[trigger] vlq_enc_list(xs) == s && all_fit(xs) && xs.len() > 0;
        lemma_enc_list_syn(xs);
    }
    if syn_canonical(s) { lemma_syn_canonical_roundtrip(s); }
}
//@ lemma_syn_witnesses [C11]
/// witnesses: "A" (0), "C" (1), "D" (-1), "gB" (16), a 13-digit value are canonical; "B" (-0), "gA" (padded 0), "g" (cut off) are not
pub proof fn lemma_syn_witnesses()
    ensures syn_canonical(seq![65u8]), syn_canonical(seq![67u8]), syn_canonical(seq![68u8]), syn_canonical(seq![103u8, 66u8]),
        !syn_canonical(seq![66u8]), !syn_canonical(seq![103u8, 65u8]), !syn_canonical(seq![103u8]), !syn_canonical(Seq::<u8>::empty()),
{
    reveal_with_fuel(syn_ok, 4);
}

