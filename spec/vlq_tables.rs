// ---------------------------------------------------------------- the real tables against the alphabet

//@ lemma_table [C11 C06]
proof fn lemma_table()
    ensures forall|c: u8| #![auto] (b64_index(c) >= 0 ==> B64@[c as int] == b64_index(c)) && (b64_index(c) < 0 ==> B64@[c as int] < 0)
{
}

//@ lemma_chars [C11 C03 C01]
proof fn lemma_chars() ensures forall|d: int| 0 <= d < 64 ==> #[trigger] B64_CHARS@[d] == b64_char(d) {}

