"""Per-property claim texts for MANIFEST.json."""
HOOK_COMMITS = []
KANI_PROPS = []
NOTES = ('Exit status of every check: 0 = all obligations of the property discharged (KNOWN-FINDING lines may be printed), '
         '1 = VIOLATION line, 2 = undecided (lost anchor, Verus front-end error, resource limit, unstable verdict) -- never an alarm. '
         'Properties under not_applicable marked "under construction" are being built; see DESIGN.md.')

_TB = ('Trusted: Verus + Z3; the extraction/rewrite rules of DESIGN.md 3.2 (applications counted in evidence); the assumed contracts of the '
       'shims in prelude/ (std / dependency APIs), listed per run in evidence.trusted_base; rustc compiling the extracted text as it does in the crate. ')

CLAIMS = {
    'C11': dict(
        text='Unbounded proof: the real text of encode_vlq / generate_vlq_segment / parse_vlq_segment_into / parse_vlq_segment is verified against an '
             'independently written reference encoder and decoder (spec/vlq.rs); the inverse statements are spec-level lemmas over those contracts '
             '(decode(encode(xs)) == xs for every non-empty list of 62-bit integers, every u32 difference lies in the domain); both 256/64-entry tables '
             'are proved equal to the alphabet.',
        note=_TB + 'str::bytes and i64::checked_shl are assumed by contract. Values with magnitude >= 2^62 (13-digit overflows) are only proved panic-free. '
             'The canonical-text half (encode(decode(s)) == s) is proved at the spec level for canonical strings; see evidence.not_covered if absent.',
        design_ref='DESIGN.md 5 C11'),
    'C06': dict(
        text='Unbounded proof of the error-iff-malformed postcondition of the real VLQ decoder (foreign byte, cut-off value, 14th digit, empty input) '
             'and of the mapping loop of decode_regular against a reference mappings decoder that computes indices in mathematical integers.',
        note=_TB + 'serde_json handing the strings to decode_regular is assumed.',
        design_ref='DESIGN.md 5 C06'),
}

NOT_APPLICABLE = {p: 'under construction in this session (contract-based check being built; see DESIGN.md decision table)' for p in
                  ['C01', 'C02', 'C03', 'C04', 'C05', 'C07', 'C08', 'C09', 'C10', 'C12', 'C13', 'C14', 'C15', 'C17', 'C18', 'C19', 'C20']}
NOT_APPLICABLE['C16'] = ('concurrency (interleavings of threads sharing a SourceView over std Mutex / atomics): Kani has no thread support and Verus needs '
                         'its own permission-typed primitives, so no contract within reach of the installed verifiers expresses or decides it')
