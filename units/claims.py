"""Per-property claim texts for MANIFEST.json."""
HOOK_COMMITS = []
KANI_PROPS = []
BOUNDED_PROPS = ['C05', 'C01', 'C02', 'C03', 'C04', 'C06', 'C07', 'C08', 'C09', 'C10', 'C12', 'C13', 'C14', 'C15', 'C17', 'C18', 'C19', 'C20']
NOTES = ('Exit status of every check: 0 = all obligations of the property discharged (KNOWN-FINDING lines may be printed), '
         '1 = VIOLATION line, 2 = undecided (lost anchor, Verus front-end error, resource limit, unstable verdict) -- never an alarm. '
         'Claims marked PARTIAL list what is outside the contracts under evidence.coverage.not_covered; checks whose category is "other" are bounded stand-ins only (no discharged obligation). See DESIGN.md.')

_TB = ('Trusted: Verus + Z3; the extraction/rewrite rules of DESIGN.md 3.2 (applications counted in evidence); the assumed contracts of the '
       'shims in prelude/ (std / dependency APIs), listed per run in evidence.trusted_base; rustc compiling the extracted text as it does in the crate. ')

CLAIMS = {
    'C11': dict(
        text='Unbounded proof: the real text of encode_vlq / generate_vlq_segment / parse_vlq_segment_into / parse_vlq_segment is verified against an '
             'independently written reference encoder and decoder (spec/vlq.rs); the inverse statements are spec-level lemmas over those contracts '
             '(decode(encode(xs)) == xs for every non-empty list of 62-bit integers, every u32 difference lies in the domain); both 256/64-entry tables '
             'are proved equal to the alphabet.',
        note=_TB + 'str::bytes and i64::checked_shl are assumed by contract. Values with magnitude >= 2^62 (13-digit overflows) are only proved panic-free. '
             'The canonical-text half (encode(decode(s)) == s) is proved for texts that are canonical ON THE DIGITS (spec/vlq_canonical.rs: groups of at most 13 digits, continuation bit on all but the last digit of a group, '
             'no zero most-significant digit in a multi-digit group, no lone "B" = -0, 13th digit below 8), and that description is proved equivalent to "is the reference encoding of a non-empty list of 62-bit values" (lemma_canonical_iff_syn).',
        design_ref='DESIGN.md 5 C11'),
    'C06': dict(
        text='Unbounded proof of the error-iff-malformed postcondition of the real VLQ decoder (foreign byte, cut-off value, 14th digit, empty input) '
             'and of the mapping loop of decode_regular against a reference mappings decoder that computes indices in mathematical integers; decode_regular as a whole (u10) fails exactly when that '
             'reader refuses the document\'s own mappings / rangeMappings over the document\'s own sources / names (absent keys = empty arrays); on the way out the error is kept: decode_hermes fails '
             'exactly when the regular part does (u16), decode_common hands on what the decoder of the kind returns, decode_index builds a section WITH a map for every entry that embeds a document, so an '
             'embedded document that does not decode fails the index (u9), and the entry points return what decode_common returns for the parsed document (u21). '
             'The bounded stand-in decode_reject puts 9 kinds of malformed segment into regular / Hermes / index documents with keys absent or mismatched and reads them through every entry point.',
        note=_TB + 'serde_json handing the document to decode_common is assumed.',
        design_ref='DESIGN.md 5 C06'),
}

CLAIMS['C04'] = dict(
    text='Unbounded proof: the real generic greatest_lower_bound is verified against the statement of C04 over an abstract key function (nothing iff every '
         'key lies after the query; otherwise the greatest key not after it, and the first element on an exact hit); SourceMap::lookup_token instantiates it for '
         '(dst_line, dst_col); SourceMap::new is proved to return a sorted permutation; TokenIter::next is verified against the iteration model '
         '"what remains is get_token(next_idx), get_token(next_idx+1), ..." through vstd\'s prophetic iterator laws; every other mutator carries a tokens frame.',
    note=_TB + 'slice::binary_search_by_key and sort_unstable_by_key are assumed by contract (DESIGN.md 3.3).',
    design_ref='DESIGN.md 5 C04')
CLAIMS['C07'] = dict(
    text='Unbounded proof of the lookup half (offset = col - dst_col exactly when the token is a range token on the queried line, else 0; get_src_col adds it '
         'saturating; no underflow), of the range-bitfield writer/reader pair against a reference bitfield encoding, and of the round trip: the reference rangeMappings text '
         'of a token list hands the reference reader, at (line, segment position), the flag of the token written there (lemma_range_text_matches_tokens), so reading back the '
         'two reference texts returns every token with its range flag (lemma_document_roundtrip_with_ranges, u15_inverse).',
    note=_TB + 'bitvec is behind assumed contracts (LSB-first, little-endian).',
    design_ref='DESIGN.md 5 C07')

CLAIMS['C12'] = dict(
    text='Unbounded proof over all chunkings: the inner reader is specified only as "delivers its pending bytes front to back in chunks of any size", and '
         'StripHeaderReader::strip_head_read / read are verified per call against a ghost stream model (what the wrapper will still hand on = header rule applied '
         'to what the inner reader still holds); strip_junk_header is verified against the same header automaton, so both paths hand the JSON parser the same bytes '
         'up to one leading newline and reject exactly the bare-CR header. On top of that the entry points themselves (u21): decode, decode_slice, decode_data_url, '
         'is_sourcemap_impl / is_sourcemap_slice_impl / is_sourcemap / is_sourcemap_slice are verified against one statement over the BYTES -- an error for a bare CR in the '
         'junk header or a document the JSON layer rejects, otherwise what decode_common makes of the document left by the header rule (decode_post), resp. "true exactly for a '
         'document that survives the header rule, parses, and has the keys" (detect_post) -- so the reader path (any reliable reader, however it cuts the stream) and the slice '
         'path are proved to satisfy the same functional statement (lemma_reader_and_slice_agree, lemma_detection_agrees: an equal result or an error on both sides), and a base64 '
         'data URL with either preamble decodes to what its payload decodes to.',
    note=_TB + 'The std::io::Read contract (prelude/io_read.rs) is assumed of every inner reader. The JSON layer, the base64 reader, and decode_common are uninterpreted FUNCTIONS of their input '
         '(prelude/shim_entry.rs): serde_json::from_slice = json_raw / json_min of the bytes, one leading newline is JSON whitespace; serde_json::from_reader over BufReader over the StripHeaderReader parses '
         'exactly the stream the per-call contract of read delivers (chunking independence of serde / BufReader is the assumption, that of StripHeaderReader is proved); an unreliable reader (one that reports an '
         'error of its own) may turn any outcome into an error; decode_common returns the same result for the same document. #[derive(PartialEq)] on HeaderState is taken as variant equality.',
    design_ref='DESIGN.md 5 C12')

CLAIMS['C13'] = dict(
    text='Unbounded proof over all call histories by invariant: every SourceMapBuilder method is verified to preserve the interning invariant (ids = insertion '
         'index, injective table) and to satisfy the per-call statement "equal string -> same id, new string -> next unused id, every other field untouched"; '
         'into_sourcemap is proved to hand over tokens (sorted permutation), names, sources, contents, ignore list, file, debug id and root; on SourceMap the '
         'prefixed-name cache invariant (each source reads as raw name joined with the current root by the documented rule) is established by new and preserved '
         'by set_source_root / set_source / set_source_contents, and get_source reads through it.',
    note=_TB + 'Arc<str> is modelled as an immutable string value (prelude/arc_str.rs); FxHashMap is replaced by std HashMap (hasher abstracted); tables are assumed to '
         'hold fewer than 2^32-16 entries (ids are len() as u32); generic setters are verified for the instantiation T = Arc<str> (R-mono). The "serialisation writes '
         'raw names plus root" clause is the `sources` / `sourceRoot` part of raw_of_regular, proved for SourceMap::as_raw_sourcemap in u22_encode (the sources come from the raw table, never from the prefixed cache).',
    design_ref='DESIGN.md 5 C13')

CLAIMS['C03'] = dict(
    text='Unbounded proof that the real serialize_mappings (and encode_vlq_diff / encode_vlq under it) writes exactly the reference "mappings" string of the '
         "map's token list: ';' per line advanced, ',' between segments, per-line column reset, running source/line/column/name deltas, 1/4/5 fields, exact "
         'consecutive duplicates dropped (spec/mappings_enc.rs, written from the format); and "an independent decoder reads it back": the reference reader '
         '(spec/mappings_dec.rs, an independent reading of the format) applied to the reference string returns the token list without exact consecutive duplicates '
         '(lemma_mappings_roundtrip, u15_inverse); and that the raw document (u22_encode: as_raw_sourcemap of SourceMap / SourceMapIndex / SourceMapHermes / DecodedMap) has version 3, that string under "mappings", '
         'the map\'s raw sources, names, root, file, ignore list, debug id and contents under their keys, None (no key) for each of the last five without a value, and for an index map one entry per section with its offset object, '
         'url and, recursively, the embedded map\'s document. PARTIAL: that serde writes a None field as no key (skip_serializing_if) is bounded only (raw_keys).',
    note=_TB + 'Requires the map invariant "tokens sorted" (proved for every constructor in C04). serde_json writing the string faithfully is assumed.',
    design_ref='DESIGN.md 5 C03')
CLAIMS['C01'] = dict(
    text='Unbounded, by composition of contracts: serialize_mappings emits the reference encoding (u5_encode), the mapping loop of decode_regular computes the reference '
         'reading (u4_decode), and the reference reading of the reference encoding of a sorted, well-formed token list is that list without exact consecutive duplicates, token '
         'by token equivalent -- generated position, source, name, range flag given matching range bits, original position where there is a source (lemma_mappings_roundtrip / '
         '_with_ranges in u15_inverse, by induction over the tokens through the split structure of the string; the VLQ layer by the C11 inverse lemmas); raw sources + root are '
         'what the map stores and re-derives (C13 cache invariant); the tail of decode_regular builds the map from the decoded parts (u10_tail); and the raw document itself (u22_encode): the as_raw_sourcemap impls of SourceMap, SourceMapIndex '
         '(recursively through nested maps, by a closure that calls the encoder on each section), SourceMapHermes and the DecodedMap dispatch put every value of the map under its key -- raw source '
         'names, root, names, file, debug id, ignore list, the reference "mappings" / "rangeMappings" strings, section offsets / urls / embedded documents, the Hermes metadata verbatim -- and leave out the keys without a value. '
         'THE PROPERTY AS A THEOREM over those two contracts (u24_roundtrip, lemma_regular_document_roundtrip): for every regular map whose token indices resolve, every document that '
         'as_raw_sourcemap may return (raw_of_regular) and every result decode_regular may give for that document (decode_regular_post) -- the result is Ok(a map with the same tokens up to exact '
         'consecutive duplicates, range flags included, ordered, and the same sources, names, contents, file, root, debug id and ignore list). Hermes maps: decode_hermes keeps the raw metadata that '
         'SourceMapHermes::as_raw_sourcemap writes back verbatim, and reads the function maps from it (u16, u22). '
         'PARTIAL: the serde_json text layer is outside the contracts (bounded stand-in roundtrip); index maps have the writer side (raw_of_index) and decode_index proved separately, not composed.',
    note=_TB + 'serde_json (de)serialisation assumed faithful. The document-level theorem assumes that the UTF-8 bytes of an all-ASCII str are its characters\' code points.',
    design_ref='DESIGN.md 5 C01')
CLAIMS['C02'] = dict(
    text='Unbounded proof: the mapping loop of decode_regular equals the reference reading of the format (per-line column reset, running source / line / column / name '
         'accumulators, 1/4/5 fields, empty lines and segments, range bits by segment position; indices computed in mathematical integers); the tail of decode_regular (null '
         'sources, numeric names, non-string file, debug_id over debugId, source root, ignore list) against the statement; decode_common dispatch (sections -> index, '
         'x_facebook_sources -> Hermes, else regular); decode_index builds one section per entry of the `sections` array -- at the offset of the entry, with its url, and an embedded map of the kind the dispatch rule gives for the document of the entry -- keeps file and the RAM-bundle extension keys, and sorts the sections by offset; SourceMap::new returns a sorted permutation; the '
         'sourceRoot joining rule (prefix_source / set_source_root / get_source against prefix_spec). decode_regular as a whole (u10): the six bindings that unpack the raw document '
         '(absent keys read as empty), the loop nest as a call of the function outlined and proved in u4, the tail verbatim -- decode_regular_post(rsm, res): Err exactly when the reference '
         'reader refuses the document\'s mappings / rangeMappings over the document\'s own tables, otherwise the map holds the reference reading ordered by generated position, and the fields as the '
         'statement lists them. decode_hermes (u16) and decode_common (u9) import that contract: a Hermes document decodes to decode_regular_post of the document without the metadata key plus one '
         'function map per metadata entry; a document without `sections` / `x_facebook_sources` to decode_regular_post of itself.',
    note=_TB + 'serde_json assumed.',
    design_ref='DESIGN.md 5 C02')

CLAIMS['C08'] = dict(
    text='Unbounded proof of both halves, each against the statement: (1) SourceMapIndex::lookup_token resolves in the section with the greatest offset not after the position '
         '(GLB contract instantiated for section offsets), delegates the section-relative position (line - off_line; col - off_col on the first line only) to the section\'s map '
         '-- a regular map (SourceMap::lookup_token\'s statement), a Hermes map (its inner map) or a nested index (the same statement, recursively) -- both subtractions '
         'proved safe, nothing before the first section. (2) SourceMapIndex::flatten (u13_flatten, recursive contract over nested indexes, termination by structural decrease): '
         'the result holds, up to the final sort by generated position, exactly the tokens of the sections in order -- each re-expressed over the output tables with the same '
         'source string, name string, original position and range flag, its line moved down by the section line offset and its column moved right by the column offset on the '
         'section\'s line 0 only; contents are the first-seen text of every source a token refers to; ignore-list membership is carried '
         'over; nested index sections contribute any map that satisfies the same contract; an unresolved section gives Err, and Err arises only from an unresolved section, a '
         'nested index, or a position overflow. SourceMapSectionIter::next is checked against the prophetic iterator laws under a type invariant (at most 2^32-1 sections). '
         '(3) The agreement clause, as a theorem over the two contracts (lemma_index_lookup_agrees_with_flattened, spec/agreement.rs): for sections that are regular or Hermes '
         'maps, start at strictly increasing offsets, hold tokens at distinct generated positions and keep them before the next offset, an answer Some(t) of the index lookup '
         'and any answer of the flattened map\'s lookup at the same position point to the same original line, column (range offset included), source and name; and for NESTED index '
         'sections by induction over the nesting (lemma_index_lookup_agrees_with_flattened_nested): a nested section resolves, by the induction hypothesis, to the same original location as the '
         'lookup on its own flattening -- which is the map the outer flattening was built from, and on which a lookup answer exists (lemma_lookup_answer_exists) -- so the core argument '
         '(lemma_agree_core) applies one level up.',
    note=_TB + 'DecodedMap::lookup_token (3-way dispatch, Hermes through its real Deref impl) and SourceMapIndex::lookup_token are verified as a mutually recursive pair against the recursive relation '
         'idx_lookup_post / dm_lookup_post (termination by structural decrease); required: sections sorted by offset (as decode_index leaves them) and token lists sorted, recursively. '
         'flatten assumes: Cow<SourceMap> deref returns the borrowed/owned map; error message texts are not modelled (format! arguments dropped); embedded maps satisfy root_wf; '
         'fewer than 2^32-256 tokens in total.',
    design_ref='DESIGN.md 5 C08')
CLAIMS['C14'] = dict(
    text='PARTIAL: unbounded proof that (1) get_scope_for_token returns the name attached to the last function-map entry at or before (original line + 1, original column) '
         '(GLB contract over (u64 line, column) keys), nothing without a function map or before all entries, and nothing for an out-of-range name index; (2) the function-map '
         'reader inside decode_hermes (the whole closure, lifted to a function of the metadata entry and the shared scratch vector, R-lift) gives, for a non-null non-empty entry, '
         'the names of its first scope mapping and the independent reading of Metro\'s format of its mappings (spec/hermes_decode.rs: groups by \';\', segments by '
         '\',\', column relative within a group, name index and line relative across the string, line starting at 1 and advanced only by the third value, omitted values = 0), '
         'None exactly when the entry is null / empty or a segment is not valid VLQ, whatever the scratch vector held on entry; decode_hermes around it (map + collect written as '
         'the loop of pushes, R-map-collect) refuses a document without the key, builds one function map per entry in order, each from its own entry only, keeps the raw metadata for '
         're-encoding, and fails exactly when decode_regular of the rest fails (decode_regular itself: u4 / u10); '
         '(3) SourceMapHermes::get_original_function_name(offset) is the scope lookup of the token that C04 says (0, offset) resolves to, nothing when no token lies at or before it; DecodedMap::get_original_function_name gives that answer for a Hermes map on line 0, nothing on any other line, and hands regular / index maps their arguments (nothing without a name or a view).',
    note=_TB + 'function maps are required ordered by (line, column), as Metro emits them. Values leaving the u32 range are outside the domain (Unfit).',
    design_ref='DESIGN.md 5 C14')

CLAIMS['C05'] = dict(
    text='PARTIAL SCOPE, unbounded where it applies: for every function under contract (listed in evidence.functions_under_contract) Verus proves absence of arithmetic '
         'overflow, out-of-bounds indexing, unwrap/expect on None/Err, explicit panics and callee-precondition violations, and termination of every loop, for all inputs '
         'admitted by the stated type invariants (sorted tokens, in-range indices, root cache). This covers the VLQ codec, the mapping loop of decode_regular and decode_rmi, '
         'both header strippers, lookup (regular and index), token accessors, builder, setters, serialize_mappings and Hermes scope lookup.',
    note=_TB + 'Out of reach and listed under not_covered on every run: serde_json / url / bitvec / data-encoding / base64-simd internals, sourceview.rs (unsafe, Mutex, atomics), '
         'js_identifiers.rs, locate_sourcemap_reference, formatting impls, ram_bundle.rs, allocation size and wall-clock; stated size assumptions (tables < 2^32-16 entries, strings < usize::MAX/6 bytes).',
    design_ref='DESIGN.md 5 C05')

CLAIMS['C09'] = dict(
    text='Unbounded proof for the in-memory options including explicit prefix stripping: the loop of SourceMap::rewrite_with_mapping is verified against the statement token by token -- '
         'every token keeps its generated position, original line / column and range flag and resolves to the same source string and (unless names are dropped) name string over an intermediate '
         'source table that has no duplicates and nothing unreferenced; mapping[new id] is an old id of the same source; contents follow their source; file and debug id are preserved; the name table '
         'has no duplicates -- on top of the builder contracts (add_token re-interns what the token resolves to, tables mirror the interning maps, into_sourcemap hands everything over); and the '
         'source table of the result is that intermediate table with, for each entry, the FIRST prefix of options.strip_prefixes that matches it at a path-component boundary (the prefix with a '
         'trailing "/" added unless it has one) cut off, unchanged when none matches: SourceMapBuilder::strip_prefixes is verified (for S = String, its only instantiation) over Verus\'s prophetic '
         'model of iter_mut, and the prefix list handed to it is proved to be the option list. With the "~" option the list gets at most one further, computed prefix (whatever find_common_prefix returns: the statement only asks for a stripped prefix), and only then. '
         'SourceMapHermes::rewrite (u23; its two map/collect chains written as loops, R-map-collect) is proved to return the rewritten map with per-source tables -- function maps and raw metadata -- '
         'whose entry i is the old entry of the old source id that new source i remembers (nothing when that id had none), so that a token related to an old token as above resolves to the same '
         'enclosing function (lemma_hermes_rewrite_keeps_scopes); the bounded stand-in hermes_rewrite runs the real closures.',
    note=_TB + 'Preconditions of the proved contract: load_local_source_contents off (the property itself restricts to in-memory options), fewer than 2^32-256 tokens. find_common_prefix itself is not under contract (its result is treated as an arbitrary optional string). '
         'Assumed: String::push / ends_with / as_ref().to_string(), Arc<str>::starts_with(&String), arc[n..].into() after a matching prefix (prelude/shim_strip.rs); Vec::get_mut(i).and_then(Option::take) (prelude/shim_take_at.rs). '
         'bounded stand-ins enumerate a stated finite space through the public API and are never counted as discharged obligations.',
    design_ref='DESIGN.md 5 C09')

CLAIMS['C10'] = dict(
    text='Unbounded proof of the real text of adjust_mappings (the sweep over the two stretch lists with its labelled breaks, the clipping, the `as i32` displacement arithmetic and the final sort) and of the nested '
         'create_ranges: create_ranges yields one stretch per token, ordered by the key, each starting at its token and ending where the next one starts or at the end of its line (the statement\'s "stretch"); '
         'for those two stretch lists the tokens pushed by the sweep are exactly rows(os, ads): for every adjustment stretch in order and every original stretch in order, one token per NON-EMPTY overlap '
         '(max of the starts < min of the ends), placed at the start of the overlap plus the adjustment token\'s generated-minus-original displacement, with the original token\'s source id, original position, name id '
         'and range flag; the result is that list sorted by generated position (a permutation: multiset equality); file, names, sources, root, prefixed-name cache, contents, ignore list and debug id are unchanged; '
         'no arithmetic overflows and all three loops terminate. The exactly-one-token clause is proved for inputs whose stretches are all non-empty, and -- by lemma_distinct_positions_give_nonempty_stretches, a permutation argument over the multisets -- for every pair of maps in which no two original tokens share a generated position and no two adjustment tokens share an original position; '
         'with an empty stretch the code emits extra tokens -- known finding D10, reported by the bounded stand-in adjust_dups.',
    note=_TB + 'Requires generated positions of the map and both positions of the adjustment map below 2^30 (the `as i32` casts and their sums then stay in range; beyond 2^31 the casts wrap). Assumed: mem::take, Vec<RawToken>::clone, slice::Iter::next, '
         'cmp::max / cmp::min on pairs, Peekable, sort_unstable_by_key (sorted permutation); `for &x in &v` is verified in its desugared form (R-for-slice). The fn-pointer parameter of create_ranges is verified as a generic Fn (R-fnptr). '
         'The bounded stand-ins adjust / adjust_dups still run through the public API.',
    design_ref='DESIGN.md 5 C10')

_BOUNDED_ONLY = ('BOUNDED STAND-IN ONLY, no proof: %s No obligation is discharged for this property; its contract is checked by exhaustive enumeration over a stated '
                 'finite space on the real crate (bounded/: %s), as the stand-in the technique allows for functions outside the verifier\'s reach.')
CLAIMS['C15'] = dict(
    text='Unbounded proof for a view used by one thread (R-seq: the Mutex / AtomicUsize cells read as plain cells behind `&mut self`): the real text of SourceView::get_line is verified '
         'against an invariant of the lazily built index -- the cached lines are the first pieces of the text split at \\r\\n, \\n or lone \\r, and processed_until is the offset where the '
         'remaining pieces start (length + 1 once all are cached) -- established by new, preserved by every method, so that the answer for line i is the i-th piece and nothing past the '
         'end as a function of the text and i alone, i.e. for every order of earlier requests; the validity of the bytes handed to the unsafe from_utf8_unchecked is a discharged '
         'obligation (cutting valid UTF-8 at an ASCII terminator leaves valid UTF-8, over vstd\'s UTF-8 specification); line_count is the number of pieces; Lines::next yields line idx and '
         'advances until the pieces run out; the body of get_line_slice is verified against "nothing if the line has fewer than col+span UTF-16 units, else the characters from the first '
         'boundary at or after col up to the first boundary at or after col+span" (a character straddling the end is included whole), with offsets proved to be the UTF-8 offsets of those '
         'boundaries. Every loop terminates, no index / arithmetic / unwrap can fail.',
    note=_TB + 'Assumed: the sequential cell model of std Mutex / AtomicUsize (one thread; C16 is not applicable), a 64-bit usize, str::as_bytes / len, slice position, char::len_utf16, '
         'chars().peekable(), str::get(a..b) at character offsets, Option::and_then; the raw-pointer lifetime extension of the cached lines (memory safety of the self-referential cache) is not verified; '
         'fewer than 2^32 lines for line_count / Lines. SourceView::from_string, clone, source, sourcemap_reference and the Iterator trait plumbing of Lines are not under contract. '
         'The bounded stand-in sourceview still runs through the public API (real Mutex / atomics).',
    design_ref='DESIGN.md 5 C15')
CLAIMS['C17'] = dict(
    text='Unbounded proof for a view used by one thread (R-seq), for maps whose token columns are character positions of their line (never the second half of a surrogate pair): '
         'the identifier layer (src/js_identifiers.rs): is_valid_start / is_valid_continue are the ECMA-262 classes of the statement ($, _, ASCII letters / digits, ZWNJ / ZWJ as continuation only, and the Unicode '
         'ID_Start / ID_Continue tables for non-ASCII characters only); strip_identifier returns the longest identifier a string starts with and nothing otherwise, its byte index proved to be the UTF-8 '
         'offset after the last identifier character (the D14 panic is excluded for every string); is_valid_javascript_identifier holds exactly for strings that are one identifier; get_javascript_token is '
         'the identifier at the start of the first whitespace-separated word. The backward walk (RevTokenIter::next): each call yields the current token with its text read at the token\'s UTF-16 column of its '
         'generated line -- the forward scan and the cached backward scan both land on the character boundary at that column -- then steps to the previous token, under a cache invariant (cached line, column and '
         'byte offset agree). The pairing loop (SourceView::get_original_function_name): the result is the name attached to the FIRST step j of the walk (steps 0..min(128, idx+1)) whose token text is the given '
         'identifier and whose predecessor, still among those 128 tokens, reads "function" -- nothing if there is no such step or the name is not an identifier; the text of a token is proved to be a function of the '
         'line and the column (uniqueness lemmas), so "first" is well defined; the loop terminates and nothing can panic.',
    note=_TB + 'Assumed: take(128).peekable() as a buffer of one item in front of at most 128 calls of the walker\'s next (prelude/shim_takepeek.rs; each inner call is assumed to satisfy the contract PROVED for RevTokenIter::next), '
         'the Unicode tables of the unicode-id-start crate (two uninterpreted predicates), char::is_whitespace (uninterpreted), str::char_indices, chars / chars().rev(), split_whitespace().next(), &s[..n] / get(..n) / get(n..) at '
         'character offsets, char::len_utf16, Option comparisons with Some(&str), the sequential cell model of Mutex / AtomicUsize. SourceMap::get_original_function_name (the position-based entry point) is under contract too: the walk starts at the token C04 says the position resolves to, whose index is proved to be the index of its raw token (D16 fixed; `and_then` read as its definition, R-and-then). '
         'The SourceMapIndex / DecodedMap variants of the wrapper are not under contract; for index maps the bounded stand-in reports known finding D18 (text read at section-relative positions). Token columns inside a surrogate pair are outside the precondition. The bounded stand-in function_name still runs through the public API.',
    design_ref='DESIGN.md 5 C17')
CLAIMS['C18'] = dict(
    text='PARTIAL: unbounded proof of the discovery and detection mechanisms (src/detector.rs): locate_sourcemap_reference returns, for the sequence of lines its reader yields, the reference '
         'of the FIRST line that begins with "//# sourceMappingURL=" or "//@ sourceMappingURL=" -- the URL is the rest of that line after the 21-character prefix, trimmed; the "@" form is '
         'flagged legacy -- nothing when no line begins that way, an error when an earlier line cannot be read; the byte offset 21 is proved to be a character boundary of such a line '
         '(ASCII prefix), so the slice cannot panic and from_utf8 cannot fail; locate_sourcemap_reference_slice scans the whole slice (for every length); SourceMapRef::get_url returns the URL '
         'of either form; get_embedded_sourcemap decodes a reference whose URL starts with "data:" for both forms and answers "no embedded map" otherwise; is_sourcemap_common accepts every '
         'document with the keys a serialised regular / Hermes map (version, sources, mappings) or index map (sections) always has, and nothing without mappings or sections. The base64 writer / '
         'reader pair of the data URL and the serde layer of the predicates are dependency glue: bounded stand-in discover.',
    note=_TB + 'Assumed: BufReader::lines as "the lines of what the reader delivers" (the splitting of bytes into lines is std\'s; the slice variant is stated relative to slice_lines(bytes)), str::from_utf8 of a tail, '
         'str::trim / to_owned, str::starts_with; decode_data_url is represented by a named result (no property assumed). The two From impls behind `?` (io::Error, Utf8Error) are the crate\'s, verified against vstd\'s From specification.',
    design_ref='DESIGN.md 5 C18')

CLAIMS['C19'] = dict(
    text='Unbounded proof: the real text of make_relative_path is verified to write exactly one "../" per component of the base file\'s directory beyond the leading components it shares with '
         'the target, followed by the remaining target components joined by "/", and "." when that text is empty -- on top of the verified helper find_common_prefix_of_sorted_vec (for two lists: '
         'their longest common leading run) and with the subtraction and the slice proved in range; and C19 itself is a theorem over that contract (lemma_make_relative_path_leads_to_target): for a '
         'target made of ordinary components (none is "." or ".."), splitting the returned text into components and resolving them against the base directory (".." pops, "." stays, anything else '
         'pushes) gives exactly the target\'s components, the result is "." only when the target is that directory, and is "." whenever it is -- for all depths and all shared-prefix lengths. The '
         'component splitter is an explicit recursive definition (non-empty maximal runs of characters other than \'/\' and \'\\\'), and "components of "../"*n + join(xs, "/") are n times ".." then xs" '
         'is proved by induction.',
    note=_TB + 'Assumed: the adapter chains of std behave as named -- split(&[..][..]).filter(non-empty).collect() = components, sort_by_key(len) = stable sort by length, repeat(s).take(n).collect(), '
         'slice.join, Option::map/unwrap_or, String::push_str / is_empty (vstd), Cow<[&str]> deref, Option comparisons, &s[..=i], Iterator::enumerate. The bounded stand-in relpath still runs through the public API. '
         'With three or more lists the helper can return a run that one list does not share; no listed property depends on that (make_relative_path passes two lists).',
    design_ref='DESIGN.md 5 C19')

CLAIMS['C20'] = dict(
    text='PARTIAL: unbounded proof, for every byte string, of the indexed-bundle functions against the byte layout (spec/rambundle.rs): is_ram_bundle_slice and '
         'RamBundle::parse_indexed_from_slice / _from_vec / IndexedRamBundle::parse accept exactly a complete 12-byte header with the magic number and keep the bytes and the '
         'header numbers; get_module answers an error for ids past the table and for a table cut off before the entry, nothing for an empty slot, an error for a zero length with '
         'an offset, the module bytes without the trailing NUL when they lie inside the buffer and an error otherwise; startup_code is the bytes after the table or an error; '
         'RamBundleModuleIter::next skips exactly the empty slots in id order and yields get_module\'s answer for the first other id; none of them overflows, indexes out of '
         'bounds or panics, and the iterator loop terminates. The reads themselves (scroll::Pread) are behind assumed contracts written from scroll 0.10\'s source.',
    note=_TB + 'Assumed: the three pread_with shims (header / table entry / byte range: Ok exactly when the bytes are available, little-endian values), Cow<[u8]> deref, '
         'Option::is_some_and, a 64-bit usize, size_of of the two packed structs (12 and 8). The file-based (unbundle) variant, split_ram_bundle and the derive(Pread) expansion '
         'are outside the contracts; the bounded stand-in ram_bundle (built with --features ram_bundle) exercises the real scroll reads through the public API.',
    design_ref='DESIGN.md 5 C20')

NOT_APPLICABLE = {p: 'under construction in this session (contract-based check being built; see DESIGN.md decision table)' for p in
                  []}
NOT_APPLICABLE['C16'] = ('concurrency (interleavings of threads sharing a SourceView over std Mutex / atomics): Kani has no thread support and Verus needs '
                         'its own permission-typed primitives, so no contract within reach of the installed verifiers expresses or decides it')

# parts of each property that no discharged obligation covers (reported in every evidence file, never counted)
NOT_COVERED = {
    'C15': ['the sequential reading of Mutex / AtomicUsize is an assumption (R-seq); threads are C16', 'SourceView::from_string / clone (other constructors), Lines as an Iterator impl (verified as the inherent method, R-trait-inherent)', 'the unsafe lifetime extension of cached lines'],
    'C17': ['SourceMapIndex::get_original_function_name (index lookup, proved in C08, then the same walk; known finding D18 lives there): not under contract; DecodedMap::get_original_function_name is under contract as a dispatch (u8); the bounded stand-in function_name covers SourceView::, SourceMap:: and SourceMapIndex::get_original_function_name', 'token columns that fall inside a surrogate pair (outside the precondition `aligned`): bounded only', 'std\'s Take / Peekable adapters (assumed contract over the walker\'s proved contract)'],
    'C18': ['SourceMapRef::resolve / resolve_path (joining the discovered URL with the file location): not part of the statement, not under contract', 'how BufReader::lines cuts bytes into lines (std; assumed -- exercised by the bounded stand-in discover incl. texts larger than any buffer)', 'that the base64 reader (data_encoding) inverts the base64 writer (base64_simd) -- an assumption between two dependencies, exercised by the bounded stand-in discover; on it, to_data_url and decode_data_url are proved to fit together (the preamble written is one the reader accepts; lemma_own_data_url_decodes_to_the_json_text)', 'that serde writes a key exactly for a field with a value (serde layer): bounded (header, discover); on that, every document as_raw_sourcemap may return is accepted by the detection rule (lemma_written_documents_are_recognised, u24), and the predicates themselves are under contract (u21)'],
    'C19': ['the std adapter chains inside make_relative_path are behind assumed contracts (split/filter/collect, sort_by_key, repeat/take/collect, join); the bounded stand-in relpath exercises the real ones', 'find_common_prefix (the rewrite "~" option): not part of C19'],
    'C20': ['scroll::Pread internals and the derive(Pread) expansion (assumed contracts; exercised by the bounded stand-in ram_bundle)', 'UnbundleRamBundle (file-system based variant)', 'split_ram_bundle / SplitRamBundleModuleIter (composition with flatten and SourceMapBuilder)', 'that Iterator::next of RamBundleModuleIter is the inherent body verified here (R-trait-inherent: same text, emitted outside the trait impl)'],
    'C10': ['inputs with an empty stretch (two tokens at one position, column u32::MAX): the exactly-one-token clause is conditional on non-empty stretches (known finding D10 lives there); bounded stand-in adjust_dups', 'positions >= 2^30 (`as i32` arithmetic): outside the precondition'],
    'C09': ['which prefix find_common_prefix computes for "~" (any string satisfies the statement; bounded stand-in rewrite exercises it)', 'load_local_source_contents (filesystem; excluded by the property)'],
    'C05': ['dependencies (serde_json, url, bitvec, data-encoding, base64-simd, debugid)', 'sourceview.rs, js_identifiers.rs, detector.rs line scan, Display/Debug impls, ram_bundle.rs',
            'flatten (+ off_col / + off_line overflow, design-phase defect D6), rewrite, adjust_mappings, range bitfield writer (D4), decode_hermes', 'allocation in proportion to the input; wall-clock (only termination is proved)'],
    'C08': ['the agreement theorems quantify over index maps whose sections are as the property describes them at every level of nesting (offsets strictly increasing, distinct generated positions inside a section, every moved token before the next offset); other index maps: bounded stand-ins index_flatten / index_nested', 'the hypotheses of the agreement lemma are the postconditions of executed functions; no concrete witness is constructed inside Verus (Vec values cannot be built in spec code), the stand-ins index_flatten / index_nested run the real functions on such inputs'],
    'C14': ['stability under serialise/decode: both halves are proved over the raw document (SourceMapHermes::as_raw_sourcemap writes x_facebook_sources verbatim, u22; decode_hermes keeps it and reads the function maps from it, u16) and composed (lemma_hermes_answers_survive_reencoding, u24: two maps whose function maps were read from the same metadata answer alike); that serde carries x_facebook_sources through the JSON text is bounded (hermes_scope)'],
    'C01': ['the serde_json layer (writer and reader of the JSON text, serde attributes): bounded stand-in roundtrip'],
    'C02': ['the composition inside decode_regular is by contract: its loop nest is verified as the outlined function decode_regular__mappings_loop (u4) and called from the verified rest (u10) -- the extracted decode_regular differs from the real one exactly in that call standing for those statements (R-outline-call)', 'termination of the decode_index / decode_common recursion (bounded by serde_json)'],
    'C03': ['the serde skip_serializing_if attributes (that a None field writes no key): bounded stand-in raw_keys'],
    'C07': ['the serde layer: bounded stand-in rmi_roundtrip; decode_regular handing the two strings of the document to the loop is proved (u10); the writer side (as_raw_sourcemap puts the reference rangeMappings value under its key, none without a range token) and the token-level round trip with flags are proved'],
    'C11': ['values of magnitude >= 2^62 (13-digit overflows) are only proved panic-free'],
    'C12': ['the JSON layer and the base64 reader themselves (uninterpreted functions of the bytes; their chunking independence is assumed): bounded stand-in header runs the real ones', 'SourceView-level and writer-side entry points (to_writer, to_data_url)'],
    'C13': ['that serde writes the raw document\'s fields under their keys (serde attributes): bounded stand-in root_setters'],
    'C04': ['every producer carries its own clause ens_result_ordered_by_generated_position (decode_regular through SourceMap::new, the builder through into_sourcemap, rewrite, flatten, flatten_and_rewrite, adjust_mappings); producers outside the contracts (SourceMapHermes::rewrite hands on rewrite_with_mapping\'s map) are covered through those'],
}
