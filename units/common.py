"""Helpers shared by unit recipes."""
import re
from vx.rs import LostAnchor, mask


def emit_error_enum(u):
    """The crate's real `Error` enum (src/errors.rs), verbatim except:
    R-derive (#[derive(Debug)] dropped), cfg(feature = "ram_bundle") evaluated false
    (default features), payload types of dependencies redirected to opaque stubs."""
    text, origin = u.get_item_text('src/errors.rs', r'(?m)^pub enum Error\b', 'enum Error')
    n = len(re.findall(r'#\[derive\(Debug\)\]\n', text))
    text = re.sub(r'#\[derive\(Debug\)\]\n', '', text)
    u.count('R-derive', n)
    # cfg(feature = "ram_bundle") off: drop the attribute, following doc lines and the variant
    text, k = re.subn(r'[ \t]*#\[cfg\(feature = "ram_bundle"\)\]\n(?:[ \t]*///[^\n]*\n)*[ \t]*[A-Za-z]+\([^)]*\),\n', '', text)
    u.count('R-cfg-off', k)
    text = re.sub(r'(?m)^\s*///[^\n]*\n', '', text)
    text = text.replace('io::Error', 'std::io::Error').replace('str::Utf8Error', 'std::str::Utf8Error')
    text = text.replace('serde_json::Error', 'serde_json_stub::Error').replace('data_encoding::DecodeError', 'data_encoding_stub::DecodeError')
    if 'scroll::' in text:
        raise LostAnchor('Error enum: scroll variant not removed')
    u.emit_text('errors::Error', text, origin)


def byte_string_const_to_array(u, rel, name):
    """R-static: `const NAME: &[u8] = b"...";` -> `const NAME: &'static [u8; N] = &[b0, b1, ...];`"""
    s = u.src(rel)
    a, e = s.find_semi_item(r'(?m)^const %s\b' % name, what='const ' + name)
    text = s.text[a:e]
    m = re.match(r'const %s: &\[u8\] = b"((?:[^"\\]|\\.)*)";$' % name, text.strip(), re.S)
    if not m:
        raise LostAnchor('const %s is not a plain byte-string constant' % name)
    lit = m.group(1)
    bs = eval('b"' + lit + '"')
    arr = ', '.join(str(b) for b in bs)
    origin = dict(file=rel, line_start=s.line_of(a), line_end=s.line_of(e - 1), sha=__import__('vx.unit', fromlist=['sha']).sha(text))
    u.count('R-static')
    u.emit_text('%s::%s' % (rel.split('/')[-1][:-3], name),
                "const %s: &'static [u8; %d] = &[%s];" % (name, len(bs), arr), origin)


def refpat_for(f, u):
    """R-refpat: `for &x in E {` -> `for x__r in E { let x = *x__r;` and
    `for (i, &x) in E {` -> `for (i, x__r) in E { let x = *x__r;`"""
    n = 0
    n += f.rewrite(r'\bfor &([a-z_][a-z0-9_]*) in ([^{]*?)\{', r'for \1__r in \2{ let \1 = *\1__r;')
    n += f.rewrite(r'\bfor \(([a-z_][a-z0-9_]*), &([a-z_][a-z0-9_]*)\) in ([^{]*?)\{', r'for (\1, \2__r) in \3{ let \2 = *\2__r;')
    u.count('R-refpat', n)
    return n
