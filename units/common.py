"""Helpers shared by unit recipes."""
import re
from vx.rs import LostAnchor, mask


def emit_error_enum(u, ram_bundle=False):
    """The crate's real `Error` enum (src/errors.rs), verbatim except:
    R-derive (#[derive(Debug)] dropped), cfg(feature = "ram_bundle") evaluated false
    (default features), payload types of dependencies redirected to opaque stubs."""
    text, origin = u.get_item_text('src/errors.rs', r'(?m)^pub enum Error\b', 'enum Error')
    n = len(re.findall(r'#\[derive\(Debug\)\]\n', text))
    text = re.sub(r'#\[derive\(Debug\)\]\n', '', text)
    u.count('R-derive', n)
    # cfg(feature = "ram_bundle") off: drop the attribute, following doc lines and the variant
    if ram_bundle:
        # cfg(feature = "ram_bundle") on: keep the variants, drop the attribute; scroll::Error -> opaque stub
        text, k = re.subn(r'[ \t]*#\[cfg\(feature = "ram_bundle"\)\]\n', '', text)
        text = text.replace('scroll::Error', 'scroll_stub::Error')
        u.count('R-cfg-on', k)
    else:
        text, k = re.subn(r'[ \t]*#\[cfg\(feature = "ram_bundle"\)\]\n(?:[ \t]*///[^\n]*\n)*[ \t]*[A-Za-z]+\([^)]*\),\n', '', text)
        u.count('R-cfg-off', k)
    text = re.sub(r'(?m)^\s*///[^\n]*\n', '', text)
    text = text.replace('io::Error', 'std::io::Error').replace('str::Utf8Error', 'std::str::Utf8Error')
    text = text.replace('serde_json::Error', 'serde_json_stub::Error').replace('data_encoding::DecodeError', 'data_encoding_stub::DecodeError')
    if 'scroll::' in text:
        raise LostAnchor('Error enum: scroll variant not removed')
    u.emit_text('errors::Error', text, origin)


def byte_string_const_to_array(u, rel, name):
    """R-static: `const NAME: &[u8] = b"...";` -> `const NAME: &'static [u8; N] = &[b0, b1, ...];`"""
    s = u.src(rel)
    a, e = s.find_semi_item(r'(?m)^const %s\b' % name, what='const ' + name)
    text = s.text[a:e]
    m = re.match(r'const %s: &\[u8\] = b"((?:[^"\\]|\\.)*)";$' % name, text.strip(), re.S)
    if not m:
        raise LostAnchor('const %s is not a plain byte-string constant' % name)
    lit = m.group(1)
    bs = eval('b"' + lit + '"')
    arr = ', '.join(str(b) for b in bs)
    origin = dict(file=rel, line_start=s.line_of(a), line_end=s.line_of(e - 1), sha=__import__('vx.unit', fromlist=['sha']).sha(text))
    u.count('R-static')
    u.emit_text('%s::%s' % (rel.split('/')[-1][:-3], name),
                "const %s: &'static [u8; %d] = &[%s];" % (name, len(bs), arr), origin)


def refpat_for(f, u):
    """R-refpat: `for &x in E {` -> `for x__r in E { let x = *x__r;` and
    `for (i, &x) in E {` -> `for (i, x__r) in E { let x = *x__r;`"""
    n = 0
    n += f.rewrite(r'\bfor &([a-z_][a-z0-9_]*) in ([^{]*?)\{', r'for \1__r in \2{ let \1 = *\1__r;')
    n += f.rewrite(r'\bfor \(([a-z_][a-z0-9_]*), &([a-z_][a-z0-9_]*)\) in ([^{]*?)\{', r'for (\1, \2__r) in \3{ let \2 = *\2__r;')
    u.count('R-refpat', n)
    return n


def emit_struct(u, rel, name, kind='struct', drop_derive=None, keep_derive=False, tags=None, keep_vis=False):
    """A struct/enum definition verbatim.  R-derive: `#[derive(...)]` lines are dropped unless
    keep_derive; R-attr: doc comments dropped; R-vis: pub -> pub(crate) on the item itself."""
    text, origin = u.get_item_text(rel, r'(?m)^(?:pub(?:\([a-z]+\))? )?%s %s\b' % (kind, name), '%s %s' % (kind, name))
    if not keep_derive:
        text, n = re.subn(r'(?m)^#\[derive\([^\]]*\)\]\n', '', text)
        u.count('R-derive', n)
    text, n = re.subn(r'(?m)^\s*//[/!][^\n]*\n', '', text)
    u.count('R-attr', n)
    # R-vis: the item and every field become `pub` (a single-file crate has no outside; Verus
    # otherwise treats the datatype as opaque in open spec functions)
    text, n = re.subn(r'(?m)^(?:pub(?:\([a-z]+\))? )?(struct|enum) ', r'pub \1 ', text)
    if kind == 'struct' and not keep_vis:
        text, n2 = re.subn(r'(?m)^(\s+)(?:pub(?:\([a-z]+\))? )?([a-z_][a-z0-9_]*: )', r'\1pub \2', text)
        n += n2
    u.count('R-vis', n)
    key = '%s::%s' % (rel.split('/')[-1][:-3], name)
    u.emit_text(key, text, origin, tags=tags)
    return key


def impl_header(u, rel, impl_rx, fn_name):
    """Text of the impl header (up to and including '{') of the impl block holding fn_name."""
    s = u.src(rel)
    (a, o, e), _ = u.fn_in_impls(s, impl_rx, fn_name)
    hdr = s.text[a:o + 1]
    hdr = re.sub(r'(?m)^\s*//[/!][^\n]*\n', '', hdr)
    hdr = re.sub(r'(?m)^#\[[^\]]*\]\n', '', hdr)
    # associated types of a trait impl travel with the header
    from vx.rs import find_depth0
    assoc = [s.text[m.start():s.text.index(';', m.start()) + 1] for m in find_depth0(s.mask, r'(?m)^\s*type\s+\w+\s*=', o + 1, e - 1)]
    return hdr.strip() + ''.join('\n    ' + a.strip() for a in assoc)


def emit_method(u, rel, impl_rx, name, key, prep=None, contracted=True, tags=None, sig_prep=None):
    return guarded(u, key, lambda: u.get_fn(rel, name, impl=impl_rx), prep,
                   wrap=lambda: (impl_header(u, rel, impl_rx, name), '}'), contracted=contracted, tags=tags, sig_prep=sig_prep)


def emit_free_fn(u, rel, name, key, prep=None, contracted=True, tags=None, outer=None):
    return guarded(u, key, lambda: u.get_fn(rel, name, outer=outer), prep, wrap=lambda: None, contracted=contracted, tags=tags)


def guarded(u, key, getter, prep, wrap, contracted=True, tags=None, sig_prep=None):
    """Extract + rewrite + splice one item.  A lost anchor confined to this item (rewrite rule without a
    match, loop the overlay names is gone, ...) turns the item into a contract-only stub: the rest of the
    unit is still verified and this item's obligations are reported undecided."""
    try:
        f = getter()
        if sig_prep:
            sig_prep(f)
        if key in u.stub_items:
            u.emit_fn(f, key, wrap=wrap(), contracted=contracted, tags=tags)
            return f
        if prep:
            prep(f)
        snapshot = (list(u.chunks), list(u.items), dict(u.rewrites))
        try:
            u.emit_fn(f, key, wrap=wrap(), contracted=contracted, tags=tags)
        except LostAnchor:
            u.chunks[:], u.items[:] = snapshot[0], snapshot[1]
            raise
        return f
    except LostAnchor as e:
        if not contracted:
            raise
        f = getter()          # the signature must still be there; otherwise the whole unit is lost
        if sig_prep:
            sig_prep(f)
        u.stub_items[key] = 'lost anchor: %s' % e
        u.lost[key] = str(e)
        u.emit_fn(f, key, wrap=wrap(), contracted=contracted, tags=tags)
        return f


def inspect_to_if(f, u):
    """R-inspect: `X.inspect(|_| { S })` on an Option receiver, where the closure ignores its
    argument -> `{ let r__ = X; if r__.is_some() { S } r__ }` (Option::inspect calls the closure
    exactly when the value is Some and returns the value unchanged)."""
    n = f.rewrite(r'(?s)([A-Za-z_][A-Za-z0-9_.]*\([^()]*\))\.inspect\(\|_\| \{(.*?)\}\)',
                  r'{ let r__ = \1; if r__.is_some() {\2} r__ }')
    u.count('R-inspect', n)
    return n


def fmt_to_concat(f, u):
    """R-fmt: format!("{a}LIT{b}") (identifier holes only) -> verif_concat3(a, "LIT", b)."""
    n = f.rewrite(r'format!\("\{([a-z_][a-z0-9_]*)\}([^{}"\\]*)\{([a-z_][a-z0-9_]*)\}"\)', r'verif_concat3(\1, "\2", \3)')
    u.count('R-fmt', n)
    return n


def str_shims(f, u):
    """R-shim-call for str / Option helpers (postfix extension traits, local rewrites)."""
    n = 0
    n += f.rewrite(r"\.starts_with\('", ".verif_starts_with_char('")
    n += f.rewrite(r'\.starts_with\(', '.verif_starts_with_str(')
    n += f.rewrite(r"\.ends_with\('", ".verif_ends_with_char('")
    n += f.rewrite(r"\.strip_suffix\('", ".verif_strip_suffix_char('")
    n += f.rewrite(r'\.as_deref\(\)', '.verif_as_deref()')
    n += f.rewrite(r'\.filter\(', '.verif_filter(')
    n += f.rewrite(r'&([a-z_][a-z0-9_]*)\[\.\.\]', r'verif_arc_str(\1)')
    u.count('R-shim-call', n)
    return n


def fxhashmap(text, u):
    """R-hashmap: FxHashMap (rustc_hash) -> std HashMap; only the hasher differs."""
    text, n = re.subn(r'\bFxHashMap::default\(\)', 'HashMap::new()', text)
    text, m = re.subn(r'\bFxHashMap<', 'HashMap<', text)
    u.count('R-hashmap', n + m)
    return text


def mono(f, u, tparam, bound_rx, concrete):
    """R-mono: verify a generic method for one instantiation: drop `<T: Bound>` from the signature and
    replace the parameter type.  (Verus loses the spec of iterator `map` closures inside generic
    functions; the body is unchanged.)"""
    n = f.rewrite(r'<%s: %s>\(' % (tparam, bound_rx), '(', expect=1)
    n += f.rewrite(r'\b%s\b(?=[>,)\]])' % tparam, concrete)
    u.count('R-mono', 1)
    return n


def import_method(u, rel, impl_rx, name, key, overlay_rel, from_unit, prep=None):
    f = u.get_fn(rel, name, impl=impl_rx)
    if prep:
        prep(f)
    u.import_fn(f, key, overlay_rel, from_unit, wrap=(impl_header(u, rel, impl_rx, name), '}'))


def expand_if_chain(f, u):
    """R-ifchain: `if_chain! { if A; if let P = E; ...; then { T } else { F } }` -> the nested `if` / `if let` the macro of the if_chain crate
    expands to: `if A { if let P = E { ... { T } ... } else { F } } else { F }` (the else block is repeated on every level, as the macro does;
    without an else block the conditions simply nest)."""
    from vx.rs import match_close, find_depth0
    n = 0
    while True:
        m = re.search(r'\bif_chain!\s*\{', f.mask)
        if not m:
            break
        o = m.end() - 1
        c = match_close(f.mask, o)
        inner_a, inner_b = o + 1, c
        # split the clauses at depth-0 ';' up to the `then` keyword
        tm = None
        for t in find_depth0(f.mask, r'\bthen\s*\{', inner_a, inner_b):
            tm = t
            break
        if tm is None:
            raise LostAnchor('if_chain! without then-block in %s' % f.name)
        conds = []
        last = inner_a
        for s in find_depth0(f.mask, r';', inner_a, tm.start()):
            conds.append(f.text[last:s.start()].strip())
            last = s.end()
        if f.mask[last:tm.start()].strip():
            raise LostAnchor('if_chain!: text between the last condition and then in %s' % f.name)
        then_o = tm.end() - 1
        then_c = match_close(f.mask, then_o)
        then_block = f.text[then_o:then_c + 1]
        rest = f.mask[then_c + 1:inner_b]
        else_block = None
        em = re.match(r'\s*else\s*\{', rest)
        if em:
            eo = then_c + 1 + em.end() - 1
            ec = match_close(f.mask, eo)
            else_block = f.text[eo:ec + 1]
            if f.mask[ec + 1:inner_b].strip():
                raise LostAnchor('if_chain!: text after the else block in %s' % f.name)
        elif rest.strip():
            raise LostAnchor('if_chain!: unexpected text after then-block in %s' % f.name)
        for cnd in conds:
            if not re.match(r'if\b', cnd):
                raise LostAnchor('if_chain!: clause %r is not an if / if let' % cnd)
        out = then_block
        for cnd in reversed(conds):
            out = '%s %s' % (cnd, out)
            if else_block is not None:
                out += ' else %s' % else_block
            out = '{ %s }' % out
        out = out[2:-2]   # outermost braces are not needed
        f.text = f.text[:m.start()] + out + f.text[c + 1:]
        f._rescan()
        n += 1
    u.count('R-ifchain', n)
    return n
