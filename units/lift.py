"""Closure-removing rewrite rules shared by units (R-map-collect, R-option-map)."""
import re
from vx.rs import LostAnchor, mask, match_close


def map_collect_to_loop(f, u, expect, recv=r'\w+\s*\.(?:iter|into_iter)\(\)', types=None):
    """R-map-collect (expression form): `I.map(|p| BODY).collect()` (I = `E.iter()`, `E.into_iter()` or the iterator expression named by `recv`) ->
    `{ let mut coll__k = Vec::new(); for p in I { let item__ = BODY; coll__k.push(item__); } coll__k }`:
    map + collect into a Vec is the in-order loop of pushes; BODY is no longer a closure, so it may use locals by unique borrow."""
    n = 0
    while True:
        msk = mask(f.text)
        m = re.search(r'\b(%s)\s*\.map\(\|(\w+)\|\s*' % recv, msk)
        if not m:
            break
        popen = msk.index('(', msk.index('.map', m.start()))
        pclose = match_close(msk, popen, '(', ')')
        tail = re.match(r'\s*\.collect\(\)', msk[pclose + 1:])
        if not tail:
            raise LostAnchor('%s: `.collect()` after `.map(..)` not found' % f.name)
        body = f.text[m.end():pclose].strip()
        n += 1
        c = 'coll__%d' % n
        ty = ': %s' % types[n - 1] if types else ''    # R-type-annot: ghost code in the invariant needs the element type before rustc has inferred it
        new = '{\n    let mut %s%s = Vec::new();\n    for %s in %s {\n        let item__ = %s;\n        %s.push(item__);\n    }\n    %s\n}' % (
            c, ty, m.group(2), ''.join(f.text[m.start(1):m.end(1)].split()), body, c, c)
        f.text = f.text[:m.start()] + new + f.text[pclose + 1 + tail.end():]
        f._rescan()
    if n != expect:
        raise LostAnchor('%s: %d map/collect chains, expected %d' % (f.name, n, expect))
    u.count('R-map-collect', n)
    return n


def option_map_to_match(f, u, rx_recv, expect=1):
    """R-option-map: `X.map(|mut p| { BLOCK })` on an Option receiver -> `match X { Some(mut p) => Some({ BLOCK }), None => None }` (definition of Option::map)."""
    n = 0
    while True:
        msk = mask(f.text)
        m = re.search(r'\b(%s)\s*\.map\(\|(mut \w+|\w+)\|\s*\{' % rx_recv, msk)
        if not m:
            break
        bopen = m.end() - 1
        bclose = match_close(msk, bopen)
        if not re.match(r'\s*\)', msk[bclose + 1:]):
            raise LostAnchor('%s: closing `)` of Option::map not found' % f.name)
        pend = bclose + 1 + re.match(r'\s*\)', msk[bclose + 1:]).end()
        new = 'match %s { Some(%s) => Some(%s), None => None }' % (m.group(1), m.group(2), f.text[bopen:bclose + 1])
        f.text = f.text[:m.start()] + new + f.text[pend:]
        f._rescan()
        n += 1
    if n != expect:
        raise LostAnchor('%s: %d Option::map closures on %s, expected %d' % (f.name, n, rx_recv, expect))
    u.count('R-option-map', n)
    return n
