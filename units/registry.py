"""Which units exist and which properties are claimed."""
UNITS = ['u1_vlq', 'u2_lookup', 'u3_header']
PROPERTIES = ['C04', 'C06', 'C07', 'C11', 'C12']
