"""Which units exist and which properties are claimed."""
UNITS = ['u1_vlq']
PROPERTIES = ['C11', 'C06']
