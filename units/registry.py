"""Which units exist and which properties are claimed."""
UNITS = ['u1_vlq', 'u2_lookup', 'u3_header', 'u6_root', 'u6_builder', 'u4_decode', 'u5_encode', 'u7_index', 'u8_hermes', 'u9_dispatch', 'u10_tail', 'u11_adjust', 'u12_rewrite', 'u13_flatten', 'u14_rambundle', 'u15_inverse', 'u16_hermes_decode', 'u17_relpath', 'u18_detect', 'u19_sourceview', 'u20_funcname', 'u21_entry', 'u22_encode', 'u23_hermes_rewrite', 'u24_roundtrip']
PROPERTIES = ['C01', 'C02', 'C03', 'C04', 'C05', 'C06', 'C07', 'C08', 'C09', 'C10', 'C11', 'C12', 'C13', 'C14', 'C15', 'C17', 'C18', 'C19', 'C20']
