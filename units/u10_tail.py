"""U10 -- tail of decode_regular (R-outline, second range): lenient conversions, debug id precedence, root, ignore list"""
import re
from vx.rs import Fn, LostAnchor
from .common import emit_struct, emit_error_enum, import_method, guarded, mono
from .u6_root import prelude_types
from .u9_dispatch import emit_json_struct

NAME = 'u10_tail'
PROPS = ['C02', 'C01', 'C05', 'C04']
D = 'src/decoder.rs'
T = 'src/types.rs'
J = 'src/jsontypes.rs'

MUTANTS = [
    ('decoder::decode_regular__tail', r'rsm\.debug_id\.or\(rsm\._debug_id_new\)', 'rsm._debug_id_new.or(rsm.debug_id)'),
    ('decoder::decode_regular__tail', r'"<invalid>"', '"<invalid >"'),
    ('decoder::decode_regular__tail', r'Value::Number\(num\) => num\.to_string\(\)\.into\(\)', 'Value::Number(num) => "".into()'),
]

SIG = ('pub fn decode_regular__tail(rsm: RawSourceMap, sources: Vec<Option<String>>, names: Vec<Value>, tokens: Vec<RawToken>) -> Result<SourceMap> {\n')


def outline_tail(u):
    """R-outline (second range): the statements of decode_regular after its first loop, verbatim, as a function of
    the variables they use (`rsm` with the fields the first part has not consumed, `sources`, `names`, `tokens`)."""
    f = u.get_fn(D, 'decode_regular')
    loops = f.loops()
    if not loops:
        raise LostAnchor('decode_regular: no loop')
    end = loops[0]['body_close'] + 1
    body = f.text[end:f.body_close]
    u.count('R-outline')
    return Fn(SIG + body + '}\n', origin=f.origin, name='decode_regular__tail')


def build(u):
    u.use_overlay('u10_tail.ctr')
    prelude_types(u)
    u.macro_from_repo('src/macros.rs', 'fail')
    u.prelude('common.rs')
    u.prelude('json_types_stub.rs')
    u.prelude('shim_option_or.rs')
    emit_error_enum(u)
    for n in ['RawSectionOffset', 'RawSection', 'FacebookScopeMapping', 'RawSourceMap']:
        emit_json_struct(u, n)
    text, origin = u.get_item_text(J, r'(?m)^pub type FacebookSources\b', 'type FacebookSources', semi=True)
    u.emit_text('jsontypes::FacebookSources', text, origin)
    emit_struct(u, T, 'RawToken', keep_derive=True)
    emit_struct(u, T, 'SourceMap')
    u.spec('order.rs')
    u.spec('tokens.rs')
    u.spec('root.rs')
    import_method(u, T, r'SourceMap\b', 'new', 'types::SourceMap::new', 'u2_lookup.ctr', 'u2_lookup')

    def sig_string(f):
        mono(f, u, 'T', r'Into<Arc<str>>', 'String')
        f.rewrite(r'\bfn set_source_root\b', 'fn set_source_root__string', expect=1)
    import_method(u, T, r'SourceMap\b', 'set_source_root', 'types::SourceMap::set_source_root<String>', 'u6_root.ctr', 'u6_root', prep=sig_string)
    for g in ['set_debug_id', 'add_to_ignore_list']:
        import_method(u, T, r'SourceMap\b', g, 'types::SourceMap::' + g, 'u6_root.ctr', 'u6_root')

    def prep(g):
        u.count('R-mono', g.rewrite(r'\.set_source_root\(', '.set_source_root__string(', expect=1))
        u.count('R-closure', g.annotate_closure('val', 'val: Value',
                '(o: Arc<str>) ensures arc_chars(&o) == (match val { Value::String(s) => s@, Value::Number(n) => num_text(&n), _ => ""@ })', nth=0))
        u.count('R-closure', g.annotate_closure('val', 'val: Value',
                '(o: Arc<str>) ensures arc_chars(&o) == (match val { Value::String(s) => s@, _ => "<invalid>"@ })', nth=0))
        u.count('R-closure', g.annotate_closure('v', 'v: Option<String>',
                '(o: Option<Arc<str>>) ensures (match v { Some(c) => (o matches Some(a) && arc_chars(&a) == c@), None => o is None })'))
        u.count('R-closure', g.annotate_closure('x', 'x: Vec<Option<String>>',
                '(o: Vec<Option<Arc<str>>>) ensures o@.len() == x@.len() && forall|i: int| 0 <= i < x@.len() ==> (match x@[i] { Some(c) => (#[trigger] o@[i] matches Some(a) && arc_chars(&a) == c@), None => o@[i] is None })'))
    guarded(u, 'decoder::decode_regular__tail', lambda: outline_tail(u), prep, wrap=lambda: None)
