"""U10 -- decode_regular (src/decoder.rs) as a whole: the six bindings that unpack the raw document, the mapping loop nest as a call of the
outlined function proved in U4 (R-outline-call), and the tail verbatim: lenient conversions, debug id precedence, root, ignore list"""
import re
from vx.rs import Fn, LostAnchor
from .common import emit_struct, emit_error_enum, import_method, guarded, mono
from .u6_root import prelude_types
from .u9_dispatch import emit_json_struct

NAME = 'u10_tail'
PROPS = ['C02', 'C01', 'C05', 'C04', 'C06', 'C07', 'C13']
D = 'src/decoder.rs'
T = 'src/types.rs'
J = 'src/jsontypes.rs'

MUTANTS = [
    ('decoder::decode_regular', r'rsm\.debug_id\.or\(rsm\._debug_id_new\)', 'rsm._debug_id_new.or(rsm.debug_id)'),
    ('decoder::decode_regular', r'SourceMap::new\(file, tokens, names, sources, source_content\)', 'SourceMap::new(None, tokens, names, sources, source_content)'),
    ('decoder::decode_regular', r'verif_string_or_default\(rsm\.range_mappings\)', 'verif_string_or_default(None)'),
    ('decoder::decode_regular', r'verif_vec_or_default\(rsm\.names\)', 'verif_vec_or_default(None)'),
    ('decoder::decode_regular', r'Value::Number\(num\) => num\.to_string\(\)\.into\(\)', 'Value::Number(num) => "".into()'),
]

CALL = 'decode_regular__mappings_loop(&mappings, &range_mappings, &sources, &names, &mut tokens)?;'


def skeleton(u):
    """R-outline-call: decode_regular with the statements U4 outlines as `decode_regular__mappings_loop` (everything up to and including the
    first loop except the six bindings `names`, `sources`, `range_mappings`, `mappings`, `allocation_size`, `tokens`, which are that function's
    parameters) replaced by the call of that function; the six bindings and everything after the loop stay verbatim."""
    from .u4_decode import DROPPED
    f = u.get_fn(D, 'decode_regular')
    loops = f.loops()
    if not loops:
        raise LostAnchor('decode_regular: no loop')
    first = loops[0]
    stmts = f.top_level_stmts()
    out = []
    seen = set()
    for a, b in stmts:
        if a > first['kw_pos']:
            break
        text = f.text[a:b]
        m = re.match(r'let (?:mut )?([a-z_]+)\b', text)
        if m and m.group(1) in DROPPED:
            seen.add(m.group(1))
            out.append('    ' + text.strip() + '\n')
    if seen != set(DROPPED):
        raise LostAnchor('decode_regular: expected bindings missing: %s' % sorted(set(DROPPED) - seen))
    text = f.text[:f.body_open + 1] + '\n' + ''.join(out) + '    ' + CALL + '\n' + f.text[first['body_close'] + 1:]
    u.count('R-outline-call')
    return Fn(text, origin=f.origin, name='decode_regular')


def build(u):
    u.use_overlay('u10_tail.ctr')
    prelude_types(u)
    u.macro_from_repo('src/macros.rs', 'fail')
    u.prelude('common.rs')
    u.prelude('json_types_stub.rs')
    u.prelude('shim_option_or.rs')
    emit_error_enum(u)
    for n in ['RawSectionOffset', 'RawSection', 'FacebookScopeMapping', 'RawSourceMap']:
        emit_json_struct(u, n)
    text, origin = u.get_item_text(J, r'(?m)^pub type FacebookSources\b', 'type FacebookSources', semi=True)
    u.emit_text('jsontypes::FacebookSources', text, origin)
    emit_struct(u, T, 'RawToken', keep_derive=True)
    emit_struct(u, T, 'SourceMap')
    u.spec('order.rs')
    u.spec('tokens.rs')
    u.spec('root.rs')
    # the reference reading of the format and the outlined loop nest (proved in U4)
    u.prelude('shim_str_bytes.rs')
    u.prelude('shim_string_bytes.rs')
    u.prelude('shim_unpack.rs')
    u.prelude('shim_int.rs')
    u.prelude('shim_enumerate.rs')
    u.prelude('shim_split.rs')
    u.prelude('bitvec_stub.rs')
    u.spec('vlq.rs')
    u.spec('mappings.rs')
    u.spec('bits.rs')
    u.spec('mappings_dec.rs')
    u.spec('decode_regular.rs')
    from .u4_decode import outline_mapping_loop
    u.import_fn(outline_mapping_loop(u), 'decoder::decode_regular__mappings_loop', 'u4_decode.ctr', 'u4_decode')
    import_method(u, T, r'SourceMap\b', 'new', 'types::SourceMap::new', 'u2_lookup.ctr', 'u2_lookup')

    def sig_string(f):
        mono(f, u, 'T', r'Into<Arc<str>>', 'String')
        f.rewrite(r'\bfn set_source_root\b', 'fn set_source_root__string', expect=1)
    import_method(u, T, r'SourceMap\b', 'set_source_root', 'types::SourceMap::set_source_root<String>', 'u6_root.ctr', 'u6_root', prep=sig_string)
    for g in ['set_debug_id', 'add_to_ignore_list']:
        import_method(u, T, r'SourceMap\b', g, 'types::SourceMap::' + g, 'u6_root.ctr', 'u6_root')

    def prep(g):
        n = g.rewrite(r'\brsm\.(names|sources)\.unwrap_or_default\(\)', r'verif_vec_or_default(rsm.\1)', expect=2)
        n += g.rewrite(r'\brsm\.(range_mappings|mappings)\.unwrap_or_default\(\)', r'verif_string_or_default(rsm.\1)', expect=2)
        n += g.rewrite(r"\bmappings\.matches\(&\[',', ';'\]\[\.\.\]\)\.count\(\)", 'verif_count_separators(&mappings)', expect=1)
        u.count('R-shim-call', n)
        u.count('R-type-annot', g.rewrite(r'let mut tokens = Vec::with_capacity\(allocation_size\);', 'let mut tokens: Vec<RawToken> = Vec::with_capacity(allocation_size);', expect=1))
        u.count('R-mono', g.rewrite(r'\.set_source_root\(', '.set_source_root__string(', expect=1))
        u.count('R-closure', g.annotate_closure('val', 'val: Value',
                '(o: Arc<str>) ensures arc_chars(&o) == (match val { Value::String(s) => s@, Value::Number(n) => num_text(&n), _ => ""@ })', nth=0))
        u.count('R-closure', g.annotate_closure('val', 'val: Value',
                '(o: Arc<str>) ensures arc_chars(&o) == (match val { Value::String(s) => s@, _ => "<invalid>"@ })', nth=0))
        u.count('R-closure', g.annotate_closure('v', 'v: Option<String>',
                '(o: Option<Arc<str>>) ensures (match v { Some(c) => (o matches Some(a) && arc_chars(&a) == c@), None => o is None })'))
        u.count('R-closure', g.annotate_closure('x', 'x: Vec<Option<String>>',
                '(o: Vec<Option<Arc<str>>>) ensures o@.len() == x@.len() && forall|i: int| 0 <= i < x@.len() ==> (match x@[i] { Some(c) => (#[trigger] o@[i] matches Some(a) && arc_chars(&a) == c@), None => o@[i] is None })'))
    guarded(u, 'decoder::decode_regular', lambda: skeleton(u), prep, wrap=lambda: None)
