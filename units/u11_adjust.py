"""U11 -- adjust_mappings: the nested create_ranges (stretch ends), R-unnest + R-fnptr"""
import re
from .common import emit_struct, guarded
from .u6_root import prelude_types

NAME = 'u11_adjust'
PROPS = ['C10', 'C05']
T = 'src/types.rs'

MUTANTS = [
    ('types::SourceMap::adjust_mappings::create_ranges', r'\(start\.0, u32::MAX\)\)', '(u32::MAX, u32::MAX))'),
    ('types::SourceMap::adjust_mappings::create_ranges', r'verif_map_or_key\(token_iter\.peek\(\), \(u32::MAX, u32::MAX\), key\)', 'verif_map_or_key(token_iter.peek(), (0, 0), key)'),
]


def build(u):
    u.use_overlay('u11_adjust.ctr')
    prelude_types(u)
    u.prelude('shim_slice.rs')
    emit_struct(u, T, 'RawToken', keep_derive=True)
    u.spec('order.rs')
    u.prelude('shim_peek.rs')
    # R-unnest: the helper struct local to adjust_mappings
    s = u.src(T)
    a, o, e = u.find_fn(s, 'adjust_mappings', within=None) if False else (None, None, None)
    (ia, io, ie), (fa, fo, fe) = u.fn_in_impls(s, r'SourceMap\b', 'adjust_mappings')
    sa, so, se = s.find_block_item(r'(?m)^\s*struct Range\b', lo=fo + 1, hi=fe - 1, what='struct Range')
    text = s.text[sa:se]
    text = re.sub(r'(?m)^\s*#\[derive\([^\]]*\)\]\n', '', text)
    text = re.sub(r'(?m)^\s*//[^\n]*\n', '', text)
    text = re.sub(r'(?m)^(\s*)struct Range', r'\1#[derive(Clone, Copy)]\n\1pub struct Range', text)
    text = re.sub(r'(?m)^(\s+)([a-z_]+: )', r'\1pub \2', text)
    u.count('R-unnest')
    from vx.unit import sha
    u.emit_text('types::SourceMap::adjust_mappings::Range', text, dict(file=T, line_start=s.line_of(sa), line_end=s.line_of(se - 1), sha=sha(s.text[sa:se])))

    u.spec('ranges.rs')

    def prep(f):
        # R-fnptr: `key: fn(&RawToken) -> (u32, u32)` becomes a generic Fn parameter (Verus instruments closures, so closure -> fn pointer coercion fails)
        u.count('R-fnptr', f.rewrite(r'fn create_ranges\(', 'fn create_ranges<F: Fn(&RawToken) -> (u32, u32)>(', expect=1))
        u.count('R-fnptr', f.rewrite(r'key: fn\(&RawToken\) -> \(u32, u32\),', 'key: F,', expect=1))
        u.count('R-shim-call', f.rewrite(r'\b([a-z_]+)\.sort_unstable_by_key\(key\)', r'verif_sort_unstable_by_key(&mut \1, &key)', expect=1))
        u.count('R-shim-call', f.rewrite(r'\b([a-z_]+)\.into_iter\(\)\.peekable\(\)', r'verif_into_iter_peekable(\1)', expect=1))
        u.count('R-shim-call', f.rewrite(r'token_iter\.peek\(\)\.map_or\(\(u32::MAX, u32::MAX\), key\)', 'verif_map_or_key(token_iter.peek(), (u32::MAX, u32::MAX), &key)', expect=1))
        u.count('R-shim-call', f.rewrite(r'std::cmp::min\(', 'verif_min_pos(', expect=1))
        # R-type-annot: ghost code in the invariant needs the element type before rustc has inferred it
        u.count('R-type-annot', f.rewrite(r'let mut ranges = Vec::new\(\);', 'let mut ranges: Vec<Range> = Vec::new();', expect=1))
    guarded(u, 'types::SourceMap::adjust_mappings::create_ranges',
            lambda: u.get_fn(T, 'create_ranges', impl=r'SourceMap\b', outer='adjust_mappings'), prep, wrap=lambda: None)
