"""U11 -- adjust_mappings: the nested create_ranges (stretch ends), R-unnest + R-fnptr"""
import re
from vx.rs import LostAnchor
from .common import emit_struct, guarded, emit_method
from .u6_root import prelude_types

NAME = 'u11_adjust'
PROPS = ['C10', 'C05', 'C04']
T = 'src/types.rs'

MUTANTS = [
    ('types::SourceMap::adjust_mappings', r'while original_range\.end <= adjustment_range\.start', 'while original_range.end < adjustment_range.start'),
    ('types::SourceMap::adjust_mappings', r'while original_range\.start < adjustment_range\.end', 'while original_range.start <= adjustment_range.end'),
    ('types::SourceMap::adjust_mappings', r'verif_max_pos\(original_range\.start, adjustment_range\.start\)', 'original_range.start'),
    ('types::SourceMap::adjust_mappings', r'\.\.original_range\.value', '..adjustment_range.value'),
    ('types::SourceMap::adjust_mappings', r'\+ col_diff\) as u32', '- col_diff) as u32'),
    ('types::SourceMap::adjust_mappings::create_ranges', r'\(start\.0, u32::MAX\)\)', '(u32::MAX, u32::MAX))'),
    ('types::SourceMap::adjust_mappings::create_ranges', r'verif_map_or_key\(token_iter\.peek\(\), \(u32::MAX, u32::MAX\), &key\)', 'verif_map_or_key(token_iter.peek(), (0, 0), &key)'),
]


def build(u):
    u.use_overlay('u11_adjust.ctr')
    prelude_types(u)
    u.prelude('shim_slice.rs')
    emit_struct(u, T, 'RawToken', keep_derive=True)
    u.spec('order.rs')
    u.prelude('shim_peek.rs')
    # R-unnest: the helper struct local to adjust_mappings
    s = u.src(T)
    a, o, e = u.find_fn(s, 'adjust_mappings', within=None) if False else (None, None, None)
    (ia, io, ie), (fa, fo, fe) = u.fn_in_impls(s, r'SourceMap\b', 'adjust_mappings')
    sa, so, se = s.find_block_item(r'(?m)^\s*struct Range\b', lo=fo + 1, hi=fe - 1, what='struct Range')
    text = s.text[sa:se]
    text = re.sub(r'(?m)^\s*#\[derive\([^\]]*\)\]\n', '', text)
    text = re.sub(r'(?m)^\s*//[^\n]*\n', '', text)
    text = re.sub(r'(?m)^(\s*)struct Range', r'\1#[derive(Clone, Copy)]\n\1pub struct Range', text)
    text = re.sub(r'(?m)^(\s+)([a-z_]+: )', r'\1pub \2', text)
    u.count('R-unnest')
    from vx.unit import sha
    u.emit_text('types::SourceMap::adjust_mappings::Range', text, dict(file=T, line_start=s.line_of(sa), line_end=s.line_of(se - 1), sha=sha(s.text[sa:se])))

    u.spec('ranges.rs')

    def prep(f):
        # R-fnptr: `key: fn(&RawToken) -> (u32, u32)` becomes a generic Fn parameter (Verus instruments closures, so closure -> fn pointer coercion fails)
        u.count('R-fnptr', f.rewrite(r'fn create_ranges\(', 'fn create_ranges<F: Fn(&RawToken) -> (u32, u32)>(', expect=1))
        u.count('R-fnptr', f.rewrite(r'key: fn\(&RawToken\) -> \(u32, u32\),', 'key: F,', expect=1))
        u.count('R-shim-call', f.rewrite(r'\b([a-z_]+)\.sort_unstable_by_key\(key\)', r'verif_sort_unstable_by_key(&mut \1, &key)', expect=1))
        u.count('R-shim-call', f.rewrite(r'\b([a-z_]+)\.into_iter\(\)\.peekable\(\)', r'verif_into_iter_peekable(\1)', expect=1))
        u.count('R-shim-call', f.rewrite(r'token_iter\.peek\(\)\.map_or\(\(u32::MAX, u32::MAX\), key\)', 'verif_map_or_key(token_iter.peek(), (u32::MAX, u32::MAX), &key)', expect=1))
        u.count('R-shim-call', f.rewrite(r'std::cmp::min\(', 'verif_min_pos(', expect=1))
        # R-type-annot: ghost code in the invariant needs the element type before rustc has inferred it
        u.count('R-type-annot', f.rewrite(r'let mut ranges = Vec::new\(\);', 'let mut ranges: Vec<Range> = Vec::new();', expect=1))
    guarded(u, 'types::SourceMap::adjust_mappings::create_ranges',
            lambda: u.get_fn(T, 'create_ranges', impl=r'SourceMap\b', outer='adjust_mappings'), prep, wrap=lambda: None)

    # the sweep itself: adjust_mappings without its two nested items (emitted above)
    emit_struct(u, T, 'SourceMap')
    u.spec('tokens.rs')
    u.prelude('shim_mem.rs')
    u.prelude('shim_sliceiter.rs')
    u.spec('adjust.rs')

    def prep_sweep(f):
        # R-unnest: the nested struct and fn are cut out of the body (they are items of their own above)
        cut_nested_item(f, r'struct Range\b')
        cut_nested_item(f, r'fn create_ranges\b')
        u.count('R-unnest', 2)
        n = f.rewrite(r'std::mem::take\(&mut self\.tokens\)', 'verif_mem_take_vec(&mut self.tokens)', expect=1)
        n += f.rewrite(r'\badjustment\.tokens\.clone\(\)', 'verif_clone_tokens(&adjustment.tokens)', expect=1)
        n += f.rewrite(r'\boriginal_ranges\.iter\(\)', 'verif_slice_iter(&original_ranges)', expect=1)
        n += f.rewrite(r'std::cmp::max\(', 'verif_max_pos(', expect=1)
        n += f.rewrite(r'self\.tokens\s*\.sort_unstable_by_key\(', 'verif_sort_unstable_by_key(&mut self.tokens, ', expect=1)
        u.count('R-shim-call', n)
        # R-for-slice: `'l: for &x in &v {` is `let mut v__it = v.iter(); 'l: while let Some(x__r) = v__it.next() { let x = *x__r;`
        # (the definition of `for` over `&Vec`; Verus cannot carry a labelled break out of a nested loop through its `for` encoding)
        u.count('R-for-slice', f.rewrite(r"(?m)^([ \t]*)('[a-z_]+: )?for &([a-z_]+) in &([a-z_]+) \{",
                                         r"\1let mut \4__it = verif_slice_iter(&\4);\n\1\2while let Some(\3__r) = \4__it.next() { let \3 = *\3__r;", expect=1))
        u.count('R-closure', f.annotate_closure('t', 't: &RawToken', '(r: (u32, u32)) ensures r == ($BODY)', expect=3))
    emit_method(u, T, r'SourceMap\b', 'adjust_mappings', 'types::SourceMap::adjust_mappings', prep=prep_sweep)


def cut_nested_item(f, header_rx):
    """Remove one nested item (with the attributes and comment lines directly above it) from a function's text."""
    from vx.rs import match_close
    m = re.search(header_rx, f.mask[f.body_open:f.body_close])
    if not m:
        raise LostAnchor('%s: nested item %s not found' % (f.name, header_rx))
    a = f.body_open + m.start()
    o = f.mask.index('{', a)
    e = match_close(f.mask, o) + 1
    # back to the start of the line, then over attribute / comment lines directly above
    a = f.text.rfind('\n', 0, a) + 1
    while True:
        p = f.text.rfind('\n', 0, a - 1) + 1
        ln = f.text[p:a].strip()
        if ln.startswith('#[') or ln.startswith('//'):
            a = p
        else:
            break
    f.text = f.text[:a] + f.text[e:]
    f._rescan()
