"""U12 -- SourceMap::rewrite_with_mapping (in-memory options incl. prefix stripping; not the "~" common prefix, not local files)"""
import re
from .common import emit_struct, emit_method, import_method, emit_error_enum, refpat_for
from .u5_encode import common_types
from .u6_builder import emit_builder_struct

NAME = 'u12_rewrite'
PROPS = ['C09', 'C05', 'C04']
T = 'src/types.rs'
B = 'src/builder.rs'

MUTANTS = [
    ('types::SourceMap::rewrite_with_mapping', r'builder\.strip_prefixes\(&prefixes\);', ''),
    ('types::SourceMap::rewrite_with_mapping', r'prefixes\.push\(prefix\.to_string\(\)\);', 'if prefixes.is_empty() { prefixes.push(prefix.to_string()); }'),
    ('types::SourceMap::rewrite_with_mapping', r'if need_common_prefix \{', 'if !need_common_prefix {'),
    ('types::SourceMap::rewrite_with_mapping', r'self\.get_source_contents\(token\.get_src_id\(\)\)', 'self.get_source_contents(raw.src_id)'),
    ('types::SourceMap::rewrite_with_mapping', r'builder\.add_token\(&token, options\.with_names\)', 'builder.add_token(&token, true)'),
]


def build(u):
    u.use_overlay('u12_rewrite.ctr')
    common_types(u)
    u.prelude('common.rs')
    emit_error_enum(u)
    u.raw('stub Path', '//@@ prelude path_stub\n//# assumes: std::path::Path is replaced by an opaque local type (it is only passed through to the filesystem option the contract excludes)\n#[verifier::external_body]\npub struct Path { _x: u8 }\n//@@ endprelude\n')
    u.count('R-stub-type')
    text, origin = u.get_item_text(T, r'(?m)^pub struct RewriteOptions\b', 'struct RewriteOptions')
    text = re.sub(r'(?m)^\s*#\[[^\]]*\]\n', '', text)
    text = re.sub(r'(?m)^\s*//[^\n]*\n', '', text)
    u.count('R-attr')
    u.emit_text('types::RewriteOptions', text, origin)
    emit_builder_struct(u)
    u.spec('builder.rs')
    u.spec('rewrite.rs')
    IMPL = r'SourceMapBuilder\b'
    from .common import fxhashmap, mono, str_shims
    def bprep(f):
        f.text = fxhashmap(f.text, u); f._rescan()
    for g in ['new', 'set_debug_id', 'add_token', 'has_source_contents', 'set_source_contents', 'take_mapping', 'into_sourcemap']:
        import_method(u, B, IMPL, g, 'builder::SourceMapBuilder::' + g, 'u6_builder.ctr', 'u6_builder', prep=bprep)
    u.spec('strip.rs')
    u.spec('rewrite_post.rs')
    u.prelude('shim_strip.rs')
    f = u.get_fn(B, 'strip_prefixes', impl=IMPL)
    mono(f, u, 'S', r'AsRef<str>', 'String')
    from .common import impl_header
    u.import_fn(f, 'builder::SourceMapBuilder::strip_prefixes', 'u6_builder.ctr', 'u6_builder', wrap=(impl_header(u, B, IMPL, 'strip_prefixes'), '}'))
    for g in ['get_file', 'get_source_contents']:
        import_method(u, T, r'SourceMap\b', g, 'types::SourceMap::' + g, 'u6_root.ctr', 'u6_root')
    u.raw('stub fs / prefixes', '''//@@ prelude rewrite_stubs
//# assumes: nothing about load_local_source_contents / find_common_prefix: the contract of rewrite_with_mapping excludes the options that reach them (local files, the \"~\" prefix)
impl SourceMapBuilder {
    #[verifier::external_body]
    pub fn load_local_source_contents(&mut self, base_path: Option<&Path>) -> Result<usize> { unimplemented!() }
}
#[verifier::external_body]
pub fn verif_find_common_prefix(sources: &Vec<Arc<str>>) -> Option<String> { unimplemented!() }
#[verifier::external_body]
pub fn verif_str_eq(a: &str, b: &str) -> (r: bool) ensures r == (a@ == b@) { a == b }
//@@ endprelude
''')

    def prep(f):
        n = f.rewrite(r'(?m)^\s*#\[cfg\(any\(unix, windows, target_os = "redox"\)\)\]\n', '')
        u.count('R-attr', n)
        refpat_for(f, u)
        u.count('R-shim-call', f.rewrite(r'find_common_prefix\(self\.sources\.iter\(\)\.map\(AsRef::as_ref\)\)', 'verif_find_common_prefix(&self.sources)', expect=1))
        u.count('R-shim-call', f.rewrite(r'\bprefix == "~"', 'verif_str_eq(prefix, "~")', expect=1))
        # R-type-annot: ghost code in the invariant needs the element type before rustc has inferred it
        u.count('R-type-annot', f.rewrite(r'let mut prefixes = vec!\[\];', 'let mut prefixes: Vec<String> = vec![];', expect=1))
    emit_method(u, T, r'SourceMap\b', 'rewrite_with_mapping', 'types::SourceMap::rewrite_with_mapping', prep=prep)

    # the public entry point: the map of rewrite_with_mapping, the mapping dropped
    emit_method(u, T, r'SourceMap\b', 'rewrite', 'types::SourceMap::rewrite')
