"""U13 -- SourceMapIndex::flatten (src/types.rs) against the C08 statement, with the section iterator it runs on"""
import re
from .common import emit_struct, emit_method, import_method, emit_error_enum, inspect_to_if
from .u5_encode import common_types
from .u6_builder import emit_builder_struct

NAME = 'u13_flatten'
PROPS = ['C08', 'C05', 'C04', 'C09']
T = 'src/types.rs'
B = 'src/builder.rs'
H = 'src/hermes.rs'

MUTANTS = [
    ('types::SourceMapIndex::flatten', r'if token\.get_dst_line\(\) == 0 \{', 'if token.get_dst_line() == off_line {'),
    ('types::SourceMapIndex::flatten', r'map\.get_source_contents\(token\.get_src_id\(\)\)', 'map.get_source_contents(raw.src_id)'),
    ('types::SourceMapIndex::flatten', r'!builder\.has_source_contents\(raw\.src_id\)', 'builder.has_source_contents(raw.src_id)'),
    ('types::SourceMapIndex::flatten', r'token\.get_dst_line\(\)\.checked_add\(off_line\)', 'token.get_dst_line().checked_add(off_col)'),
    ('types::SourceMapSectionIter::next', r'self\.next_idx \+= 1', 'self.next_idx += 2'),
]


def drop_error_messages(f, u):
    """R-fmt-msg: `format!(...)` used as an error message -> verif_error_message(): the text of error messages is
    not modelled and the evaluation of its arguments (getters) is dropped."""
    n = 0
    while True:
        m = re.search(r'format!\(', f.text)
        if not m:
            break
        from vx.rs import match_close, mask
        msk = mask(f.text)
        if msk[m.start():m.end()] != f.text[m.start():m.end()]:
            break
        close = match_close(msk, m.end() - 1, '(', ')')
        f.text = f.text[:m.start()] + 'verif_error_message()' + f.text[close + 1:]
        f._rescan()
        n += 1
    u.count('R-fmt-msg', n)
    return n


def build(u):
    u.use_overlay('u13_flatten.ctr')
    common_types(u)
    u.use('use std::borrow::Cow;')
    u.prelude('common.rs')
    u.prelude('shim_slice.rs')
    u.prelude('shim_box.rs')
    emit_error_enum(u)
    emit_builder_struct(u)
    emit_struct(u, H, 'HermesScopeOffset')
    emit_struct(u, H, 'HermesFunctionMap')
    u.raw('stub FacebookSources', '//@@ prelude facebook_sources_stub\n//# assumes: jsontypes::FacebookSources is an opaque payload here\n#[verifier::external_body]\npub struct FacebookSources { _x: u8 }\n//@@ endprelude\n')
    emit_struct(u, H, 'SourceMapHermes')
    emit_struct(u, T, 'SourceMapSection')
    emit_struct(u, T, 'SourceMapIndex')
    text, origin = u.get_item_text(T, r'(?m)^pub enum DecodedMap\b', 'enum DecodedMap')
    text = re.sub(r'(?m)^#\[derive\([^\]]*\)\]\n', '', text)
    text = re.sub(r'(?m)^\s*//[/!][^\n]*\n', '', text)
    u.count('R-derive')
    u.emit_text('types::DecodedMap', text, origin)
    # the section iterator keeps its private fields: it carries a type invariant (spec/section_iter.rs)
    emit_struct(u, T, 'SourceMapSectionIter', keep_vis=True)
    u.prelude('shim_cow.rs')
    u.spec('builder.rs')
    u.spec('rewrite.rs')
    u.spec('section_iter.rs')
    u.spec('flatten.rs')
    u.spec('index.rs')
    u.spec('sm_lookup.rs')
    u.spec('index_lookup.rs')
    u.spec('agreement.rs')
    IMPL = r'SourceMapBuilder\b'
    from .common import fxhashmap
    def bprep(f):
        f.text = fxhashmap(f.text, u); f._rescan()
    for g in ['new', 'add', 'has_source_contents', 'set_source_contents', 'add_to_ignore_list', 'into_sourcemap']:
        import_method(u, B, IMPL, g, 'builder::SourceMapBuilder::' + g, 'u6_builder.ctr', 'u6_builder', prep=bprep)
    import_method(u, T, r'SourceMap\b', 'get_source_contents', 'types::SourceMap::get_source_contents', 'u6_root.ctr', 'u6_root')
    import_method(u, T, r"<'a> Token<'a>", 'get_source', 'types::Token::get_source', 'u6_root.ctr', 'u6_root')
    for g in ['get_offset', 'get_sourcemap']:
        import_method(u, T, r'SourceMapSection\b', g, 'types::SourceMapSection::' + g, 'u7_index.ctr', 'u7_index',
                      prep=lambda f: f.rewrite(r'\bBox::as_ref\b', 'verif_box_as_ref'))
    import_method(u, T, r'SourceMapIndex\b', 'get_section', 'types::SourceMapIndex::get_section', 'u7_index.ctr', 'u7_index')

    def prep_get_file(f):
        u.count('R-shim-call', f.rewrite(r'&x\[\.\.\]', 'x.as_str()', expect=1))
        u.count('R-closure', f.annotate_closure('x', 'x: &String', '(o: &str) ensures o@ == x@', expect=1))
    emit_method(u, T, r'SourceMapIndex\b', 'get_file', 'types::SourceMapIndex::get_file', prep=prep_get_file)
    emit_method(u, T, r'SourceMapIndex\b', 'sections', 'types::SourceMapIndex::sections')
    emit_method(u, T, r"<'a> Iterator for SourceMapSectionIter<'a>", 'next', 'types::SourceMapSectionIter::next',
                prep=lambda f: inspect_to_if(f, u))

    def prep(f):
        drop_error_messages(f, u)
        # R-let-tail: name the value of the tail expression so that the closing proof can talk about it
        u.count('R-let-tail', f.rewrite(r'(?m)^(\s*)Ok\(builder\.into_sourcemap\(\)\)', r'\1let out__ = builder.into_sourcemap();\n\1Ok(out__)', expect=1))
    emit_method(u, T, r'SourceMapIndex\b', 'flatten', 'types::SourceMapIndex::flatten', prep=prep)

    # flatten_and_rewrite: the composition of the two proved functions
    u.raw('stub Path', '//@@ prelude path_stub\n//# assumes: std::path::Path is replaced by an opaque local type (only passed through to the filesystem option the contract excludes)\n#[verifier::external_body]\npub struct Path { _x: u8 }\n//@@ endprelude\n')
    text, origin = u.get_item_text(T, r'(?m)^pub struct RewriteOptions\b', 'struct RewriteOptions')
    text = re.sub(r'(?m)^\s*#\[[^\]]*\]\n', '', text)
    text = re.sub(r'(?m)^\s*//[^\n]*\n', '', text)
    u.count('R-attr')
    u.emit_text('types::RewriteOptions', text, origin)
    u.spec('strip.rs')
    u.spec('rewrite_post.rs')
    import_method(u, T, r'SourceMap\b', 'rewrite', 'types::SourceMap::rewrite', 'u12_rewrite.ctr', 'u12_rewrite')
    emit_method(u, T, r'SourceMapIndex\b', 'flatten_and_rewrite', 'types::SourceMapIndex::flatten_and_rewrite')
