"""U14 -- indexed RAM bundles (src/ram_bundle.rs, feature ram_bundle): header / table parsing against the byte layout"""
import re
from .common import emit_struct, emit_method, emit_free_fn, emit_error_enum
from .u6_root import prelude_types

NAME = 'u14_rambundle'
PROPS = ['C20', 'C05']
R = 'src/ram_bundle.rs'

MUTANTS = [
    ('ram_bundle::IndexedRamBundle::get_module', r'if id >= self\.module_count', 'if id > self.module_count'),
    ('ram_bundle::IndexedRamBundle::get_module', r'\(module_entry\.length - 1\) as usize', '(module_entry.length) as usize'),
    ('ram_bundle::IndexedRamBundle::get_module', r'self\.startup_code_offset \+ module_entry\.offset as usize', 'module_entry.offset as usize'),
    ('ram_bundle::IndexedRamBundle::parse', r'module_count \* std::mem::size_of::<ModuleEntry>\(\)', 'module_count * std::mem::size_of::<RamBundleHeader>()'),
    ('ram_bundle::ModuleEntry::is_empty', r'self\.offset == 0 && self\.length == 0', 'self.length == 0'),
    ('ram_bundle::RamBundleModuleIter::next', r'Ok\(None\) => continue', 'Ok(None) => return None'),
    ('ram_bundle::RamBundle::iter_modules', r'range: 0\.\.self\.module_count\(\)', 'range: 1..self.module_count()'),
]


def pread_shims(f, u):
    n = 0
    n += f.rewrite(r'\bbytes\s*\.pread_with::<RamBundleHeader>\(0, scroll::LE\)', 'verif_pread_header(verif_cow_bytes(&bytes), 0)')
    n += f.rewrite(r'\bslice\s*\.pread_with::<RamBundleHeader>\(0, scroll::LE\)', 'verif_pread_header(slice, 0)')
    n += f.rewrite(r'\bself\s*\.bytes\s*\.pread_with::<ModuleEntry>\(entry_offset, scroll::LE\)', 'verif_pread_entry(verif_cow_bytes(&self.bytes), entry_offset)')
    n += f.rewrite(r'\bself\s*\.bytes\s*\.pread_with\(module_global_offset, module_length\)', 'verif_pread_bytes(verif_cow_bytes(&self.bytes), module_global_offset, module_length)')
    n += f.rewrite(r'\bself\s*\.bytes\s*\.pread_with\(self\.startup_code_offset, self\.startup_code_size\)\s*\.map_err\(Error::Scroll\)',
                   'verif_pread_bytes(verif_cow_bytes(&self.bytes), self.startup_code_offset, self.startup_code_size)')
    u.count('R-shim-call', n)
    if 'pread_with' in f.text:
        from vx.rs import LostAnchor
        raise LostAnchor('a pread_with call has no shim')
    return n


def build(u):
    u.use_overlay('u14_rambundle.ctr')
    prelude_types(u)
    u.use('use std::borrow::Cow;')
    u.use('use vstd::layout::*;')
    u.use('use std::ops::Range;')
    u.prelude('common.rs')
    emit_error_enum(u, ram_bundle=True)
    text, origin = u.get_item_text(R, r'(?m)^pub const RAM_BUNDLE_MAGIC\b', 'const RAM_BUNDLE_MAGIC', semi=True)
    text = re.sub(r'(?m)^\s*///[^\n]*\n', '', text)
    u.emit_text('ram_bundle::RAM_BUNDLE_MAGIC', text, origin)
    for s in ['RamBundleHeader', 'ModuleEntry']:
        # derive(Debug, Pread, Clone, Copy) -> Clone, Copy (Pread is behind the assumed shims); repr(C, packed) kept
        text, origin = u.get_item_text(R, r'(?m)^(?:pub )?struct %s\b' % s, 'struct ' + s)
        text = re.sub(r'#\[derive\([^\]]*\)\]', '#[derive(Clone, Copy)]', text)
        text = re.sub(r'(?m)^\s*///[^\n]*\n', '', text)
        text = re.sub(r'(?m)^(?:pub )?struct ', 'pub struct ', text)
        text = re.sub(r'(?m)^(\s+)(?:pub )?([a-z_][a-z0-9_]*: )', r'\1pub \2', text)
        u.count('R-derive'); u.count('R-vis')
        u.emit_text('ram_bundle::' + s, text, origin)
    emit_struct(u, R, 'RamBundleModule')
    emit_struct(u, R, 'IndexedRamBundle')
    u.raw('stub UnbundleRamBundle', '''//@@ prelude unbundle_stub
//# assumes: nothing about the file-based (unbundle) variant: its type and three accessors are opaque here
#[verifier::external_body]
pub struct UnbundleRamBundle { _x: u8 }
impl UnbundleRamBundle {
    #[verifier::external_body]
    pub fn get_module(&self, id: usize) -> Result<Option<RamBundleModule>> { unimplemented!() }
    #[verifier::external_body]
    pub fn module_count(&self) -> usize { unimplemented!() }
    #[verifier::external_body]
    pub fn startup_code(&self) -> Result<&[u8]> { unimplemented!() }
}
//@@ endprelude
''')
    emit_struct(u, R, 'RamBundleImpl', kind='enum')
    emit_struct(u, R, 'RamBundle')
    emit_struct(u, R, 'RamBundleModuleIter')
    u.prelude('shim_scroll.rs')
    u.spec('rambundle.rs')
    emit_method(u, R, r'RamBundleHeader\b', 'is_valid_magic', 'ram_bundle::RamBundleHeader::is_valid_magic')
    emit_method(u, R, r'ModuleEntry\b', 'is_empty', 'ram_bundle::ModuleEntry::is_empty')
    for g in ['id', 'data']:
        emit_method(u, R, r"<'a> RamBundleModule<'a>", g, 'ram_bundle::RamBundleModule::' + g)
    for g in ['parse', 'module_count', 'startup_code', 'get_module']:
        emit_method(u, R, r"<'a> IndexedRamBundle<'a>", g, 'ram_bundle::IndexedRamBundle::' + g, prep=lambda f: pread_shims(f, u))
    for g in ['parse_indexed_from_slice', 'parse_indexed_from_vec', 'get_module', 'module_count', 'startup_code']:
        emit_method(u, R, r"<'a> RamBundle<'a>", g, 'ram_bundle::RamBundle::' + g)
    emit_method(u, R, r"<'a> RamBundle<'a>", 'iter_modules', 'ram_bundle::RamBundle::iter_modules')

    # R-trait-inherent: Iterator::next of RamBundleModuleIter is emitted as an inherent method so that it can carry a
    # contract (Verus allows no clauses of its own on an impl of an external trait); R-for-byref: `for x in it.by_ref()`
    # is `while let Some(x) = it.next()` by the definition of `for` over `&mut I`
    def prep_next(f):
        u.count('R-for-byref', f.rewrite(r'for next_id in self\.range\.by_ref\(\) \{', 'while let Some(next_id) = self.range.next() {', expect=1))
        u.count('R-trait-inherent')
    from .common import guarded
    guarded(u, 'ram_bundle::RamBundleModuleIter::next', lambda: u.get_fn(R, 'next', impl=r"<'a> Iterator for RamBundleModuleIter<'a>"), prep_next,
            wrap=lambda: ("impl<'a> RamBundleModuleIter<'a> {", '}'),
            sig_prep=lambda f: f.rewrite(r'Option<Self::Item>', "Option<Result<RamBundleModule<'a>>>", expect=1))

    def prep_is(f):
        pread_shims(f, u)
        u.count('R-closure', f.annotate_closure('x', 'x: RamBundleHeader', '(b: bool) ensures b == (x.magic == RAM_BUNDLE_MAGIC)', expect=1))
        # `.ok().is_some_and(c)` on the header read -> verif_is_some_and(<read>.ok(), c)
        u.count('R-shim-call', f.rewrite(r'(?s)(verif_pread_header\(slice, 0\)\s*\.ok\(\))\s*\.is_some_and\((.*)\)\s*\}\s*$', r'verif_is_some_and(\1, \2)\n}', expect=1))
    emit_free_fn(u, R, 'is_ram_bundle_slice', 'ram_bundle::is_ram_bundle_slice', prep=prep_is)
