"""U15 -- spec-level round trip of the "mappings" string: the reference reader (spec/mappings_dec.rs, which u4_decode proves the
decoder loop equal to) inverts the reference writer (spec/mappings_enc.rs, which u5_encode proves serialize_mappings equal to)"""
from .common import emit_struct

NAME = 'u15_inverse'
PROPS = ['C01', 'C03', 'C07']
T = 'src/types.rs'
MUTANTS = []


def build(u):
    u.use_overlay('u15_inverse.ctr')
    u.use('use vstd::std_specs::cmp::*;')
    u.use('use std::cmp::Ordering;')
    u.prelude('shim_str_bytes.rs')
    u.prelude('shim_split.rs')
    u.prelude('bitvec_stub.rs')
    emit_struct(u, T, 'RawToken', keep_derive=True)
    u.prelude('derive_eq_rawtoken.rs')
    u.spec('order.rs')
    u.spec('tokens.rs')
    u.spec('vlq.rs')
    u.spec('mappings.rs')
    u.spec('bits.rs')
    u.spec('mappings_enc.rs')
    u.spec('mappings_dec.rs')
    u.spec('mappings_inverse.rs')
    u.spec('rmi_enc.rs')
    u.spec('rmi_inverse.rs')
    u.spec('rmi_roundtrip.rs')
