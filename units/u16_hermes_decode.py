"""U16 -- Hermes function-map decoding: the body of the closure in decode_hermes (src/hermes.rs) against an independent
reading of Metro's format"""
import re
from vx.rs import Fn, LostAnchor, mask, match_close
from .common import emit_struct, emit_error_enum, guarded

NAME = 'u16_hermes_decode'
PROPS = ['C14', 'C05']
H = 'src/hermes.rs'

MUTANTS = [
    ('hermes::decode_hermes__function_map', r'let mut line = 1;', 'let mut line = 0;'),
    ('hermes::decode_hermes__function_map', r'name_index = \(i64::from\(name_index\) \+ nums\.next\(\)\.unwrap_or\(0\)\) as u32;', 'name_index = nums.next().unwrap_or(0) as u32;'),
    ('hermes::decode_hermes__function_map', r'let mut column = 0;\n', 'let mut column = 0; line += 1;\n'),
]

SIG = "pub fn decode_hermes__function_map(raw_mappings: &str) -> Option<Vec<HermesScopeOffset>> {\n"
# statements of the closure that are not part of the outlined function; each is checked to be textually unchanged
DROPPED_HEAD = 'let FacebookScopeMapping { names, mappings: raw_mappings, } = v.as_ref()?.iter().next()?;'
DROPPED_TAIL = 'Some(HermesFunctionMap { names: names.clone(), mappings, })'
NUMS_DECL = 'let mut nums = Vec::with_capacity(4);'


def outline_function_map(u):
    """R-outline (closure): the body of the closure `|v| { .. }` passed to `map` in decode_hermes, from `let mut mappings`
    to the end of its loop, verbatim, as a function of its one free variable `raw_mappings`; the scratch vector `nums`
    declared just before the closure in decode_hermes becomes the function's first statement.  Dropped (checked textually):
    the destructuring of the first scope mapping of a non-null entry, and the final `Some(HermesFunctionMap { names, mappings })`
    (the function returns `Some(mappings)`)."""
    f = u.get_fn(H, 'decode_hermes')
    t = f.text
    m = re.search(r'\.map\(\|v\| \{', t)
    if not m:
        raise LostAnchor('decode_hermes: closure `.map(|v| {` not found')
    msk = mask(t)
    close = match_close(msk, m.end() - 1)
    body = t[m.end():close]
    if ' '.join(NUMS_DECL.split()) not in ' '.join(t[:m.start()].split()):
        raise LostAnchor('decode_hermes: scratch vector declaration changed')
    i = body.find('let mut mappings')
    j = body.rfind('Some(HermesFunctionMap')
    if i < 0 or j < 0:
        raise LostAnchor('decode_hermes: closure shape changed')
    head = ' '.join(body[:i].split())
    tail = ' '.join(body[j:].split())
    if head != DROPPED_HEAD:
        raise LostAnchor('decode_hermes: closure head changed: %s' % head)
    if tail != DROPPED_TAIL:
        raise LostAnchor('decode_hermes: closure tail changed: %s' % tail)
    core = body[i:j]
    lines = [l[8:] if l.startswith(' ' * 8) else l for l in core.splitlines()]
    text = SIG + '    let mut nums: Vec<i64> = Vec::with_capacity(4);\n' + '    ' + '\n'.join(lines).strip('\n') + '\n    Some(mappings)\n}\n'
    u.count('R-outline')
    return Fn(text, origin=f.origin, name='decode_hermes__function_map')


def build(u):
    u.use_overlay('u16_hermes_decode.ctr')
    u.prelude('common.rs')
    u.prelude('shim_str_bytes.rs')
    u.prelude('shim_int.rs')
    u.prelude('shim_split.rs')
    u.prelude('shim_copied.rs')
    emit_error_enum(u)
    emit_struct(u, H, 'HermesScopeOffset')
    u.spec('vlq.rs')
    u.spec('hermes_decode.rs')
    f = u.get_fn('src/vlq.rs', 'parse_vlq_segment_into')
    u.import_fn(f, 'vlq::parse_vlq_segment_into', 'u1_vlq.ctr', 'u1_vlq')

    def prep(g):
        u.count('R-shim-call', g.rewrite(r"\b([a-z_]+)\s*\.split\('(.)'\)", r"verif_split(\1, '\2')", expect=2))
        u.count('R-shim-call', g.rewrite(r'\b([a-z_]+)\.is_empty\(\)', r'verif_str_is_empty(\1)', expect=2))
        u.count('R-shim-call', g.rewrite(r'\bnums\.iter\(\)\.copied\(\)', 'verif_iter_copied(&nums)', expect=1))
        u.count('R-continue', g.guard_continues())
    guarded(u, 'hermes::decode_hermes__function_map', lambda: outline_function_map(u), prep, wrap=lambda: None)
