"""U16 -- decode_hermes (src/hermes.rs): the closure that reads one function map, lifted to a function (R-lift), against an
independent reading of Metro's format; and decode_hermes around it"""
import re
from vx.rs import Fn, LostAnchor, mask, match_close
from .common import emit_struct, emit_error_enum, guarded
from .u9_dispatch import emit_json_struct
from .u6_root import prelude_types

NAME = 'u16_hermes_decode'
PROPS = ['C14', 'C05', 'C02', 'C01', 'C06']
H = 'src/hermes.rs'
T = 'src/types.rs'
J = 'src/jsontypes.rs'

MUTANTS = [
    ('hermes::decode_hermes__function_map', r'let mut line = 1;', 'let mut line = 0;'),
    ('hermes::decode_hermes__function_map', r'name_index = \(i64::from\(name_index\) \+ nums\.next\(\)\.unwrap_or\(0\)\) as u32;', 'name_index = nums.next().unwrap_or(0) as u32;'),
    ('hermes::decode_hermes__function_map', r'let mut column = 0;\n', 'let mut column = 0; line += 1;\n'),
    ('hermes::decode_hermes__function_map', r'nums\.clear\(\);\n', '\n'),
    ('hermes::decode_hermes__function_map', r'names: names\.clone\(\),', 'names: Vec::new(),'),
    ('hermes::decode_hermes', r'raw_facebook_sources: Some\(x_facebook_sources\),', 'raw_facebook_sources: None,'),
    ('hermes::decode_hermes', r'let sm = decode_regular\(rsm\)\?;', 'let sm = decode_regular(rsm)?; function_maps.pop();'),
]

SIG = "pub fn decode_hermes__function_map(v: &Option<Vec<FacebookScopeMapping>>, nums: &mut Vec<i64>) -> Option<HermesFunctionMap> {\n"
NUMS_DECL = 'let mut nums = Vec::with_capacity(4);'
CLOSURE_RX = r'\.map\(\|v\| \{'


def closure_span(f):
    t = f.text
    m = re.search(CLOSURE_RX, t)
    if not m:
        raise LostAnchor('decode_hermes: closure `.map(|v| {` not found')
    close = match_close(mask(t), m.end() - 1)
    return m, close


def lift_function_map(u):
    """R-lift (closure -> function): the closure `|v| { .. }` passed to `map` in decode_hermes becomes the function
    `decode_hermes__function_map(v, nums)`: its body verbatim, its one captured variable -- the scratch vector `nums`,
    captured by unique borrow -- becomes a `&mut Vec<i64>` parameter, so `&mut nums` / `nums.iter()` inside read
    `&mut *nums` / `(&*nums).iter()`.  `?` inside leaves the closure, hence the function, with None, as before."""
    f = u.get_fn(H, 'decode_hermes')
    t = f.text
    m, close = closure_span(f)
    body = t[m.end():close]
    if ' '.join(NUMS_DECL.split()) not in ' '.join(t[:m.start()].split()):
        raise LostAnchor('decode_hermes: scratch vector declaration changed')
    lines = [l[8:] if l.startswith(' ' * 8) else l for l in body.splitlines()]
    text = SIG + '    ' + '\n'.join(lines).strip('\n').strip() + '\n}\n'
    u.count('R-lift')
    g = Fn(text, origin=f.origin, name='decode_hermes__function_map')
    u.count('R-lift', g.rewrite(r'&mut nums\b', '&mut *nums', expect=1))
    return g


def wrapper(u):
    """decode_hermes itself, with the closure replaced by a call of the lifted function and
    R-map-collect: `let X = E.iter().map(|v| F(v)).collect();` -> `let mut X = Vec::new(); for v in E.iter() { X.push(F(v)); }`
    (map + collect into a Vec is the in-order loop of pushes)."""
    f = u.get_fn(H, 'decode_hermes')
    m, close = closure_span(f)
    t = f.text
    if not re.match(r'\)\s*\.collect\(\);', t[close + 1:]):
        raise LostAnchor('decode_hermes: `.collect();` after the closure not found')
    end = close + 1 + re.match(r'\)\s*\.collect\(\);', t[close + 1:]).end()
    head = re.search(r'let (\w+) = (\w+)\s*\.iter\(\)\s*$', t[:m.start()])
    if not head:
        raise LostAnchor('decode_hermes: `let X = E.iter().map(..)` not found')
    x, e = head.group(1), head.group(2)
    loop = 'let mut %s = Vec::new();\n    for v in %s.iter() {\n        %s.push(decode_hermes__function_map(v, &mut nums));\n    }' % (x, e, x)
    g = Fn(t[:head.start()] + loop + t[end:], origin=f.origin, name='decode_hermes')
    u.count('R-lift')
    u.count('R-map-collect')
    return g


def build(u):
    u.use_overlay('u16_hermes_decode.ctr')
    u.prelude('common.rs')
    u.prelude('shim_str_bytes.rs')
    u.prelude('shim_int.rs')
    u.prelude('shim_split.rs')
    u.prelude('shim_copied.rs')
    prelude_types(u)
    u.prelude('json_types_stub.rs')
    u.prelude('shim_string_bytes.rs')
    emit_error_enum(u)
    for n in ['RawSectionOffset', 'RawSection', 'FacebookScopeMapping', 'RawSourceMap']:
        emit_json_struct(u, n)
    text, origin = u.get_item_text(J, r'(?m)^pub type FacebookSources\b', 'type FacebookSources', semi=True)
    u.emit_text('jsontypes::FacebookSources', text, origin)
    emit_struct(u, T, 'RawToken', keep_derive=True)
    emit_struct(u, T, 'SourceMap')
    emit_struct(u, H, 'HermesScopeOffset')
    emit_struct(u, H, 'HermesFunctionMap')
    emit_struct(u, H, 'SourceMapHermes')
    u.spec('vlq.rs')
    u.spec('hermes_decode.rs')
    u.spec('hermes_wrap.rs')
    f = u.get_fn('src/vlq.rs', 'parse_vlq_segment_into')
    u.import_fn(f, 'vlq::parse_vlq_segment_into', 'u1_vlq.ctr', 'u1_vlq')

    def prep(g):
        u.count('R-shim-call', g.rewrite(r"\b([a-z_]+)\s*\.split\('(.)'\)", r"verif_split(\1, '\2')", expect=2))
        u.count('R-shim-call', g.rewrite(r'\b([a-z_]+)\.is_empty\(\)', r'verif_str_is_empty(\1)', expect=2))
        u.count('R-shim-call', g.rewrite(r'\bnums\.iter\(\)\.copied\(\)', 'verif_iter_copied(&*nums)', expect=1))
        u.count('R-continue', g.guard_continues())
    guarded(u, 'hermes::decode_hermes__function_map', lambda: lift_function_map(u), prep, wrap=lambda: None)

    # decode_regular: put together and proved in U10
    u.prelude('shim_option_or.rs')
    u.prelude('shim_enumerate.rs')
    u.prelude('bitvec_stub.rs')
    u.spec('order.rs')
    u.spec('tokens.rs')
    u.spec('root.rs')
    u.spec('mappings.rs')
    u.spec('bits.rs')
    u.spec('mappings_dec.rs')
    u.spec('decode_regular.rs')
    from .u10_tail import skeleton
    u.import_fn(skeleton(u), 'decoder::decode_regular', 'u10_tail.ctr', 'u10_tail')
    guarded(u, 'hermes::decode_hermes', lambda: wrapper(u), None, wrap=lambda: None)
