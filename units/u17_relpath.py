"""U17 -- utils::find_common_prefix_of_sorted_vec (src/utils.rs): the common-prefix helper under make_relative_path (C19)"""
from .common import emit_free_fn, refpat_for

NAME = 'u17_relpath'
PROPS = ['C19', 'C05']
U = 'src/utils.rs'

MUTANTS = [
    ('utils::make_relative_path', r'base_path\.len\(\) - prefix\)', 'base_path.len())'),
    ('utils::make_relative_path', r'&target_path\[prefix\.\.\]', '&target_path[..]'),
    ('utils::make_relative_path', r'base_path\.pop\(\);', ''),
    ('utils::make_relative_path', r'verif_repeat_collect\("\.\./"', 'verif_repeat_collect("./"'),
    ('utils::find_common_prefix_of_sorted_vec', r'seq_max_idx = Some\(idx\);', 'seq_max_idx = Some(idx + 1);'),
    ('utils::find_common_prefix_of_sorted_vec', r'break;', '{}'),
    ('utils::find_common_prefix_of_sorted_vec', r'verif_opt_lt\(seq_max_idx, max_idx\)', 'verif_opt_lt(max_idx, seq_max_idx)'),
]


def build(u):
    u.use_overlay('u17_relpath.ctr')
    u.use('use std::borrow::Cow;')
    u.prelude('shim_enumerate.rs')
    u.prelude('shim_relpath.rs')
    u.spec('relpath.rs')

    def prep(f):
        refpat_for(f, u)
        n = 0
        n += f.rewrite(r'&items\[0\]', 'verif_cow_strs(&items[0])', expect=1)
        n += f.rewrite(r'\.enumerate\(\)', '.verif_enumerate()', expect=1)
        n += f.rewrite(r'seq\.get\(idx\) != Some\(&comp\)', '!verif_opt_str_is(verif_cow_strs(seq).get(idx), comp)', expect=1)
        n += f.rewrite(r'seq_max_idx < max_idx', 'verif_opt_lt(seq_max_idx, max_idx)', expect=1)
        n += f.rewrite(r'&shortest\[\.\.=max_idx\]', 'verif_slice_to_incl(shortest, max_idx)', expect=1)
        u.count('R-shim-call', n)
        # R-type-annot: the element type of the two Option accumulators, needed by the ghost code before rustc has inferred it
        u.count('R-type-annot', f.rewrite(r'let mut max_idx = None;', 'let mut max_idx: Option<usize> = None;', expect=1))
        u.count('R-type-annot', f.rewrite(r'let mut seq_max_idx = None;', 'let mut seq_max_idx: Option<usize> = None;', expect=1))
    emit_free_fn(u, U, 'find_common_prefix_of_sorted_vec', 'utils::find_common_prefix_of_sorted_vec', prep=prep)

    def prep_rel(f):
        n = f.rewrite(r"\b(target|base)\s*\.split\(&\['/', '\\\\'\]\[\.\.\]\)\s*\.filter\(\|x\| !x\.is_empty\(\)\)\s*\.collect\(\)", r'verif_path_components(\1)', expect=2)
        n += f.rewrite(r'items\.sort_by_key\(\|x\| x\.len\(\)\);', 'verif_sort_by_len(&mut items);', expect=1)
        n += f.rewrite(r'find_common_prefix_of_sorted_vec\(&items\)\s*\.map\(\|x\| x\.len\(\)\)\s*\.unwrap_or\(0\)', 'verif_opt_slice_len_or0(find_common_prefix_of_sorted_vec(&items))', expect=1)
        n += f.rewrite(r'repeat\("\.\./"\)\.take\(base_path\.len\(\) - prefix\)\.collect\(\)', 'verif_repeat_collect("../", base_path.len() - prefix)', expect=1)
        n += f.rewrite(r'&target_path\[prefix\.\.\]\.join\("/"\)', '&verif_join(&target_path[prefix..], "/")', expect=1)
        n += f.rewrite(r'"\."\.into\(\)', 'verif_string_from(".")', expect=1)
        u.count('R-shim-call', n)
        for w in ('.split(', '.collect()', '.join(', '.sort_by_key(', '.into()'):
            if w in f.text:
                from vx.rs import LostAnchor
                raise LostAnchor('make_relative_path: a %s call has no shim' % w)
    emit_free_fn(u, U, 'make_relative_path', 'utils::make_relative_path', prep=prep_rel)
