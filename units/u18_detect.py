"""U18 -- detection and embedded maps (src/detector.rs): SourceMapRef::get_url / get_embedded_sourcemap, is_sourcemap_common (C18)"""
import re
from .common import emit_struct, emit_method, emit_free_fn, emit_error_enum, str_shims
from .u6_root import prelude_types

NAME = 'u18_detect'
PROPS = ['C18', 'C05']
D = 'src/detector.rs'

MUTANTS = [
    ('detector::locate_sourcemap_reference', r'if line\.verif_starts_with_str\("//@"\)', 'if line.verif_starts_with_str("//#")'),
    ('detector::locate_sourcemap_reference', r'verif_from_utf8_tail\(&line, 21\)', 'verif_from_utf8_tail(&line, 20)'),
    ('detector::locate_sourcemap_reference', r'return Ok\(Some\(SourceMapRef::Ref\(url\)\)\);', '{}'),
    ('detector::SourceMapRef::get_url', r'SourceMapRef::LegacyRef\(ref u\) => u\.as_str\(\)', 'SourceMapRef::LegacyRef(ref u) => ""'),
    ('detector::SourceMapRef::get_embedded_sourcemap', r'Ok\(None\)', 'Ok(Some(decode_data_url(url)?))'),
    ('detector::is_sourcemap_common', r'\|\| rsm\.sections\.is_some\(\)', ''),
    ('detector::is_sourcemap_common', r'rsm\.version\.is_some\(\) \|\| rsm\.file\.is_some\(\)', 'rsm.version.is_some() && rsm.file.is_some()'),
]


def build(u):
    u.use_overlay('u18_detect.ctr')
    prelude_types(u)
    u.prelude('common.rs')
    emit_error_enum(u)
    u.raw('stubs', '''//@@ prelude detect_stubs
//# assumes: serde::de::IgnoredAny is a unit marker; DecodedMap is opaque here; decode_data_url's result is named data_url_result (a naming, no property assumed)
#[verifier::external_body]
pub struct IgnoredAny { _x: u8 }
#[verifier::external_body]
pub struct DecodedMap { _x: u8 }
pub uninterp spec fn data_url_result(url: Seq<char>) -> Result<DecodedMap>;
#[verifier::external_body]
pub fn decode_data_url(url: &str) -> (r: Result<DecodedMap>)
    ensures r == data_url_result(url@)
{ unimplemented!() }
//@@ endprelude
''')
    text, origin = u.get_item_text(D, r'(?m)^pub enum SourceMapRef\b', 'enum SourceMapRef')
    text = re.sub(r'(?m)^#\[derive\([^\]]*\)\]\n', '', text)
    text = re.sub(r'(?m)^\s*//[/!][^\n]*\n', '', text)
    u.count('R-derive')
    u.emit_text('detector::SourceMapRef', text, origin)
    text, origin = u.get_item_text('src/jsontypes.rs', r'(?m)^pub struct MinimalRawSourceMap\b', 'struct MinimalRawSourceMap')
    text = re.sub(r'(?m)^\s*#\[[^\]]*\]\n', '', text)
    u.count('R-attr')
    u.emit_text('jsontypes::MinimalRawSourceMap', text, origin)
    # the crate's own conversions behind `?` (src/errors.rs), verbatim; FromSpecImpl is vstd's spec side of `From`
    u.use('use vstd::utf8::*;')
    u.use('use vstd::string::StringSliceAdditionalSpecFns;')
    u.use('use std::io::Read;')
    u.prelude('shim_chars.rs')
    u.prelude('io_read.rs')
    u.prelude('shim_lines.rs')
    for ty, var in [('io::Error', 'Io'), ('str::Utf8Error', 'Utf8')]:
        text, origin = u.get_item_text('src/errors.rs', r'(?m)^impl From<%s> for Error\b' % re.escape(ty), 'impl From<%s> for Error' % ty)
        text = text.replace('io::Error', 'std::io::Error').replace('str::Utf8Error', 'std::str::Utf8Error')
        u.emit_text('errors::From<%s>' % ty, text, origin)
        u.raw('fromspec ' + ty, '//@@ prelude fromspec_%s\nimpl vstd::std_specs::convert::FromSpecImpl<std::%s> for Error {\n    open spec fn obeys_from_spec() -> bool { true }\n    open spec fn from_spec(e: std::%s) -> Error { Error::%s(e) }\n}\n//@@ endprelude\n' % (var, ty, ty, var))
    u.spec('utf.rs')
    u.spec('detect_rule.rs')
    u.spec('detect.rs')
    emit_method(u, D, r'SourceMapRef\b', 'get_url', 'detector::SourceMapRef::get_url')
    emit_method(u, D, r'SourceMapRef\b', 'get_embedded_sourcemap', 'detector::SourceMapRef::get_embedded_sourcemap', prep=lambda f: str_shims(f, u))
    emit_free_fn(u, D, 'is_sourcemap_common', 'detector::is_sourcemap_common')

    def prep_locate(f):
        str_shims(f, u)
        n = f.rewrite(r'BufReader::new\(rdr\)\.lines\(\)', 'verif_buf_lines(rdr)', expect=1)
        n += f.rewrite(r'str::from_utf8\(&line\.as_bytes\(\)\[21\.\.\]\)', 'verif_from_utf8_tail(&line, 21)', expect=1)
        n += f.rewrite(r'\.trim\(\)', '.verif_trim()', expect=1)
        n += f.rewrite(r'\.to_owned\(\)', '.verif_to_owned()', expect=1)
        u.count('R-shim-call', n)
    emit_free_fn(u, D, 'locate_sourcemap_reference', 'detector::locate_sourcemap_reference', prep=prep_locate)
    emit_free_fn(u, D, 'locate_sourcemap_reference_slice', 'detector::locate_sourcemap_reference_slice')
