"""U19 -- SourceView (src/sourceview.rs): get_line (lazily built line index), line_count, Lines::next, lines, get_line_slice,
read sequentially (R-seq): the Mutex / AtomicUsize cells become plain cells reached through `&mut self` (C15; C16 stays not applicable)"""
import re
from vx.rs import Fn, LostAnchor, mask, match_close
from .common import emit_method, guarded

NAME = 'u19_sourceview'
PROPS = ['C15', 'C05', 'C18']
S = 'src/sourceview.rs'

MUTANTS = [
    ('sourceview::SourceView::get_line', r'rest\.get\(idx \+ 1\)', 'rest.get(idx + 2)'),
    ('sourceview::SourceView::get_line', r'fetch_add\(idx \+ 1,', 'fetch_add(idx,'),
    ('sourceview::SourceView::get_line', r"x == b'\\n' \|\| x == b'\\r'", r"x == b'\\n'"),
    ('sourceview::SourceView::get_line', r'> verif_arc_len\(&self\.source\)', '>= verif_arc_len(&self.source)'),
    ('sourceview::SourceView::get_line_slice__body', r'if idx >= end_col \{', 'if idx > end_col {'),
    ('sourceview::SourceView::get_line_slice__body', r'if idx < end_col \{', 'if idx <= end_col {'),
    ('sourceview::Lines::next', r'self\.idx \+= 1;', 'self.idx += 2;'),
]

UNSAFE_RX = r'unsafe\s*\{\s*str::from_utf8_unchecked\(slice::from_raw_parts\(rv\.as_ptr\(\), rv\.len\(\)\)\)\s*\}'


def seq_sig(f, u, ret_lifetime=True):
    """R-seq: `&self` -> `&mut self`; a borrowed result gets a lifetime of its own (`Option<&str>` -> `Option<&'r str>`): in the
    crate it is tied to `&self`, here the cached lines are `&'static str` (the crate's unsafe lifetime extension) so the body
    type-checks for any result lifetime; lifetimes do not influence what is computed."""
    n = f.rewrite(r'\(&self\b', '(&mut self', expect=1)
    if ret_lifetime:
        n += f.rewrite(r'\bfn ([a-z_]+)\(&mut self', r"fn \1<'r>(&mut self", expect=1)
        n += f.rewrite(r'-> Option<&str>', "-> Option<&'r str>", expect=1)
    u.count('R-seq', n)


def prep_get_line(f, u):
    n = 0
    n += f.rewrite(r'self\.source\.len\(\)', 'verif_arc_len(&self.source)', expect=1)
    n += f.rewrite(r'self\.source\.as_bytes\(\)', 'verif_arc_as_bytes(&self.source)', expect=1)
    n += f.rewrite(r'rest\.iter\(\)\.position\(', 'verif_position_u8(rest, ', expect=1)
    n += f.rewrite(r"rest\.get\(idx \+ 1\) == Some\(&b'\\n'\)", r"verif_opt_u8_is(rest.get(idx + 1), b'\\n')", expect=1)
    u.count('R-shim-call', n)
    k = f.rewrite(UNSAFE_RX, 'verif_static_str_of(rv)', expect=1)
    if 'unsafe' in f.text:
        raise LostAnchor('get_line: an unsafe block has no shim')
    u.count('R-unsafe', k)
    u.count('R-closure', f.annotate_closure('&x', 'x__r: &u8', '(r: bool) ensures r == (*x__r == 10 || *x__r == 13)', expect=1, first_stmt='let x = *x__r; '))
    u.count('R-refpat', f.rewrite(r'if let Some\(&line\) = lines\.get\(idx\) \{', 'if let Some(line__r) = lines.get(idx) { let line = *line__r;', expect=1))


def outline_slice_body(u):
    """R-outline (closure): the body of the closure `|line| { .. }` that get_line_slice passes to `and_then`, verbatim, as a
    function of its parameter and its two captured (Copy) variables."""
    f = u.get_fn(S, 'get_line_slice', impl=r'SourceView\b')
    t = f.text
    m = re.search(r'self\.get_line\(line\)\.and_then\(\|line\| \{', t)
    if not m:
        raise LostAnchor('get_line_slice: `self.get_line(line).and_then(|line| {` not found')
    msk = mask(t)
    close = match_close(msk, m.end() - 1)
    if ''.join(t[close + 1:].split()) != ')}':
        raise LostAnchor('get_line_slice: something follows the closure')
    body = t[m.end():close]
    text = "pub fn get_line_slice__body<'a>(line: &'a str, col: u32, span: u32) -> Option<&'a str> {" + body + '}\n'
    u.count('R-outline')
    return Fn(text, origin=f.origin, name='get_line_slice__body')


def prep_slice_body(g, u):
    n = 0
    n += g.rewrite(r'line\.chars\(\)\.peekable\(\)', 'verif_chars_peekable(line)', expect=1)
    n += g.rewrite(r'char_iter\.peek\(\)', 'char_iter.verif_peek()', expect=1)
    n += g.rewrite(r'\bc\.len_utf16\(\)', 'verif_len_utf16(c)', expect=2)
    n += g.rewrite(r'line\.get\(off\.\.off_end\)', 'verif_str_get_range(line, off, off_end)', expect=1)
    u.count('R-shim-call', n)
    u.count('R-refpat', g.rewrite(r'while let Some\(&c\) = (char_iter\.verif_peek\(\)) \{', r'while let Some(c__r) = \1 { let c = *c__r;', expect=1))


def prep_slice_wrapper(f, u):
    t = f.text
    m = re.search(r'self\.get_line\(line\)\.and_then\(\|line\| \{', t)
    if not m:
        raise LostAnchor('get_line_slice: closure not found')
    close = match_close(mask(t), m.end() - 1)
    # R-outline, caller side: the closure body is the outlined function
    f.text = t[:m.start()] + ("verif_and_then(self.get_line(line), |line: &'r str| -> (r: Option<&'r str>) "
                              "ensures slice_post(line@, col as int, col as int + span as int, r) { SourceView::get_line_slice__body(line, col, span) })") + t[close + 2:]
    f._rescan()
    u.count('R-shim-call')
    u.count('R-closure')


def build(u):
    u.use_overlay('u19_sourceview.ctr')
    u.use('use std::sync::Arc;')
    u.use('use std::sync::atomic::Ordering;')
    u.use('use vstd::utf8::*;')
    u.use('use vstd::string::StringSliceAdditionalSpecFns;')
    u.use('use vstd::std_specs::hash::*;')
    u.prelude('arc_str.rs')
    u.prelude('shim_chars.rs')
    u.prelude('shim_sourceview.rs')
    # the struct, verbatim except R-stub-type (the two cells) / R-vis / R-attr
    for name, subs in [('SourceView', [(r'\bAtomicUsize\b', 'SeqAtomicUsize'), (r'\bMutex<', 'SeqMutex<')]),
                       ('Lines', [(r"&'a SourceView\b", "&'a mut SourceView")])]:
        text, origin = u.get_item_text(S, r'(?m)^pub struct %s\b' % name, 'struct ' + name)
        text, n = re.subn(r'(?m)^\s*//[/!][^\n]*\n', '', text)
        u.count('R-attr', n)
        for a, b in subs:
            text, n = re.subn(a, b, text)
            if n != 1:
                raise LostAnchor('struct %s: %r found %d times' % (name, a, n))
            u.count('R-stub-type' if name == 'SourceView' else 'R-seq', n)
        text, n = re.subn(r'(?m)^(\s+)(?:pub(?:\([a-z]+\))? )?([a-z_][a-z0-9_]*: )', r'\1pub \2', text)
        u.count('R-vis', n)
        u.emit_text('sourceview::' + name, text, origin)
    u.spec('utf.rs')
    u.spec('sourceview.rs')

    def prep_new(f):
        u.count('R-stub-type', f.rewrite(r'\bAtomicUsize::new\(', 'SeqAtomicUsize::new(', expect=1) + f.rewrite(r'\bMutex::new\(', 'SeqMutex::new(', expect=1))
    emit_method(u, S, r'SourceView\b', 'new', 'sourceview::SourceView::new', prep=prep_new)
    def prep_from_string(f):
        prep_new(f)
        u.count('R-let-tail', f.let_tail())
    emit_method(u, S, r'SourceView\b', 'from_string', 'sourceview::SourceView::from_string', prep=prep_from_string)
    # R-trait-inherent: Clone::clone of SourceView as an inherent method
    def prep_clone(f):
        prep_from_string(f)
        u.count('R-trait-inherent')
    guarded(u, 'sourceview::SourceView::clone', lambda: u.get_fn(S, 'clone', impl=r'Clone for SourceView\b'), prep_clone, wrap=lambda: ('impl SourceView {', '}'))
    # R-seq on the signature is a sig_prep: it must also reach the signature-only stub an item falls back to when its body cannot be brought under contract
    emit_method(u, S, r'SourceView\b', 'get_line', 'sourceview::SourceView::get_line', prep=lambda f: prep_get_line(f, u), sig_prep=lambda f: seq_sig(f, u))
    emit_method(u, S, r'SourceView\b', 'line_count', 'sourceview::SourceView::line_count', sig_prep=lambda f: seq_sig(f, u, ret_lifetime=False))
    emit_method(u, S, r'SourceView\b', 'lines', 'sourceview::SourceView::lines', sig_prep=lambda f: seq_sig(f, u, ret_lifetime=False))
    guarded(u, 'sourceview::SourceView::get_line_slice__body', lambda: outline_slice_body(u), lambda g: prep_slice_body(g, u),
            wrap=lambda: ('impl SourceView {', '}'))
    emit_method(u, S, r'SourceView\b', 'get_line_slice', 'sourceview::SourceView::get_line_slice', prep=lambda f: prep_slice_wrapper(f, u), sig_prep=lambda f: seq_sig(f, u))
    # R-trait-inherent: Iterator::next of Lines as an inherent method (no clauses of its own on an impl of an external trait)
    guarded(u, 'sourceview::Lines::next', lambda: u.get_fn(S, 'next', impl=r"<'a> Iterator for Lines<'a>"), lambda f: u.count('R-trait-inherent'),
            wrap=lambda: ("impl<'a> Lines<'a> {", '}'))

    emit_method(u, S, r'SourceView\b', 'source', 'sourceview::SourceView::source')
    # reference discovery through a view: the slice locator (proved in U18) on the bytes of the text
    from .common import emit_error_enum
    D = 'src/detector.rs'
    u.prelude('common.rs')
    u.prelude('shim_str.rs')
    emit_error_enum(u)
    text, origin = u.get_item_text(D, r'(?m)^pub enum SourceMapRef\b', 'enum SourceMapRef')
    text = re.sub(r'(?m)^#\[derive\([^\]]*\)\]\n', '', text)
    text = re.sub(r'(?m)^\s*//[/!][^\n]*\n', '', text)
    u.count('R-derive')
    u.emit_text('detector::SourceMapRef', text, origin)
    u.use('use std::io::Read;')
    u.prelude('io_read.rs')
    u.prelude('shim_lines.rs')
    u.spec('detect.rs')
    u.import_fn(u.get_fn(D, 'locate_sourcemap_reference_slice'), 'detector::locate_sourcemap_reference_slice', 'u18_detect.ctr', 'u18_detect')
    emit_method(u, S, r'SourceView\b', 'sourcemap_reference', 'sourceview::SourceView::sourcemap_reference',
                prep=lambda f: u.count('R-shim-call', f.rewrite(r'\bself\.source\.as_bytes\(\)', 'verif_arc_as_bytes(&self.source)', expect=1)))
