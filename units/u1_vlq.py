"""U1 -- VLQ codec: src/vlq.rs {B64, B64_CHARS, parse_vlq_segment_into, parse_vlq_segment,
encode_vlq, generate_vlq_segment}"""
from .common import emit_error_enum, byte_string_const_to_array, refpat_for

NAME = 'u1_vlq'
PROPS = ['C11', 'C06', 'C05', 'C03', 'C01', 'C02']


def build(u):
    u.use_overlay('u1_vlq.ctr')
    u.prelude('common.rs')
    u.prelude('shim_str_bytes.rs')
    u.prelude('shim_int.rs')
    emit_error_enum(u)
    u.spec('vlq.rs')
    u.spec('vlq_tables.rs')
    byte_string_const_to_array(u, 'src/vlq.rs', 'B64_CHARS')
    text, origin = u.get_item_text('src/vlq.rs', r'(?m)^const B64\b', 'const B64', semi=True)
    u.emit_text('vlq::B64', text, origin)

    f = u.get_fn('src/vlq.rs', 'parse_vlq_segment_into')
    u.count('R-shim-call', f.rewrite(r'\b([a-z_][a-z0-9_]*)\.bytes\(\)', r'verif_str_bytes(\1)'))
    u.emit_fn(f, 'vlq::parse_vlq_segment_into')

    f = u.get_fn('src/vlq.rs', 'parse_vlq_segment')
    u.emit_fn(f, 'vlq::parse_vlq_segment')

    f = u.get_fn('src/vlq.rs', 'encode_vlq')
    u.emit_fn(f, 'vlq::encode_vlq')

    f = u.get_fn('src/vlq.rs', 'generate_vlq_segment')
    refpat_for(f, u)
    u.emit_fn(f, 'vlq::generate_vlq_segment')
