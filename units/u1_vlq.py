"""U1 -- VLQ codec: src/vlq.rs {B64, B64_CHARS, parse_vlq_segment_into, parse_vlq_segment,
encode_vlq, generate_vlq_segment}"""
from .common import emit_error_enum, byte_string_const_to_array, refpat_for, emit_free_fn

NAME = 'u1_vlq'
PROPS = ['C11', 'C06', 'C05', 'C03', 'C01', 'C02']


# mutation canaries (thorough tier): textual mutations of the EXTRACTED copy that must each fail an obligation of the named item
MUTANTS = [
    ('vlq::parse_vlq_segment_into', 'shift \\+= 5;', 'shift += 6;'),
    ('vlq::parse_vlq_segment_into', 'if sign != 0 \\{', 'if sign == 0 {'),
    ('vlq::parse_vlq_segment_into', 'cur != 0 \\|\\| shift != 0', 'cur != 0'),
    ('vlq::encode_vlq', 'num >>= 5;', 'num >>= 4;'),
    ('vlq::encode_vlq', '\\(\\(-num\\) << 1\\) \\+ 1', '((-num) << 1)'),
]


def build(u):
    u.use_overlay('u1_vlq.ctr')
    u.prelude('common.rs')
    u.prelude('shim_str_bytes.rs')
    u.prelude('shim_int.rs')
    emit_error_enum(u)
    u.spec('vlq.rs')
    u.spec('vlq_tables.rs')
    u.spec('vlq_canonical.rs')
    byte_string_const_to_array(u, 'src/vlq.rs', 'B64_CHARS')
    text, origin = u.get_item_text('src/vlq.rs', r'(?m)^const B64\b', 'const B64', semi=True)
    u.emit_text('vlq::B64', text, origin)

    emit_free_fn(u, 'src/vlq.rs', 'parse_vlq_segment_into', 'vlq::parse_vlq_segment_into',
                 prep=lambda f: u.count('R-shim-call', f.rewrite(r'\b([a-z_][a-z0-9_]*)\.bytes\(\)', r'verif_str_bytes(\1)')))
    emit_free_fn(u, 'src/vlq.rs', 'parse_vlq_segment', 'vlq::parse_vlq_segment')
    emit_free_fn(u, 'src/vlq.rs', 'encode_vlq', 'vlq::encode_vlq')
    emit_free_fn(u, 'src/vlq.rs', 'generate_vlq_segment', 'vlq::generate_vlq_segment', prep=lambda f: refpat_for(f, u))
