"""U20 -- js_identifiers.rs (identifier classification and slicing) and, on top of U19, the function-name resolution of
sourceview.rs: RevTokenIter::next and SourceView::get_original_function_name (C17)"""
import re
from vx.rs import Fn, LostAnchor, mask, match_close
from .common import emit_free_fn, emit_method, guarded

NAME = 'u20_funcname'
PROPS = ['C17', 'C05']
J = 'src/js_identifiers.rs'
S = 'src/sourceview.rs'

MUTANTS = [
    ('js_identifiers::is_valid_start', r"c == '\$' \|\| c == '_' \|\|", "c == '$' ||"),
    ('js_identifiers::is_valid_continue', r"c == '\\u\{200c\}' \|\| ", ''),
    ('js_identifiers::strip_identifier', r'end_idx = i \+ c\.len_utf8\(\);', 'end_idx = i + 1;'),
    ('js_identifiers::strip_identifier', r'if !is_valid_start\(c\)', 'if !is_valid_continue(c)'),
    ('js_identifiers::is_valid_javascript_identifier', r'== s\.len\(\)', '<= s.len()'),
]


def build(u):
    u.use_overlay('u20_funcname.ctr')
    u.use('use vstd::utf8::*;')
    u.use('use vstd::string::StringSliceAdditionalSpecFns;')
    u.prelude('shim_chars.rs')
    u.spec('utf.rs')
    u.spec('jsident.rs')
    emit_free_fn(u, J, 'is_valid_start', 'js_identifiers::is_valid_start')
    emit_free_fn(u, J, 'is_valid_continue', 'js_identifiers::is_valid_continue')

    def prep_strip(f):
        n = f.rewrite(r'\bs\.char_indices\(\)', 'verif_char_indices(s)', expect=1)
        n += f.rewrite(r'&s\[\.\.end_idx\]', 'verif_str_prefix(s, end_idx)', expect=1)
        u.count('R-shim-call', n)
    emit_free_fn(u, J, 'strip_identifier', 'js_identifiers::strip_identifier', prep=prep_strip)

    def prep_valid(f):
        u.count('R-shim-call', f.rewrite(r'strip_identifier\(s\)\.map_or\(0, \|t\| t\.len\(\)\)', 'verif_opt_str_len_or0(strip_identifier(s))', expect=1))
    emit_free_fn(u, J, 'is_valid_javascript_identifier', 'js_identifiers::is_valid_javascript_identifier', prep=prep_valid)

    def prep_tok(f):
        u.count('R-shim-call', f.rewrite(r'source_line\.split_whitespace\(\)\.next\(\)', 'verif_first_word(source_line)', expect=1))
    emit_free_fn(u, J, 'get_javascript_token', 'js_identifiers::get_javascript_token', prep=prep_tok)
