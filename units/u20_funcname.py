"""U20 -- js_identifiers.rs (identifier classification and slicing) and, on top of U19, the function-name resolution of
sourceview.rs: RevTokenIter::next and SourceView::get_original_function_name (C17)"""
import re
from vx.rs import Fn, LostAnchor, mask, match_close
from .common import emit_free_fn, emit_method, guarded, emit_struct, expand_if_chain, import_method

NAME = 'u20_funcname'
PROPS = ['C17', 'C05']
J = 'src/js_identifiers.rs'
S = 'src/sourceview.rs'

MUTANTS = [
    ('sourceview::SourceView::get_original_function_name', r'verif_take_peekable\(self\.rev_token_iter\(token\), 128\)', 'verif_take_peekable(self.rev_token_iter(token), 129)'),
    ('sourceview::SourceView::get_original_function_name', r'verif_opt_str_eq\(item\.1, "function"\)', 'verif_opt_str_eq(item.1, "functio")'),
    ('sourceview::SourceView::get_original_function_name', r'return token\.get_name\(\)', 'return item.0.get_name()'),
    ('sourceview::RevTokenIter::next', r'new_offset -= c\.len_utf8\(\);', 'new_offset -= 1;'),
    ('sourceview::RevTokenIter::next', r'if idx >= chars_to_move \{', 'if idx > chars_to_move {'),
    ('sourceview::RevTokenIter::next', r'self\.source_line = None;', ''),
    ('sourceview::RevTokenIter::next', r'if idx >= token\.get_dst_col\(\) as usize \{', 'if idx > token.get_dst_col() as usize {'),
    ('js_identifiers::is_valid_start', r"c == '\$' \|\| c == '_' \|\|", "c == '$' ||"),
    ('js_identifiers::is_valid_continue', r"c == '\\u\{200c\}' \|\| ", ''),
    ('js_identifiers::strip_identifier', r'end_idx = i \+ c\.len_utf8\(\);', 'end_idx = i + 1;'),
    ('js_identifiers::strip_identifier', r'if !is_valid_start\(c\)', 'if !is_valid_continue(c)'),
    ('js_identifiers::is_valid_javascript_identifier', r'== s\.len\(\)', '<= s.len()'),
]


def prep_rti_next(f, u):
    expand_if_chain(f, u)
    n = f.rewrite(r'for c in source_line\.chars\(\) \{', 'for c in verif_chars(source_line) {', expect=1)
    n += f.rewrite(r'source_line\s*\.get\(\.\.last_byte_offset\)\s*\.unwrap_or\(""\)\s*\.chars\(\)\s*\.rev\(\)', 'verif_chars_rev(verif_str_get_to(source_line, last_byte_offset).unwrap_or(""))', expect=1)
    n += f.rewrite(r'\bc\.len_utf16\(\)', 'verif_len_utf16(c)', expect=2)
    n += f.rewrite(r'source_line\s*\.get\(byte_offset\.\.\)\s*\.and_then\(get_javascript_token\)', 'verif_and_then(verif_str_get_from(source_line, byte_offset), get_javascript_token)', expect=1)
    u.count('R-shim-call', n)
    u.count('R-trait-inherent')


def build(u):
    from .u19_sourceview import seq_sig, prep_get_line
    u.use_overlay('u20_funcname.ctr')
    u.use('use vstd::utf8::*;')
    u.use('use vstd::string::StringSliceAdditionalSpecFns;')
    u.use('use vstd::std_specs::cmp::*;')
    u.use('use vstd::std_specs::hash::*;')
    u.use('use std::cmp::Ordering;')
    u.use('use std::sync::Arc;')
    u.use('use std::collections::BTreeSet;')
    u.prelude('arc_str.rs')
    u.prelude('debugid_stub.rs')
    u.prelude('shim_chars.rs')
    u.prelude('shim_sourceview.rs')
    u.spec('utf.rs')
    u.spec('jsident.rs')
    # types: the real SourceView (R-seq, as in U19), RawToken / Token / SourceMap, RevTokenIter (holds the view: `&mut` under R-seq)
    for name, subs, rule in [('SourceView', [(r'\bAtomicUsize\b', 'SeqAtomicUsize'), (r'\bMutex<', 'SeqMutex<')], 'R-stub-type'),
                             ('RevTokenIter', [(r"&'view SourceView\b", "&'view mut SourceView")], 'R-seq')]:
        text, origin = u.get_item_text(S, r'(?m)^pub struct %s\b' % name, 'struct ' + name)
        text, n = re.subn(r'(?m)^\s*//[/!][^\n]*\n', '', text)
        u.count('R-attr', n)
        for a, b in subs:
            text, n = re.subn(a, b, text)
            if n != 1:
                raise LostAnchor('struct %s: %r found %d times' % (name, a, n))
            u.count(rule, n)
        text, n = re.subn(r'(?m)^(\s+)(?:pub(?:\([a-z]+\))? )?([a-z_][a-z0-9_]*: )', r'\1pub \2', text)
        u.count('R-vis', n)
        u.emit_text('sourceview::' + name, text, origin)
    T = 'src/types.rs'
    emit_struct(u, T, 'RawToken', keep_derive=True)
    emit_struct(u, T, 'Token', keep_derive=True)
    emit_struct(u, T, 'SourceMap')
    u.spec('order.rs')
    u.spec('tokens.rs')
    u.raw('token_at', '//@@ prelude token_at\npub open spec fn token_at<\'a>(sm: &\'a SourceMap, k: int) -> Token<\'a> { Token { raw: &sm.tokens@[k], sm: sm, idx: k as usize, offset: 0 } }\n//@@ endprelude\n')
    u.spec('sourceview.rs')
    u.spec('funcname.rs')
    # contracts proved elsewhere
    def ann_get_token(f):
        u.count('R-closure', f.annotate_closure('raw', 'raw: &RawToken', "(o: Token<'_>) ensures o.raw == raw && o.sm == self && o.idx == idx && o.offset == 0", expect=1))
    import_method(u, T, r'SourceMap\b', 'get_token', 'types::SourceMap::get_token', 'u2_lookup.ctr', 'u2_lookup', prep=ann_get_token)
    for g in ['get_dst_line', 'get_dst_col']:
        import_method(u, T, r"<'a> Token<'a>", g, 'types::Token::' + g, 'u2_lookup.ctr', 'u2_lookup')
    import_method(u, T, r"<'a> Token<'a>", 'get_name', 'types::Token::get_name', 'u6_root.ctr', 'u6_root')
    import_method(u, S, r'SourceView\b', 'get_line', 'sourceview::SourceView::get_line', 'u19_sourceview.ctr', 'u19_sourceview', prep=lambda f: seq_sig(f, u))
    emit_free_fn(u, J, 'is_valid_start', 'js_identifiers::is_valid_start')
    emit_free_fn(u, J, 'is_valid_continue', 'js_identifiers::is_valid_continue')

    def prep_strip(f):
        n = f.rewrite(r'\bs\.char_indices\(\)', 'verif_char_indices(s)', expect=1)
        n += f.rewrite(r'&s\[\.\.end_idx\]', 'verif_str_prefix(s, end_idx)', expect=1)
        u.count('R-shim-call', n)
    emit_free_fn(u, J, 'strip_identifier', 'js_identifiers::strip_identifier', prep=prep_strip)

    def prep_valid(f):
        u.count('R-shim-call', f.rewrite(r'strip_identifier\(s\)\.map_or\(0, \|t\| t\.len\(\)\)', 'verif_opt_str_len_or0(strip_identifier(s))', expect=1))
    emit_free_fn(u, J, 'is_valid_javascript_identifier', 'js_identifiers::is_valid_javascript_identifier', prep=prep_valid)

    def prep_tok(f):
        u.count('R-shim-call', f.rewrite(r'source_line\.split_whitespace\(\)\.next\(\)', 'verif_first_word(source_line)', expect=1))
    emit_free_fn(u, J, 'get_javascript_token', 'js_identifiers::get_javascript_token', prep=prep_tok)

    guarded(u, 'sourceview::RevTokenIter::next', lambda: u.get_fn(S, 'next', impl=r"<'view, 'map> Iterator for RevTokenIter<'view, 'map>"), lambda f: prep_rti_next(f, u),
            wrap=lambda: ("impl<'view, 'map> RevTokenIter<'view, 'map> {", '}'))

    # the pairing loop on top of the walker (take(128).peekable() behind an assumed contract stated over the walker's verified contract)
    u.spec('funcname_walk.rs')
    u.prelude('shim_takepeek.rs')

    def prep_rev(f):
        u.count('R-seq', f.rewrite(r"\(&'this self\b", "(&'this mut self", expect=1))
    emit_method(u, S, r'SourceView\b', 'rev_token_iter', 'sourceview::SourceView::rev_token_iter', sig_prep=prep_rev)

    def sig_gofn(f):
        u.count('R-seq', f.rewrite(r'(?s)\(\s*&self\b', '(&mut self', expect=1))

    def prep_gofn(f):
        expand_if_chain(f, u)
        n = f.rewrite(r'self\.rev_token_iter\(token\)\.take\(128\)\.peekable\(\)', 'verif_take_peekable(self.rev_token_iter(token), 128)', expect=1)
        n += f.rewrite(r'\b([a-z_]+(?:\.\d)?) == Some\(([a-z_]+|"[a-z]*")\)', r'verif_opt_str_eq(\1, \2)', expect=2)
        u.count('R-shim-call', n)
    emit_method(u, S, r'SourceView\b', 'get_original_function_name', 'sourceview::SourceView::get_original_function_name', prep=prep_gofn, sig_prep=sig_gofn)

    # the position-based entry point on a regular map: lookup_token (proved in u2) then the walk
    import_method(u, T, r'SourceMap\b', 'lookup_token', 'types::SourceMap::lookup_token', 'u2_lookup.ctr', 'u2_lookup')

    def sig_sm_gofn(f):
        u.count('R-seq', f.rewrite(r'\bsv: &SourceView\b', 'sv: &mut SourceView', expect=1))

    def prep_sm_gofn(f):
        # R-and-then: `X.and_then(|p| E)` is `match X { Some(p) => E, None => None }` (the definition of Option::and_then; the closure would capture the `&mut` view)
        u.count('R-and-then', f.rewrite(r'(?s)self\.lookup_token\(line, col\)\s*\.and_then\(\|token\| (sv\.get_original_function_name\(token, minified_name\))\)',
                                        r'match self.lookup_token(line, col) { Some(token) => \1, None => None }', expect=1))
    emit_method(u, T, r'SourceMap\b', 'get_original_function_name', 'types::SourceMap::get_original_function_name', prep=prep_sm_gofn, sig_prep=sig_sm_gofn)
