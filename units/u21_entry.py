"""U21 -- the decoding and detection entry points (src/decoder.rs: decode, decode_slice, decode_data_url; src/detector.rs: is_sourcemap(_slice)(_impl)):
the wiring of header rule, JSON layer and decode_common, stated over the bytes (C12, C18)"""
import re
from vx.rs import LostAnchor
from .common import emit_struct, emit_method, emit_free_fn, emit_error_enum, import_method
from .u6_root import prelude_types

NAME = 'u21_entry'
PROPS = ['C12', 'C18', 'C02', 'C05', 'C06', 'C01', 'C14']
D = 'src/decoder.rs'
DT = 'src/detector.rs'

MUTANTS = [
    ('types::SourceMap::to_data_url', r'"data:application/json;charset=utf-8;base64,"', '"data:application/json;charset=utf8;base64,"'),
    ('decoder::decode_slice', r'let content = strip_junk_header\(slice\)\?;', 'let content = slice;'),
    ('decoder::decode_data_url', r'decode_slice\(data\.as_slice\(\)\)', 'decode_common(verif_json_from_slice_raw(data.as_slice())?)'),
    ('decoder::decode_data_url', r'verif_strip_either_prefix\(url, DATA_PREAMBLE, DATA_PREAMBLE_CHARSET\)', 'verif_strip_either_prefix(url, DATA_PREAMBLE, DATA_PREAMBLE)'),
    ('detector::is_sourcemap_slice', r'\.unwrap_or\(false\)', '.unwrap_or(true)'),
    ('detector::is_sourcemap_impl', r'let mut rdr = StripHeaderReader::new\(rdr\);', 'let mut rdr = StripHeaderReader::new(rdr); rdr.header_state = HeaderState::PastHeader;'),
]


def from_impl(u, ty, stub_ty, variant, key):
    text, origin = u.get_item_text('src/errors.rs', r'(?m)^impl From<%s> for Error\b' % re.escape(ty), 'impl From<%s> for Error' % ty)
    text = text.replace(ty, stub_ty)
    u.emit_text('errors::From<%s>' % ty, text, origin)
    u.raw('fromspec ' + ty, '//@@ prelude fromspec_%s\nimpl vstd::std_specs::convert::FromSpecImpl<%s> for Error {\n    open spec fn obeys_from_spec() -> bool { true }\n    open spec fn from_spec(e: %s) -> Error { Error::%s(e) }\n}\n//@@ endprelude\n' % (key, stub_ty, stub_ty, variant))


def json_reader_shim(f, u, ty, shim):
    """R-shim-call over two statements: `let mut rdr = BufReader::new(&mut rdr); let rsm: T = serde_json::from_reader(&mut rdr)?;`
    -> `let rsm: T = shim(&mut rdr)?;` (the shim's body is that composition; its contract is the assumed one of prelude/shim_entry.rs)"""
    n = f.rewrite(r'let mut rdr = BufReader::new\(&mut rdr\);\s*let rsm: %s = serde_json::from_reader\(&mut rdr\)\?;' % ty, 'let rsm: %s = %s(&mut rdr)?;' % (ty, shim), expect=1)
    if n != 1 or 'serde_json' in f.text or 'BufReader' in f.text:
        raise LostAnchor('%s: the reader / JSON composition has another shape' % f.name)
    u.count('R-shim-call', n)


def json_slice_shim(f, u, ty, shim):
    n = f.rewrite(r'let rsm: %s = serde_json::from_slice\(content\)\?;' % ty, 'let rsm: %s = %s(content)?;' % (ty, shim), expect=1)
    if n != 1 or 'serde_json' in f.text:
        raise LostAnchor('%s: the JSON call has another shape' % f.name)
    u.count('R-shim-call', n)


def build(u):
    u.use_overlay('u21_entry.ctr')
    u.use('use std::io;')
    u.use('use std::io::Read;')
    prelude_types(u)
    u.prelude('common.rs')
    u.prelude('io_read.rs')
    emit_error_enum(u)
    from_impl(u, 'io::Error', 'std::io::Error', 'Io', 'Io')
    from_impl(u, 'serde_json::Error', 'serde_json_stub::Error', 'BadJson', 'Json')
    emit_struct(u, D, 'HeaderState', kind='enum', keep_derive=True)
    emit_struct(u, D, 'StripHeaderReader')
    u.prelude('derive_eq_headerstate.rs')
    u.spec('header.rs')
    u.raw('IgnoredAny', '//@@ prelude ignored_any_stub\n//# assumes: serde::de::IgnoredAny is a unit marker\n#[verifier::external_body]\npub struct IgnoredAny { _x: u8 }\n//@@ endprelude\n')
    text, origin = u.get_item_text('src/jsontypes.rs', r'(?m)^pub struct MinimalRawSourceMap\b', 'struct MinimalRawSourceMap')
    text = re.sub(r'(?m)^\s*#\[[^\]]*\]\n', '', text)
    u.count('R-attr')
    u.emit_text('jsontypes::MinimalRawSourceMap', text, origin)
    u.spec('detect_rule.rs')
    u.raw('payload stubs', '''//@@ prelude entry_payload_stubs
//# assumes: SourceMap / SourceMapIndex / SourceMapHermes are opaque payloads of the real DecodedMap enum here
#[verifier::external_body]
pub struct SourceMap { _x: u8 }
#[verifier::external_body]
pub struct SourceMapIndex { _x: u8 }
#[verifier::external_body]
pub struct SourceMapHermes { _x: u8 }
//@@ endprelude
''')
    emit_struct(u, 'src/types.rs', 'DecodedMap', kind='enum')
    u.prelude('shim_entry.rs')
    u.spec('entry.rs')
    for c in ['DATA_PREAMBLE', 'DATA_PREAMBLE_CHARSET']:
        s = u.src(D)
        a, e = s.find_semi_item(r'(?m)^const %s\b' % c, what='const ' + c)
        from vx.unit import sha
        # R-static: a `const X: &str` needs its lifetime spelled out inside the verus! macro
        u.count('R-static')
        u.emit_text('decoder::' + c, s.text[a:e].replace(': &str =', ": &'static str ="), dict(file=D, line_start=s.line_of(a), line_end=s.line_of(e - 1), sha=sha(s.text[a:e])))
    # proved elsewhere
    import_method(u, D, r'<R: Read> StripHeaderReader<R>', 'new', 'decoder::StripHeaderReader::new', 'u3_header.ctr', 'u3_header')
    f = u.get_fn(D, 'strip_junk_header')
    u.import_fn(f, 'decoder::strip_junk_header', 'u3_header.ctr', 'u3_header')
    f = u.get_fn(DT, 'is_sourcemap_common')
    u.import_fn(f, 'detector::is_sourcemap_common', 'u18_detect.ctr', 'u18_detect')

    emit_free_fn(u, D, 'decode', 'decoder::decode', prep=lambda f: json_reader_shim(f, u, 'RawSourceMap', 'verif_json_from_reader_raw'))
    emit_free_fn(u, D, 'decode_slice', 'decoder::decode_slice', prep=lambda f: json_slice_shim(f, u, 'RawSourceMap', 'verif_json_from_slice_raw'))

    def prep_data_url(f):
        n = f.rewrite(r'(?s)url\s*\.strip_prefix\(DATA_PREAMBLE\)\s*\.or_else\(\|\| url\.strip_prefix\(DATA_PREAMBLE_CHARSET\)\)', 'verif_strip_either_prefix(url, DATA_PREAMBLE, DATA_PREAMBLE_CHARSET)', expect=1)
        n += f.rewrite(r'(?s)data_encoding::BASE64\s*\.decode\(data_b64\.as_bytes\(\)\)\s*\.map_err\(\|_\| Error::InvalidDataUrl\)', 'verif_b64_decode_or_invalid(data_b64)', expect=1)
        n += f.rewrite(r'&data\[\.\.\]', 'data.as_slice()', expect=1)
        u.count('R-shim-call', n)
    emit_free_fn(u, D, 'decode_data_url', 'decoder::decode_data_url', prep=prep_data_url)

    emit_free_fn(u, DT, 'is_sourcemap_impl', 'detector::is_sourcemap_impl', prep=lambda f: json_reader_shim(f, u, 'MinimalRawSourceMap', 'verif_json_from_reader_min'))
    emit_free_fn(u, DT, 'is_sourcemap_slice_impl', 'detector::is_sourcemap_slice_impl', prep=lambda f: json_slice_shim(f, u, 'MinimalRawSourceMap', 'verif_json_from_slice_min'))
    emit_free_fn(u, DT, 'is_sourcemap', 'detector::is_sourcemap')
    emit_free_fn(u, DT, 'is_sourcemap_slice', 'detector::is_sourcemap_slice')

    # the typed constructors: a match on the decoded kind
    T = 'src/types.rs'
    H = 'src/hermes.rs'
    for ty, rel, impl in [('SourceMap', T, r'SourceMap\b'), ('SourceMapIndex', T, r'SourceMapIndex\b'), ('SourceMapHermes', H, r'SourceMapHermes\b')]:
        for g in ['from_reader', 'from_slice']:
            emit_method(u, rel, impl, g, '%s::%s::%s' % (rel.split('/')[-1][:-3], ty, g))
    emit_method(u, T, r'DecodedMap\b', 'from_reader', 'types::DecodedMap::from_reader')

    # the writer of data URLs: its preamble must be one decode_data_url accepts (D12 was a mismatch of the two)
    def prep_tdu(f):
        n = f.rewrite(r'\bencode\(self, &mut buf\)', 'verif_encode_sm(self, &mut buf)', expect=1)
        n += f.rewrite(r'base64_simd::Base64::STANDARD\.encode_to_boxed_str\(&buf\)', 'verif_b64_encode(&buf)', expect=1)
        n += f.rewrite(r'(?s)format!\(\s*("data:[^"{}]*)\{\}",\s*b64\s*\)', r'verif_format_lit_then(\1", &b64)', expect=1)
        u.count('R-shim-call', n)
        # R-type-annot: the element type of the buffer before rustc has inferred it
        u.count('R-type-annot', f.rewrite(r'let mut buf = vec!\[\];', 'let mut buf: Vec<u8> = vec![];', expect=1))
        if 'format!' in f.text or 'base64_simd' in f.text:
            raise LostAnchor('to_data_url: another shape')
        u.count('R-let-tail', f.rewrite(r'(?s)Ok\((verif_format_lit_then\(.*?&b64\))\)\s*\}\s*$', r'let out__ = \1;\n        Ok(out__)\n    }', expect=1))
    emit_method(u, T, r'SourceMap\b', 'to_data_url', 'types::SourceMap::to_data_url', prep=prep_tdu)
