"""U22 -- the raw document of a map (src/encoder.rs: the as_raw_sourcemap impls of SourceMap, SourceMapIndex, DecodedMap; src/hermes.rs: of SourceMapHermes;
src/types.rs: SourceMap::names, NameIter::next): which key carries which value (C03, C01, C13, C07)"""
import re
from vx.rs import LostAnchor
from .lift import map_collect_to_loop
from .common import emit_struct, emit_method, import_method, emit_error_enum, guarded, inspect_to_if, emit_free_fn
from .u6_root import prelude_types
from .u9_dispatch import emit_json_struct

NAME = 'u22_encode'
PROPS = ['C03', 'C01', 'C13', 'C07', 'C14', 'C05']
E = 'src/encoder.rs'
T = 'src/types.rs'
J = 'src/jsontypes.rs'
H = 'src/hermes.rs'

MUTANTS = [
    ('encoder::SourceMap::as_raw_sourcemap', r'self\.sources\.iter\(\)', 'self.sources_prefixed.as_ref().unwrap_or(&self.sources).iter()'),
    ('encoder::SourceMap::as_raw_sourcemap', r'if have_contents \{ Some\(contents\) \} else \{ None \}', 'Some(contents)'),
    ('encoder::SourceMap::as_raw_sourcemap', r'debug_id: self\.get_debug_id\(\),', 'debug_id: None,'),
    ('encoder::SourceMap::as_raw_sourcemap', r'have_contents = true;', ''),
    ('encoder::SourceMap::as_raw_sourcemap', r'Some\(contents\.to_string\(\)\)', 'Some(String::new())'),
    ('encoder::SourceMap::as_raw_sourcemap', r'if verif_btreeset_is_empty\(&self\.ignore_list\) \{', 'if false {'),
    ('encoder::SourceMapIndex::as_raw_sourcemap', r'line: section\.get_offset_line\(\),', 'line: section.get_offset_col(),'),
    ('encoder::SourceMapIndex::as_raw_sourcemap', r'url: verif_opt_str_to_owned\(section\.get_url\(\)\),', 'url: None,'),
    ('hermes::SourceMapHermes::as_raw_sourcemap', r'verif_clone_from_fb\(&mut rsm\.x_facebook_sources, &self\.raw_facebook_sources\);', ''),
    ('types::NameIter::next', r'self\.next_idx \+= 1', 'self.next_idx += 2'),
    ('types::SourceContentsIter::next', r'self\.next_idx >= self\.i\.get_source_count\(\)', 'self.next_idx + 1 >= self.i.get_source_count()'),
    ('types::SourceIter::next', r'self\.next_idx \+= 1', 'self.next_idx += 2'),
]


def encode_preamble(u, iters=True):
    """types and specs of the writer side (shared with u24_roundtrip)"""
    prelude_types(u)
    u.prelude('common.rs')
    u.prelude('json_types_stub.rs')
    emit_error_enum(u)
    for n in ['RawSectionOffset', 'RawSection', 'FacebookScopeMapping', 'RawSourceMap']:
        emit_json_struct(u, n)
    text, origin = u.get_item_text(J, r'(?m)^pub type FacebookSources\b', 'type FacebookSources', semi=True)
    u.emit_text('jsontypes::FacebookSources', text, origin)
    emit_struct(u, T, 'RawToken', keep_derive=True)
    emit_struct(u, T, 'SourceMap')
    emit_struct(u, T, 'NameIter', keep_vis=True)
    emit_struct(u, H, 'HermesScopeOffset')
    emit_struct(u, H, 'HermesFunctionMap')
    emit_struct(u, H, 'SourceMapHermes')
    emit_struct(u, T, 'SourceMapSection')
    emit_struct(u, T, 'SourceMapIndex')
    text, origin = u.get_item_text(T, r'(?m)^pub enum DecodedMap\b', 'enum DecodedMap')
    text = re.sub(r'(?m)^#\[derive\([^\]]*\)\]\n', '', text)
    text = re.sub(r'(?m)^\s*//[/!][^\n]*\n', '', text)
    u.count('R-derive')
    u.emit_text('types::DecodedMap', text, origin)
    emit_struct(u, T, 'SourceMapSectionIter', keep_vis=True)
    u.prelude('shim_box.rs')
    u.spec('order.rs')
    u.spec('tokens.rs')
    u.spec('root.rs')
    u.spec('vlq.rs')
    u.prelude('bitvec_stub.rs')
    u.spec('mappings_enc.rs')
    u.spec('bits.rs')
    u.spec('rmi_enc.rs')
    u.prelude('shim_encode.rs')
    if iters:
        u.spec('name_iter.rs')
        u.spec('section_iter.rs')
    u.spec('encode.rs')


def build(u):
    u.use_overlay('u22_encode.ctr')
    encode_preamble(u)
    # contracts proved elsewhere
    for g in ['get_file', 'get_source_root', 'get_debug_id', 'get_name']:
        import_method(u, T, r'SourceMap\b', g, 'types::SourceMap::' + g, 'u6_root.ctr', 'u6_root')
    for g in ['serialize_mappings', 'serialize_range_mappings']:
        f = u.get_fn(E, g)
        u.import_fn(f, 'encoder::' + g, 'u5_encode.ctr', 'u5_encode')

    emit_method(u, T, r'SourceMap\b', 'names', 'types::SourceMap::names')
    emit_method(u, T, r"<'a> Iterator for NameIter<'a>", 'next', 'types::NameIter::next', prep=lambda f: inspect_to_if(f, u))

    def prep_sm(f):
        u.count('R-trait-inherent')
        # the one closure that captures a mutable local (`have_contents = true` inside): map + collect as the loop of pushes, the closure body a plain block
        map_collect_to_loop(f, u, expect=1, recv=r'self\s*\.source_contents\(\)', types=['Vec<Option<String>>'])
        n = 0
        n += f.rewrite(r'self\.ignore_list\.is_empty\(\)', 'verif_btreeset_is_empty(&self.ignore_list)', expect=1)
        n += f.rewrite(r'self\.ignore_list\.iter\(\)\.cloned\(\)\.collect\(\)', 'verif_btreeset_to_vec(&self.ignore_list)', expect=1)
        n += f.rewrite(r'\|x\| Some\(x\.to_string\(\)\)', '|x| Some(verif_arc_to_string(x))', expect=1)
        u.count('R-shim-call', n)
        c = f.annotate_closure('x', 'x: &Arc<str>', '(o: Option<String>) ensures o matches Some(s) && s@ == arc_chars(x)', nth=1)
        # the remaining |x| closures take a &str (file, root, names)
        c += f.annotate_closure('x', 'x: &str', '(v: Value) ensures val_is_str(v, x@)', nth=0)
        c += f.annotate_closure('x', 'x: &str', '(s: String) ensures s@ == x@', nth=0)
        c += f.annotate_closure('x', 'x: &str', '(v: Value) ensures val_is_str(v, x@)', nth=0)
        u.count('R-closure', c)
        u.count('R-let-tail', f.let_tail())
    guarded(u, 'encoder::SourceMap::as_raw_sourcemap', lambda: u.get_fn(E, 'as_raw_sourcemap', impl=r'Encodable for SourceMap\b'), prep_sm, wrap=lambda: ('impl SourceMap {', '}'))

    # index maps, Hermes maps, the dispatch
    for g in ['get_offset_line', 'get_offset_col', 'get_sourcemap']:
        import_method(u, T, r'SourceMapSection\b', g, 'types::SourceMapSection::' + g, 'u7_index.ctr', 'u7_index',
                      prep=lambda f: f.rewrite(r'\bBox::as_ref\b', 'verif_box_as_ref'))

    def prep_get_file(f):
        f.rewrite(r'&x\[\.\.\]', 'x.as_str()', expect=1)
        f.annotate_closure('x', 'x: &String', '(o: &str) ensures o@ == x@', expect=1)
    import_method(u, T, r'SourceMapIndex\b', 'get_file', 'types::SourceMapIndex::get_file', 'u13_flatten.ctr', 'u13_flatten', prep=prep_get_file)
    import_method(u, T, r'SourceMapIndex\b', 'sections', 'types::SourceMapIndex::sections', 'u13_flatten.ctr', 'u13_flatten')
    import_method(u, T, r"<'a> Iterator for SourceMapSectionIter<'a>", 'next', 'types::SourceMapSectionIter::next', 'u13_flatten.ctr', 'u13_flatten', prep=lambda f: inspect_to_if(f, u))

    def prep_url(f):
        u.count('R-shim-call', f.rewrite(r'self\.url\.as_deref\(\)', 'verif_opt_string_as_deref(&self.url)', expect=1))
    emit_method(u, T, r'SourceMapSection\b', 'get_url', 'types::SourceMapSection::get_url', prep=prep_url)

    def prep_idx(f):
        u.count('R-trait-inherent')
        n = f.rewrite(r'section\.get_url\(\)\.map\(str::to_owned\)', 'verif_opt_str_to_owned(section.get_url())', expect=1)
        u.count('R-shim-call', n)
        c = f.annotate_closure('x', 'x: &str', '(v: Value) ensures val_is_str(v, x@)', expect=1)
        c += f.annotate_closure('sm', 'sm: &DecodedMap', '(b: Box<RawSourceMap>) requires decreases_to!(*self => *sm) && enc_wf_dm(*sm) ensures raw_of_dm(*sm, *b)', expect=1)
        c += f.annotate_closure('section', 'section: &SourceMapSection', '(rs: RawSection) requires decreases_to!(*self => *section) && sec_enc_wf(*section) ensures raw_section_ok(*section, rs)', expect=1)
        u.count('R-closure', c)
        u.count('R-let-tail', f.let_tail())
    guarded(u, 'encoder::SourceMapIndex::as_raw_sourcemap', lambda: u.get_fn(E, 'as_raw_sourcemap', impl=r'Encodable for SourceMapIndex\b'), prep_idx, wrap=lambda: ('impl SourceMapIndex {', '}'))
    guarded(u, 'encoder::DecodedMap::as_raw_sourcemap', lambda: u.get_fn(E, 'as_raw_sourcemap', impl=r'Encodable for DecodedMap\b'), lambda f: u.count('R-trait-inherent'), wrap=lambda: ('impl DecodedMap {', '}'))

    def prep_h(f):
        u.count('R-trait-inherent')
        u.count('R-shim-call', f.rewrite(r'(?s)rsm\.x_facebook_sources\s*\.clone_from\(&self\.raw_facebook_sources\);', 'verif_clone_from_fb(&mut rsm.x_facebook_sources, &self.raw_facebook_sources);', expect=1))
    guarded(u, 'hermes::SourceMapHermes::as_raw_sourcemap', lambda: u.get_fn(H, 'as_raw_sourcemap', impl=r'Encodable for SourceMapHermes\b'), prep_h, wrap=lambda: ('impl SourceMapHermes {', '}'))

    # the other two table iterators of a map (C13: the finished map reports its sources and contents)
    emit_struct(u, T, 'SourceIter', keep_vis=True)
    emit_struct(u, T, 'SourceContentsIter', keep_vis=True)
    u.spec('source_iters.rs')
    for g in ['get_source', 'get_source_count', 'get_source_contents']:
        import_method(u, T, r'SourceMap\b', g, 'types::SourceMap::' + g, 'u6_root.ctr', 'u6_root')
    emit_method(u, T, r'SourceMap\b', 'sources', 'types::SourceMap::sources')
    emit_method(u, T, r'SourceMap\b', 'source_contents', 'types::SourceMap::source_contents')
    emit_method(u, T, r"<'a> Iterator for SourceIter<'a>", 'next', 'types::SourceIter::next', prep=lambda f: inspect_to_if(f, u))
    emit_method(u, T, r"<'a> Iterator for SourceContentsIter<'a>", 'next', 'types::SourceContentsIter::next')
