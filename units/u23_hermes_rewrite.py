"""U23 -- SourceMapHermes::rewrite (src/hermes.rs): the per-source tables follow the sources of the rewritten map"""
import re
from .common import emit_struct, emit_method, import_method, emit_error_enum
from .u5_encode import common_types
from .u6_builder import emit_builder_struct
from .u9_dispatch import emit_json_struct
from .lift import map_collect_to_loop, option_map_to_match

NAME = 'u23_hermes_rewrite'
PROPS = ['C09', 'C14', 'C05']
T = 'src/types.rs'
H = 'src/hermes.rs'
J = 'src/jsontypes.rs'

MUTANTS = [
    ('hermes::SourceMapHermes::rewrite', r'verif_take_at\(&mut function_maps, \*idx as usize\)', 'verif_take_at(&mut function_maps, coll__1.len())'),
    ('hermes::SourceMapHermes::rewrite', r'verif_take_at\(&mut sources, idx as usize\)', 'verif_take_at(&mut sources, 0)'),
    ('hermes::SourceMapHermes::rewrite', r'coll__1\.push\(item__\);', 'if coll__1.len() != 1 { coll__1.push(item__); } else { coll__1.push(None); }'),
]


def build(u):
    u.use_overlay('u23_hermes_rewrite.ctr')
    common_types(u)
    u.prelude('common.rs')
    u.prelude('json_types_stub.rs')
    u.prelude('shim_take_at.rs')
    emit_error_enum(u)
    emit_builder_struct(u)
    for n in ['FacebookScopeMapping']:
        emit_json_struct(u, n)
    text, origin = u.get_item_text(J, r'(?m)^pub type FacebookSources\b', 'type FacebookSources', semi=True)
    u.emit_text('jsontypes::FacebookSources', text, origin)
    emit_struct(u, H, 'HermesScopeOffset')
    emit_struct(u, H, 'HermesFunctionMap')
    emit_struct(u, H, 'SourceMapHermes')
    u.raw('stub Path', '//@@ prelude path_stub\n//# assumes: std::path::Path is replaced by an opaque local type (only passed through to the filesystem option the contract excludes)\n#[verifier::external_body]\npub struct Path { _x: u8 }\n//@@ endprelude\n')
    text, origin = u.get_item_text(T, r'(?m)^pub struct RewriteOptions\b', 'struct RewriteOptions')
    text = re.sub(r'(?m)^\s*#\[[^\]]*\]\n', '', text)
    text = re.sub(r'(?m)^\s*//[^\n]*\n', '', text)
    u.count('R-attr')
    u.emit_text('types::RewriteOptions', text, origin)
    u.spec('builder.rs')
    u.spec('rewrite.rs')
    u.spec('strip.rs')
    u.spec('rewrite_post.rs')
    u.spec('hermes.rs')
    u.spec('hermes_rewrite.rs')
    import_method(u, T, r'SourceMap\b', 'rewrite_with_mapping', 'types::SourceMap::rewrite_with_mapping', 'u12_rewrite.ctr', 'u12_rewrite')

    def prep(f):
        # the two `map(|idx| X.get_mut(i).and_then(Option::take))` closures capture X by unique borrow: loops instead (R-map-collect),
        # the Option::map around the second one a match (R-option-map); get_mut + and_then(Option::take) through a shim
        map_collect_to_loop(f, u, expect=2)
        option_map_to_match(f, u, 'raw_facebook_sources')
        u.count('R-shim-call', f.rewrite(r'\b(\w+)\.get_mut\(([^()]*)\)\.and_then\(Option::take\)', r'verif_take_at(&mut \1, \2)', expect=2))
    emit_method(u, H, r'SourceMapHermes\b', 'rewrite', 'hermes::SourceMapHermes::rewrite', prep=prep)
