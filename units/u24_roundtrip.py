"""U24 -- spec-level round trip of a regular map over the raw document (no executable items): the writer's contract (raw_of_regular, proved for
as_raw_sourcemap in u22) and the reader's contract (decode_regular_post, proved for decode_regular in u10) compose to C01's statement"""
from .u22_encode import encode_preamble

NAME = 'u24_roundtrip'
PROPS = ['C01', 'C03', 'C07', 'C14', 'C18']
MUTANTS = []


def build(u):
    u.use_overlay('u24_roundtrip.ctr')
    encode_preamble(u, iters=False)
    from .common import emit_struct
    emit_struct(u, 'src/types.rs', 'Token', keep_derive=True)
    for pr in ['shim_str_bytes.rs', 'shim_string_bytes.rs', 'shim_ascii.rs', 'shim_split.rs', 'shim_option_or.rs', 'derive_eq_rawtoken.rs']:
        u.prelude(pr)
    import re
    u.raw('IgnoredAny', '//@@ prelude ignored_any_stub\n//# assumes: serde::de::IgnoredAny is a unit marker\n#[verifier::external_body]\npub struct IgnoredAny { _x: u8 }\n//@@ endprelude\n')
    text, origin = u.get_item_text('src/jsontypes.rs', r'(?m)^pub struct MinimalRawSourceMap\b', 'struct MinimalRawSourceMap')
    text = re.sub(r'(?m)^\s*#\[(?:serde|derive)\([^\]]*\)\]\n', '', text)
    u.emit_text('jsontypes::MinimalRawSourceMap', text, origin)
    u.spec('detect_rule.rs')
    for sp in ['mappings.rs', 'mappings_dec.rs', 'mappings_inverse.rs', 'rmi_inverse.rs', 'rmi_roundtrip.rs', 'decode_regular.rs', 'hermes.rs', 'hermes_decode.rs', 'hermes_wrap.rs', 'doc_roundtrip.rs']:
        u.spec(sp)
