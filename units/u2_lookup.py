"""U2 -- lookup and ordering: utils::greatest_lower_bound, RawToken/Token/SourceMap definitions,
Token getters, SourceMap::{new, get_token, get_token_count, tokens, lookup_token}, TokenIter::next"""
from .common import emit_struct, emit_method, inspect_to_if, emit_free_fn

NAME = 'u2_lookup'
PROPS = ['C04', 'C07', 'C05', 'C02', 'C13', 'C08', 'C14']

T = 'src/types.rs'


# mutation canaries (thorough tier): textual mutations of the EXTRACTED copy that must each fail an obligation of the named item
MUTANTS = [
    ('utils::greatest_lower_bound', '\\(0\\.\\.idx\\)\\.rev\\(\\)', '(1..idx).rev()'),
    ('utils::greatest_lower_bound', 'index\\.checked_sub\\(1\\)', 'index.checked_sub(2)'),
    ('types::SourceMap::lookup_token', 'token\\.is_range\\(\\) && token\\.get_dst_line\\(\\) == line', 'token.is_range()'),
    ('types::Token::get_src_col', 'saturating_add', 'wrapping_add'),
    ('types::TokenIter::seek', r'self\.next_idx = token\.idx \+ 1;', 'self.next_idx = token.idx;'),
]


def build(u):
    u.use_overlay('u2_lookup.ctr')
    u.use('use vstd::std_specs::cmp::*;')
    u.use('use vstd::std_specs::hash::*;')
    u.use('use std::cmp::Ordering;')
    u.use('use std::sync::Arc;')
    u.use('use std::collections::BTreeSet;')
    u.prelude('arc_str.rs')
    u.prelude('types_stubs.rs')
    u.spec('order.rs')
    u.prelude('shim_slice.rs')
    emit_struct(u, T, 'RawToken', keep_derive=True)
    emit_struct(u, T, 'Token', keep_derive=True)
    emit_struct(u, T, 'SourceMap')
    emit_struct(u, T, 'TokenIter')
    u.spec('tokens.rs')
    u.spec('token_iter.rs')

    emit_free_fn(u, 'src/utils.rs', 'greatest_lower_bound', 'utils::greatest_lower_bound',
                 prep=lambda f: u.count('R-closure', f.annotate_closure('res', "res: &'a T", "(o: (usize, &'a T)) ensures o == $BODY", expect=2)))

    for g in ['get_dst_line', 'get_dst_col', 'get_dst', 'get_src_line', 'get_src_col', 'get_src', 'get_src_id',
              'has_source', 'get_name_id', 'get_raw_token', 'is_range']:
        emit_method(u, T, r"<'a> Token<'a>", g, 'types::Token::' + g)

    def prep_get_token(f):
        u.count('R-closure', f.annotate_closure('raw', 'raw: &RawToken',
                "(o: Token<'_>) ensures o.raw == raw && o.sm == self && o.idx == idx && o.offset == 0", expect=1))
    emit_method(u, T, r'SourceMap\b', 'get_token', 'types::SourceMap::get_token', prep=prep_get_token)
    emit_method(u, T, r'SourceMap\b', 'get_token_count', 'types::SourceMap::get_token_count')
    emit_method(u, T, r'SourceMap\b', 'tokens', 'types::SourceMap::tokens')

    def prep_next(f):
        inspect_to_if(f, u)
    emit_method(u, T, r"<'a> Iterator for TokenIter<'a>", 'next', 'types::TokenIter::next', prep=prep_next)

    def prep_lookup(f):
        u.count('R-closure', f.annotate_closure('t', 't: &RawToken', '(k: (u32, u32)) ensures k == $BODY', expect=1))
    emit_method(u, T, r'SourceMap\b', 'lookup_token', 'types::SourceMap::lookup_token', prep=prep_lookup)
    # positions the iterator just after the token that (line, col) resolves to
    emit_method(u, T, r"TokenIter<'_>", 'seek', 'types::TokenIter::seek')

    def prep_new(f):
        u.count('R-shim-call', f.rewrite(r'\b([a-z_]+)\.sort_unstable_by_key\(', r'verif_sort_unstable_by_key(&mut \1, ', expect=1))
        u.count('R-closure', f.annotate_closure('t', 't: &RawToken', '(k: (u32, u32)) ensures k == $BODY', expect=1))
        u.count('R-closure', f.annotate_closure('opt', 'opt: Option<Arc<str>>',
                '(o: Option<SourceView>) ensures (opt matches Some(a) ==> (o matches Some(v) && sv_text(&v) == arc_chars(&a))), (opt is None ==> o is None)', expect=1))
    emit_method(u, T, r'SourceMap\b', 'new', 'types::SourceMap::new', prep=prep_new)
