"""U3 -- XSSI junk header: decoder::{HeaderState, StripHeaderReader, is_junk_json, StripHeaderReader::{new, read,
strip_head_read}, strip_junk_header}"""
import re
from .common import emit_struct, emit_method, refpat_for, impl_header, emit_free_fn, guarded

NAME = 'u3_header'
PROPS = ['C12', 'C05']
D = 'src/decoder.rs'


# mutation canaries (thorough tier): textual mutations of the EXTRACTED copy that must each fail an obligation of the named item
MUTANTS = [
    ('decoder::StripHeaderReader::strip_head_read', "if byte == b'\\\\r' \\{", "if byte == b'\\t' {"),
    ('decoder::StripHeaderReader::strip_head_read', '&local_buf\\[offset\\.\\.read\\]', '&local_buf[0..rem]'),
    ('decoder::strip_junk_header', '&slice\\[idx\\.\\.\\]', '&slice[idx + 1..]'),
    ('decoder::is_junk_json', "byte == b'\\}'", "byte == b'{'"),
]


def build(u):
    u.use_overlay('u3_header.ctr')
    u.use('use std::io;')
    u.use('use std::io::Read;')
    u.use('use vstd::std_specs::cmp::*;')
    u.macro_from_repo('src/macros.rs', 'fail')
    u.prelude('common_io.rs')
    u.prelude('io_read.rs')
    u.prelude('shim_enumerate.rs')
    emit_struct(u, D, 'HeaderState', kind='enum', keep_derive=True)
    emit_struct(u, D, 'StripHeaderReader')
    u.prelude('derive_eq_headerstate.rs')
    u.spec('header.rs')

    emit_free_fn(u, D, 'is_junk_json', 'decoder::is_junk_json')

    emit_method(u, D, r'<R: Read> StripHeaderReader<R>', 'new', 'decoder::StripHeaderReader::new')

    def prep_shr(f):
        refpat_for(f, u)
        u.count('R-shim-call', f.rewrite(r'\.enumerate\(\)', '.verif_enumerate()', expect=1))
        u.count('R-shim-call', f.rewrite(r'\bio::Error::new\(', 'verif_io_error_new(', expect=1))
    emit_method(u, D, r'<R: Read> StripHeaderReader<R>', 'strip_head_read', 'decoder::StripHeaderReader::strip_head_read', prep=prep_shr)

    # R-trait-inherent: the body of `impl Read for StripHeaderReader<R>::read` is verified as an inherent
    # method (Verus accepts no extra ensures on an impl of an external trait); text unchanged
    u.count('R-trait-inherent')
    guarded(u, 'decoder::StripHeaderReader::read', lambda: u.get_fn(D, 'read', impl=r'<R: Read> Read for StripHeaderReader<R>'), None,
            wrap=lambda: ('impl<R: Read> StripHeaderReader<R> {', '}'))

    def prep_sjh(f):
        refpat_for(f, u)
        u.count('R-shim-call', f.rewrite(r'\.enumerate\(\)', '.verif_enumerate()', expect=1))
        u.count('R-shim-call', f.rewrite(r'\bio::Error::new\(', 'verif_io_error_new(', expect=1))
        u.count('R-continue', f.drop_tail_continues())
    emit_free_fn(u, D, 'strip_junk_header', 'decoder::strip_junk_header', prep=prep_sjh)
