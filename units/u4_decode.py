"""U4 -- decoder: decode_rmi and the mapping loop nest of decode_regular (R-outline)"""
import re
from vx.rs import Fn, LostAnchor
from .common import emit_struct, emit_error_enum, refpat_for, import_method, emit_free_fn, guarded

NAME = 'u4_decode'
PROPS = ['C06', 'C07', 'C05', 'C02', 'C01']
D = 'src/decoder.rs'
T = 'src/types.rs'

DROPPED = {
    'names': 'let names = rsm.names.unwrap_or_default();',
    'sources': 'let sources = rsm.sources.unwrap_or_default();',
    'range_mappings': 'let range_mappings = rsm.range_mappings.unwrap_or_default();',
    'mappings': 'let mappings = rsm.mappings.unwrap_or_default();',
    'allocation_size': "let allocation_size = mappings.matches(&[',', ';'][..]).count() + 10;",
    'tokens': 'let mut tokens = Vec::with_capacity(allocation_size);',
}
SIG = ('pub fn decode_regular__mappings_loop(mappings: &str, range_mappings: &str, sources: &Vec<Option<String>>, '
       'names: &Vec<Value>, tokens: &mut Vec<RawToken>) -> Result<()> {\n')


# mutation canaries (thorough tier): textual mutations of the EXTRACTED copy that must each fail an obligation of the named item
MUTANTS = [
    ('decoder::decode_regular__mappings_loop', 'nums\\.len\\(\\) != 4 && nums\\.len\\(\\) != 5', 'nums.len() != 4 && nums.len() != 5 && nums.len() != 3'),
    ('decoder::decode_regular__mappings_loop', '\\n\\s*dst_col = 0;\\n', '\n'),
    ('decoder::decode_regular__mappings_loop', 'next_src_id < 0 \\|\\| ', ''),
    ('decoder::decode_regular__mappings_loop', 'rmi\\.get\\(line_index\\)', 'rmi.get(line_index + 1)'),
    ('decoder::decode_rmi', "byte - b'a' \\+ 26", "byte - b'a' + 25"),
]


def outline_mapping_loop(u):
    """R-outline: statements of decode_regular up to and including its first loop, verbatim, as a
    function of their free variables.  The six `let` bindings that only unpack `rsm` (names listed in
    DROPPED; verified in U10, where they feed the call of this function) become the parameter list; `Ok(())` closes the function."""
    f = u.get_fn(D, 'decode_regular')
    stmts = f.top_level_stmts()
    loops = f.loops()
    if not loops:
        raise LostAnchor('decode_regular: no loop')
    first = loops[0]
    kept = []
    seen = set()
    for a, b in stmts:
        text = f.text[a:b]
        if a > first['kw_pos']:
            break
        m = re.match(r'let (?:mut )?([a-z_]+)\b', text)
        norm = ' '.join(text.split())
        if m and m.group(1) in DROPPED:
            # what the bindings are is verified where decode_regular is put together (U10: they stay verbatim there and feed the call of this function)
            seen.add(m.group(1))
            continue
        kept.append(text)
    if seen != set(DROPPED):
        raise LostAnchor('decode_regular: expected bindings missing: %s' % sorted(set(DROPPED) - seen))
    body = ''.join('    ' + k.strip('\n') + '\n' for k in kept)
    text = SIG + body + '\n    Ok(())\n}\n'
    u.count('R-outline')
    g = Fn(text, origin=f.origin, name='decode_regular__mappings_loop')
    return g


def build(u):
    u.use_overlay('u4_decode.ctr')
    u.macro_from_repo('src/macros.rs', 'fail')
    u.prelude('common.rs')
    u.prelude('shim_str_bytes.rs')
    u.prelude('shim_int.rs')
    u.prelude('shim_enumerate.rs')
    u.prelude('shim_split.rs')
    u.prelude('bitvec_stub.rs')
    u.prelude('json_stub.rs')
    emit_error_enum(u)
    emit_struct(u, T, 'RawToken', keep_derive=True)
    u.spec('vlq.rs')
    u.spec('mappings.rs')
    u.spec('bits.rs')
    u.spec('mappings_dec.rs')
    # proved in U1
    f = u.get_fn('src/vlq.rs', 'parse_vlq_segment_into')
    u.import_fn(f, 'vlq::parse_vlq_segment_into', 'u1_vlq.ctr', 'u1_vlq')

    def prep_rmi(f):
        u.count('R-stub-type', f.rewrite(r'BitVec<u8, Lsb0>', 'BitVec'))
        u.count('R-shim-call', f.rewrite(r'\b([a-z_]+)\.len\(\) \* 6', r'verif_str_len(\1) * 6', expect=1))
        u.count('R-shim-call', f.rewrite(r'\b([a-z_]+)\.as_bytes\(\)', r'verif_str_as_bytes(\1)', expect=1))
        refpat_for(f, u)
        u.count('R-shim-call', f.rewrite(r'\.enumerate\(\)', '.verif_enumerate()', expect=1))
        u.count('R-shim-call', f.rewrite(r'\b([a-z_]+)\[(.+?)\.\.(.+?)\]\.store_le::<u8>\(([a-z_]+)\)', r'verif_bits_store_le_u8(\1, \2, \3, \4)', expect=1))
    emit_free_fn(u, D, 'decode_rmi', 'decoder::decode_rmi', prep=prep_rmi)

    def prep_loop(g):
        u.count('R-shim-call', g.rewrite(r"\b([a-z_]+)\s*\.split\('(.)'\)", r"verif_split(\1, '\2')", expect=3))
        u.count('R-shim-call', g.rewrite(r'(?s)\.zip\((.*?)\.chain\(std::iter::repeat\((.*?)\)\)\)', r'.verif_zip_pad(\1, \2)', expect=1))
        u.count('R-shim-call', g.rewrite(r'\.enumerate\(\)', '.verif_enumerate()', expect=2))
        u.count('R-shim-call', g.rewrite(r'\b([a-z_]+)\.is_empty\(\)', r'verif_str_is_empty(\1)', expect=2))
        u.count('R-continue', g.guard_continues())
        u.count('R-closure', g.annotate_closure('v', 'v: &bool', '(b: bool) ensures b == *v', expect=1))
    guarded(u, 'decoder::decode_regular__mappings_loop', lambda: outline_mapping_loop(u), prep_loop, wrap=lambda: None)
