"""U5 -- encoder: encode_vlq_diff, serialize_mappings (src/encoder.rs)"""
from .common import emit_struct, emit_method, import_method, emit_error_enum, impl_header, emit_free_fn
from .u6_root import prelude_types

NAME = 'u5_encode'
PROPS = ['C03', 'C01', 'C05', 'C11', 'C07']
E = 'src/encoder.rs'
T = 'src/types.rs'


# mutation canaries (thorough tier): textual mutations of the EXTRACTED copy that must each fail an obligation of the named item
MUTANTS = [
    ('encoder::serialize_mappings', '\\n\\s*prev_dst_col = 0;\\n', '\n'),
    ('encoder::serialize_mappings', 'encode_vlq_diff\\(&mut rv, token\\.get_src_line\\(\\), prev_src_line\\)', 'encode_vlq_diff(&mut rv, token.get_src_line(), prev_src_col)'),
    ('encoder::serialize_range_mappings', '\\n\\s*idx_in_line = 0;\\n', '\n'),
    ('encoder::encode_rmi', 'bits\\.chunks\\(6\\)', 'bits.chunks(5)'),
    ('encoder::encode_vlq_diff', 'i64::from\\(a\\) - i64::from\\(b\\)', 'i64::from(b) - i64::from(a)'),
]


def common_types(u):
    prelude_types(u)
    u.prelude('shim_enumerate.rs')
    u.prelude('shim_int.rs')
    emit_struct(u, T, 'RawToken', keep_derive=True)
    u.prelude('derive_eq_rawtoken.rs')
    emit_struct(u, T, 'Token', keep_derive=True)
    emit_struct(u, T, 'SourceMap')
    emit_struct(u, T, 'TokenIter')
    u.spec('order.rs')
    u.spec('tokens.rs')
    u.spec('token_iter.rs')
    u.spec('token_eq.rs')
    u.spec('root.rs')
    # Token's PartialEq: real text, checked by Verus against spec/token_eq.rs
    f = u.get_fn(T, 'eq', impl=r"PartialEq for Token<'_>")
    u.emit_fn(f, 'types::Token::eq', wrap=(impl_header(u, T, r"PartialEq for Token<'_>", 'eq'), '}'), contracted=False)
    for g in ['get_dst_line', 'get_dst_col', 'get_src_line', 'get_src_col', 'get_src_id', 'has_source', 'get_name_id', 'is_range']:
        import_method(u, T, r"<'a> Token<'a>", g, 'types::Token::' + g, 'u2_lookup.ctr', 'u2_lookup')
    for g in ['get_name', 'has_name']:
        import_method(u, T, r"<'a> Token<'a>", g, 'types::Token::' + g, 'u6_root.ctr', 'u6_root')
    for g in ['get_token', 'tokens']:
        import_method(u, T, r'SourceMap\b', g, 'types::SourceMap::' + g, 'u2_lookup.ctr', 'u2_lookup')
    import_method(u, T, r"<'a> Iterator for TokenIter<'a>", 'next', 'types::TokenIter::next', 'u2_lookup.ctr', 'u2_lookup')


def build(u):
    u.use_overlay('u5_encode.ctr')
    common_types(u)
    u.spec('vlq.rs')
    u.prelude('bitvec_stub.rs')
    u.spec('mappings_enc.rs')
    u.spec('bits.rs')
    u.spec('rmi_enc.rs')
    u.spec('rmi_inverse.rs')
    f = u.get_fn('src/vlq.rs', 'encode_vlq')
    u.import_fn(f, 'vlq::encode_vlq', 'u1_vlq.ctr', 'u1_vlq')

    emit_free_fn(u, E, 'encode_vlq_diff', 'encoder::encode_vlq_diff')

    def prep_sm(f):
        u.count('R-shim-call', f.rewrite(r'\.enumerate\(\)', '.verif_enumerate()', expect=1))
        u.count('R-continue', f.flag_continues())
    emit_free_fn(u, E, 'serialize_mappings', 'encoder::serialize_mappings', prep=prep_sm)

    # R-unnest: the helper nested in encode_rmi is lifted to the top level (Verus has no nested fn items)
    u.count('R-unnest')
    emit_free_fn(u, E, 'encode_byte', 'encoder::encode_rmi::encode_byte', outer='encode_rmi')

    def prep_er(f):
        # drop the nested fn item from the body (it is emitted above)
        f.rewrite(r'(?s)\n    fn encode_byte\(b: u8\) -> u8 \{.*?\n    \}\n', '\n', expect=1)
        u.count('R-shim-call', f.rewrite(r'\.enumerate\(\)', '.verif_enumerate()', expect=1))
        u.count('R-shim-call', f.rewrite(r'&([a-z_]+)\[\.\.(.+?)\];', r'\1.verif_prefix(\2);', expect=1))
    emit_free_fn(u, E, 'encode_rmi', 'encoder::encode_rmi', prep=prep_er)

    def prep_srm(f):
        u.count('R-shim-call', f.rewrite(r'\.enumerate\(\)', '.verif_enumerate()', expect=1))
        u.count('R-continue', f.guard_continues())
        u.count('R-shim-call', f.rewrite(r'(?s)let ([a-z_]+) = ([a-z_]+)\.view_bits_mut::<Lsb0>\(\);\s*\1\.set\(([a-z_]+), (true|false)\);', r'verif_bytes_set_bit(&mut \2, \3, \4);', expect=1))
        u.count('R-shim-call', f.rewrite(r'String::from_utf8\(([a-z_]+)\)\.expect\("[^"]*"\)', r'verif_string_from_utf8_ascii(\1)', expect=1))
    emit_free_fn(u, E, 'serialize_range_mappings', 'encoder::serialize_range_mappings', prep=prep_srm)
