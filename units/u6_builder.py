"""U6b -- SourceMapBuilder (src/builder.rs) as an interning model"""
import re
from .common import emit_struct, emit_method, str_shims, fxhashmap, mono, import_method
from .u6_root import prelude_types

NAME = 'u6_builder'
PROPS = ['C13', 'C09', 'C08', 'C05', 'C04']
B = 'src/builder.rs'
T = 'src/types.rs'
IMPL = r'SourceMapBuilder\b'


# mutation canaries (thorough tier): textual mutations of the EXTRACTED copy that must each fail an obligation of the named item
MUTANTS = [
    ('builder::SourceMapBuilder::strip_prefixes', r"verif_string_push\(&mut prefix, '/'\);", ''),
    ('builder::SourceMapBuilder::strip_prefixes', r'(?m)^\s*break;\n', ''),
    ('builder::SourceMapBuilder::add_source_with_id', 'if id == count \\{', 'if id >= count || id == 0 {'),
    ('builder::SourceMapBuilder::add_source_with_id', 'self\\.sources_mapping\\.push\\(old_id\\);', 'self.sources_mapping.push(id);'),
    ('builder::SourceMapBuilder::set_source_contents', 'self\\.sources\\.len\\(\\) > self\\.source_contents\\.len\\(\\)', 'self.sources.len() != self.source_contents.len()'),
    ('builder::SourceMapBuilder::add_token', 'token\\.get_src_id\\(\\),', 'token.get_name_id(),'),
]


def emit_builder_struct(u):
    text, origin = u.get_item_text(B, r'(?m)^pub struct SourceMapBuilder\b', 'struct SourceMapBuilder')
    text = re.sub(r'(?m)^\s*//[/!][^\n]*\n', '', text)
    text = fxhashmap(text, u)
    text, n = re.subn(r'(?m)^(\s+)([a-z_][a-z0-9_]*: )', r'\1pub \2', text)
    u.count('R-vis', n)
    u.emit_text('builder::SourceMapBuilder', text, origin)


def build(u):
    u.use_overlay('u6_builder.ctr')
    prelude_types(u)
    u.prelude('shim_mem.rs')
    u.prelude('shim_btreeset.rs')
    emit_struct(u, T, 'RawToken', keep_derive=True)
    emit_struct(u, T, 'Token', keep_derive=True)
    emit_struct(u, T, 'SourceMap')
    emit_builder_struct(u)
    u.spec('order.rs')
    u.spec('tokens.rs')
    u.spec('root.rs')
    u.spec('builder.rs')
    u.spec('strip.rs')
    u.prelude('shim_strip.rs')
    # contracts proved in other units (cross-unit imports)
    for g in ['get_dst_line', 'get_dst_col', 'get_src_line', 'get_src_col', 'get_src_id', 'is_range']:
        import_method(u, T, r"<'a> Token<'a>", g, 'types::Token::' + g, 'u2_lookup.ctr', 'u2_lookup')
    for g in ['get_source', 'get_name']:
        import_method(u, T, r"<'a> Token<'a>", g, 'types::Token::' + g, 'u6_root.ctr', 'u6_root')
    import_method(u, T, r'SourceMap\b', 'new', 'types::SourceMap::new', 'u2_lookup.ctr', 'u2_lookup')
    import_method(u, T, r'SourceMap\b', 'set_source_root', 'types::SourceMap::set_source_root', 'u6_root.ctr', 'u6_root',
                  prep=lambda f: mono(f, u, 'T', r'Into<Arc<str>>', 'Arc<str>'))
    for g in ['set_debug_id', 'add_to_ignore_list']:
        import_method(u, T, r'SourceMap\b', g, 'types::SourceMap::' + g, 'u6_root.ctr', 'u6_root')

    def prep(f):
        f.text = fxhashmap(f.text, u)
        f._rescan()
        str_shims(f, u)
        u.count('R-shim-call', f.rewrite(r'\bstd::mem::take\(', 'verif_mem_take_vec('))
        u.count('R-shim-call', f.rewrite(r'\bin self\.ignore_list \{', 'in verif_btreeset_into_iter(self.ignore_list) {'))
    def prep_mono(f):
        prep(f)
    def prep_get(f):
        prep(f)
        if f.text.count('|x|') == 2:
            u.count('R-closure', f.annotate_closure('x', 'x: &Arc<str>', "(o: &str) ensures o@ == arc_chars(x)", nth=1))
            u.count('R-closure', f.annotate_closure('x', 'x: &Option<Arc<str>>',
                    "(o: Option<&str>) ensures (x matches Some(a) ==> (o matches Some(s) && s@ == arc_chars(a))), (x is None ==> o is None)", nth=0))
        elif '|x|' in f.text:
            u.count('R-closure', f.annotate_closure('x', 'x: &Arc<str>', "(o: &str) ensures o@ == arc_chars(x)"))
    for g in ['new', 'add_source_with_id', 'add_source', 'add_name', 'set_debug_id', 'get_file', 'get_source_root', 'get_source',
              'add_to_ignore_list', 'set_source_contents', 'get_source_contents', 'has_source_contents', 'add_with_id', 'add_raw', 'take_mapping', 'add', 'add_token', 'into_sourcemap']:
        emit_method(u, B, IMPL, g, 'builder::SourceMapBuilder::' + g, prep=prep_get if g in ('get_source', 'get_source_contents') else prep)
    for g in ['set_file', 'set_source_root']:
        emit_method(u, B, IMPL, g, 'builder::SourceMapBuilder::' + g, prep=prep_mono, sig_prep=lambda f: mono(f, u, 'T', r'Into<Arc<str>>', 'Arc<str>'))

    def prep_strip(f):
        n = f.rewrite(r'\bprefix\.as_ref\(\)\.to_string\(\)', 'verif_as_ref_to_string(prefix)', expect=1)
        n += f.rewrite(r"!prefix\.ends_with\(('(?:\\.[^']*|[^'\\])')\)", r"!verif_string_ends_with_char(&prefix, \1)", expect=1)
        n += f.rewrite(r"\bprefix\.push\(('(?:\\.[^']*|[^'\\])')\)", r"verif_string_push(&mut prefix, \1)", expect=1)
        n += f.rewrite(r'\bsource\.starts_with\(&prefix\)', 'verif_arc_starts_with(&*source, &prefix)', expect=1)
        n += f.rewrite(r'\bsource\[prefix\.len\(\)\.\.\]\.into\(\)', 'verif_arc_after_prefix(&*source, &prefix)', expect=1)
        u.count('R-shim-call', n)
    # R-mono: verified for S = String (the only instantiation in the crate: rewrite_with_mapping passes a Vec<String>)
    emit_method(u, B, IMPL, 'strip_prefixes', 'builder::SourceMapBuilder::strip_prefixes', prep=prep_strip, sig_prep=lambda f: mono(f, u, 'S', r'AsRef<str>', 'String'))

    # the builder's in-place setter
    def prep_bset(f):
        # R-assert-macro: `assert!(C, "msg")` -> `assert!(C)` is not needed: Verus reads the std macro; the message argument is dropped
        u.count('R-fmt-msg', f.rewrite(r'assert!\((src_id != !0), "[^"]*"\);', r'assert!(\1);', expect=1))
    emit_method(u, B, IMPL, 'set_source', 'builder::SourceMapBuilder::set_source', prep=prep_bset)
