"""U6a -- SourceMap root / source / contents setters and getters (src/types.rs)"""
from .common import emit_struct, emit_method, str_shims, fmt_to_concat, mono

NAME = 'u6_root'
PROPS = ['C13', 'C02', 'C04', 'C05', 'C01', 'C09', 'C08', 'C03']
T = 'src/types.rs'


# mutation canaries (thorough tier): textual mutations of the EXTRACTED copy that must each fail an obligation of the named item
MUTANTS = [
    ('types::SourceMap::prefix_source', '"http:"', '"htp:"'),
    ('types::SourceMap::prefix_source', "verif_strip_suffix_char\\('/'\\)", "verif_strip_suffix_char('\\\\')"),
    ('types::SourceMap::set_source_root', 'None => self\\.sources_prefixed = None', 'None => {}'),
    ('types::SourceMap::set_source', 'sources_prefixed\\[idx as usize\\] =', 'sources_prefixed[0] ='),
]


def prelude_types(u):
    u.use('use vstd::std_specs::cmp::*;')
    u.use('use vstd::std_specs::hash::*;')
    u.use('use std::cmp::Ordering;')
    u.use('use std::sync::Arc;')
    u.use('use std::collections::BTreeSet;')
    u.use('use std::collections::HashMap;')
    u.prelude('arc_str.rs')
    u.prelude('types_stubs.rs')
    u.prelude('shim_str.rs')
    u.prelude('shim_fmt.rs')


def build(u):
    u.use_overlay('u6_root.ctr')
    prelude_types(u)
    emit_struct(u, T, 'RawToken', keep_derive=True)
    emit_struct(u, T, 'SourceMap')
    emit_struct(u, T, 'Token', keep_derive=True)
    u.spec('root.rs')

    def prep(f):
        str_shims(f, u)
        fmt_to_concat(f, u)
    emit_method(u, T, r'SourceMap\b', 'prefix_source', 'types::SourceMap::prefix_source', prep=prep)

    def prep_ssr(f):
        str_shims(f, u)
        u.count('R-closure', f.annotate_closure('rs', 'rs: &&str', '(b: bool) ensures b == !(rs@.len() == 0)', expect=1))
        u.count('R-closure', f.annotate_closure('source', 'source: &Arc<str>',
                '(o: Arc<str>) ensures arc_chars(&o) == prefix_spec(source_root@, arc_chars(source))', expect=1))
    emit_method(u, T, r'SourceMap\b', 'set_source_root', 'types::SourceMap::set_source_root', prep=prep_ssr,
                sig_prep=lambda f: mono(f, u, 'T', r'Into<Arc<str>>', 'Arc<str>'))
    def prep_get(f):
        str_shims(f, u)
        if '|x|' in f.text:
            u.count('R-closure', f.annotate_closure('x', 'x: &Arc<str>', "(o: &str) ensures o@ == arc_chars(x)", expect=1))
    def prep_ssc(f):
        u.count('R-closure', f.annotate_closure('x', 'x: &str', "(o: SourceView) ensures sv_text(&o) == x@", expect=1))
    # R-mono, second instantiation (T = String, as decode_regular calls it); emitted under another name so that both coexist
    def sig_string(f):
        mono(f, u, 'T', r'Into<Arc<str>>', 'String')
        f.rewrite(r'\bfn set_source_root\b', 'fn set_source_root__string', expect=1)
    emit_method(u, T, r'SourceMap\b', 'set_source_root', 'types::SourceMap::set_source_root<String>', prep=prep_ssr, sig_prep=sig_string)
    for g in ['get_source_root', 'get_source', 'set_source', 'get_source_count', 'get_source_contents', 'set_source_contents',
              'get_name', 'get_name_count', 'get_debug_id', 'set_debug_id', 'get_file', 'add_to_ignore_list', 'remove_names']:
        emit_method(u, T, r'SourceMap\b', g, 'types::SourceMap::' + g, prep=prep_ssc if g == 'set_source_contents' else prep_get)
    for g in ['get_source', 'get_name', 'has_name']:
        emit_method(u, T, r"<'a> Token<'a>", g, 'types::Token::' + g)
    for g in ['get_source_view', 'has_names']:
        emit_method(u, T, r'SourceMap\b', g, 'types::SourceMap::' + g)
    # R-mono (T = Arc<str>), as for the builder's set_file
    emit_method(u, T, r'SourceMap\b', 'set_file', 'types::SourceMap::set_file', sig_prep=lambda f: mono(f, u, 'T', r'Into<Arc<str>>', 'Arc<str>'))
