"""U7 -- index maps: SourceMapSection getters, SourceMapIndex::{get_section, lookup_token}"""
import re
from .common import emit_struct, emit_method, import_method, str_shims
from .u6_root import prelude_types

NAME = 'u7_index'
PROPS = ['C08', 'C05', 'C07', 'C04', 'C14']
T = 'src/types.rs'


# mutation canaries (thorough tier): textual mutations of the EXTRACTED copy that must each fail an obligation of the named item
MUTANTS = [
    ('types::SourceMapIndex::lookup_token', 'if line == off_line \\{ col - off_col \\} else \\{ col \\}', 'col.saturating_sub(off_col)'),
    ('types::SourceMapIndex::lookup_token', 'line - off_line', 'line'),
    ('types::DecodedMap::lookup_token', 'DecodedMap::Index\\(ref smi\\) => smi\\.lookup_token\\(line, col\\)', 'DecodedMap::Index(ref smi) => smi.lookup_token(line, 0)'),
    ('types::DecodedMap::lookup_token', 'DecodedMap::Hermes\\(ref smh\\) => smh\\.lookup_token\\(line, col\\)', 'DecodedMap::Hermes(ref smh) => None'),
]


def build(u):
    u.use_overlay('u7_index.ctr')
    prelude_types(u)
    u.prelude('shim_slice.rs')
    u.prelude('shim_box.rs')
    emit_struct(u, T, 'RawToken', keep_derive=True)
    emit_struct(u, T, 'Token', keep_derive=True)
    emit_struct(u, T, 'SourceMap')
    emit_struct(u, T, 'SourceMapSection')
    emit_struct(u, T, 'SourceMapIndex')
    # DecodedMap with the Hermes payload reduced to its inner map (hermes.rs is outside this unit)
    text, origin = u.get_item_text(T, r'(?m)^pub enum DecodedMap\b', 'enum DecodedMap')
    text = re.sub(r'(?m)^#\[derive\([^\]]*\)\]\n', '', text)
    text = re.sub(r'(?m)^\s*//[/!][^\n]*\n', '', text)
    u.count('R-derive')
    u.emit_text('types::DecodedMap', text, origin)
    H = 'src/hermes.rs'
    emit_struct(u, H, 'HermesScopeOffset')
    emit_struct(u, H, 'HermesFunctionMap')
    u.raw('stub FacebookSources', '//@@ prelude facebook_sources_stub\n//# assumes: jsontypes::FacebookSources is an opaque payload here\n#[verifier::external_body]\npub struct FacebookSources { _x: u8 }\n//@@ endprelude\n')
    emit_struct(u, H, 'SourceMapHermes')
    u.use('use std::ops::Deref;')
    # the real Deref impl of SourceMapHermes: `smh.lookup_token(..)` in the dispatch goes through it
    emit_method(u, H, r'Deref for SourceMapHermes', 'deref', 'hermes::SourceMapHermes::deref')
    u.spec('order.rs')
    u.spec('tokens.rs')
    u.spec('index.rs')
    u.spec('sm_lookup.rs')
    u.spec('index_lookup.rs')
    import_method(u, T, r'SourceMap\b', 'lookup_token', 'types::SourceMap::lookup_token', 'u2_lookup.ctr', 'u2_lookup',
                  prep=lambda f: f.annotate_closure('t', 't: &RawToken', '(k: (u32, u32)) ensures k == $BODY', expect=1))
    emit_method(u, T, r'DecodedMap\b', 'lookup_token', 'types::DecodedMap::lookup_token')
    for g in ['get_offset_line', 'get_offset_col', 'get_offset', 'get_sourcemap']:
        emit_method(u, T, r'SourceMapSection\b', g, 'types::SourceMapSection::' + g,
                    prep=lambda f: u.count('R-shim-call', f.rewrite(r'\bBox::as_ref\b', 'verif_box_as_ref')))
    for g in ['get_section_count', 'get_section', 'lookup_token']:
        emit_method(u, T, r'SourceMapIndex\b', g, 'types::SourceMapIndex::' + g)
    # constructors / setters / RAM-bundle accessors (the fields an index map hands on)
    for g in ['new', 'is_for_ram_bundle']:
        emit_method(u, T, r'SourceMapIndex\b', g, 'types::SourceMapIndex::' + g)
    emit_method(u, T, r'SourceMapSection\b', 'set_sourcemap', 'types::SourceMapSection::set_sourcemap')
    f = u.get_fn('src/utils.rs', 'greatest_lower_bound')
    f.annotate_closure('res', "res: &'a T", "(o: (usize, &'a T)) ensures o == $BODY", expect=2)
    u.import_fn(f, 'utils::greatest_lower_bound', 'u2_lookup.ctr', 'u2_lookup')
