"""U8 -- Hermes scope lookup: SourceMapHermes::get_scope_for_token (src/hermes.rs)"""
import re
from .common import emit_struct, emit_method, import_method
from .u6_root import prelude_types

NAME = 'u8_hermes'
PROPS = ['C14', 'C05', 'C17']
T = 'src/types.rs'
H = 'src/hermes.rs'


# mutation canaries (thorough tier): textual mutations of the EXTRACTED copy that must each fail an obligation of the named item
MUTANTS = [
    ('hermes::SourceMapHermes::get_original_function_name', r'lookup_token\(0, bytecode_offset\)', 'lookup_token(bytecode_offset, 0)'),
    ('hermes::SourceMapHermes::get_scope_for_token', 'u64::from\\(token\\.get_src_line\\(\\)\\) \\+ 1', 'u64::from(token.get_src_line())'),
    ('hermes::SourceMapHermes::get_scope_for_token', 'mapping\\.name_index as usize', 'mapping.name_index as usize + 1'),
    ('types::DecodedMap::get_original_function_name', r'if line != 0 \{', 'if line != 0 && col == 0 {'),
    ('types::DecodedMap::get_original_function_name', r'smi\.get_original_function_name\(line, col, minified_name\?, source_view\?\)', 'smi.get_original_function_name(col, line, minified_name?, source_view?)'),
]


def build(u):
    u.use_overlay('u8_hermes.ctr')
    prelude_types(u)
    u.prelude('shim_slice.rs')
    u.prelude('shim_int.rs')
    emit_struct(u, T, 'RawToken', keep_derive=True)
    emit_struct(u, T, 'Token', keep_derive=True)
    emit_struct(u, T, 'SourceMap')
    emit_struct(u, H, 'HermesScopeOffset')
    emit_struct(u, H, 'HermesFunctionMap')
    u.raw('stub FacebookSources', '//@@ prelude facebook_sources_stub\n//# assumes: jsontypes::FacebookSources is an opaque payload here\n#[verifier::external_body]\npub struct FacebookSources { _x: u8 }\n//@@ endprelude\n')
    emit_struct(u, H, 'SourceMapHermes')
    u.spec('order.rs')
    u.spec('hermes.rs')
    for g in ['get_src_line', 'get_src_col', 'get_src_id']:
        import_method(u, T, r"<'a> Token<'a>", g, 'types::Token::' + g, 'u2_lookup.ctr', 'u2_lookup')
    f = u.get_fn('src/utils.rs', 'greatest_lower_bound')
    f.annotate_closure('res', "res: &'a T", "(o: (usize, &'a T)) ensures o == $BODY", expect=2)
    u.import_fn(f, 'utils::greatest_lower_bound', 'u2_lookup.ctr', 'u2_lookup')

    def prep(f):
        u.count('R-closure', f.annotate_closure('o', 'o: &HermesScopeOffset', '(k: (u64, u32)) ensures k == (o.line as u64, o.column)', expect=1))
        u.count('R-closure', f.annotate_closure('n', 'n: &String', '(s: &str) ensures s@ == n@', expect=1))
    emit_method(u, H, r'SourceMapHermes\b', 'get_scope_for_token', 'hermes::SourceMapHermes::get_scope_for_token', prep=prep)

    # the bytecode-offset entry point: lookup_token on line 0 (proved in u2), then the scope lookup
    u.spec('tokens.rs')
    u.spec('sm_lookup.rs')
    import_method(u, T, r'SourceMap\b', 'lookup_token', 'types::SourceMap::lookup_token', 'u2_lookup.ctr', 'u2_lookup')
    emit_method(u, H, r'SourceMapHermes\b', 'get_original_function_name', 'hermes::SourceMapHermes::get_original_function_name')

    # the dispatch of DecodedMap::get_original_function_name: regular and index maps need both optional arguments, Hermes maps answer on line 0 only
    u.raw('stubs for the dispatch', '''//@@ prelude dispatch_stubs
//# assumes: nothing about SourceMap:: / SourceMapIndex::get_original_function_name here beyond their being functions of their arguments (u20 has the first; the second is known finding D18); SourceMapIndex is opaque
#[verifier::external_body]
pub struct SourceMapIndex { _x: u8 }
pub uninterp spec fn gofn_regular<'a>(sm: &'a SourceMap, line: u32, col: u32, minified_name: &str, sv: &SourceView) -> Option<&'a str>;
pub uninterp spec fn gofn_index<'a>(smi: &'a SourceMapIndex, line: u32, col: u32, minified_name: &str, sv: &SourceView) -> Option<&'a str>;
impl SourceMap {
    #[verifier::external_body]
    pub fn get_original_function_name(&self, line: u32, col: u32, minified_name: &str, sv: &SourceView) -> (r: Option<&str>)
        ensures r == gofn_regular(self, line, col, minified_name, sv)
    { unimplemented!() }
}
impl SourceMapIndex {
    #[verifier::external_body]
    pub fn get_original_function_name(&self, line: u32, col: u32, minified_name: &str, sv: &SourceView) -> (r: Option<&str>)
        ensures r == gofn_index(self, line, col, minified_name, sv)
    { unimplemented!() }
}
//@@ endprelude
''')
    text, origin = u.get_item_text(T, r'(?m)^pub enum DecodedMap\b', 'enum DecodedMap')
    text = re.sub(r'(?m)^#\[derive\([^\]]*\)\]\n', '', text)
    text = re.sub(r'(?m)^\s*//[/!][^\n]*\n', '', text)
    u.count('R-derive')
    u.emit_text('types::DecodedMap', text, origin)
    emit_method(u, T, r'DecodedMap\b', 'get_original_function_name', 'types::DecodedMap::get_original_function_name')
