"""U9 -- kind dispatch (decode_common) and index decoding (decode_index): src/decoder.rs, src/jsontypes.rs"""
import re
from .common import emit_struct, emit_error_enum, emit_free_fn, import_method, emit_method
from .u6_root import prelude_types

NAME = 'u9_dispatch'
PROPS = ['C02', 'C08', 'C05', 'C01']
D = 'src/decoder.rs'
T = 'src/types.rs'
J = 'src/jsontypes.rs'

MUTANTS = [
    ('decoder::decode_common', r'rsm\.x_facebook_sources\.is_some\(\)', 'rsm.x_facebook_sources.is_none()'),
    ('decoder::decode_index', r'\n\s*verif_sort_by_key\(&mut sections, SourceMapSection::get_offset\);\n', '\n'),
    ('decoder::decode_index', r'\(raw_section\.offset\.line, raw_section\.offset\.column\)', '(raw_section.offset.column, raw_section.offset.line)'),
    ('decoder::decode_index', r'raw_section\.url,', 'None,'),
    ('decoder::decode_index', r'rsm\.x_facebook_offsets,', 'None,'),
]


def emit_json_struct(u, name):
    text, origin = u.get_item_text(J, r'(?m)^pub struct %s\b' % name, 'struct ' + name)
    text, n = re.subn(r'(?m)^\s*#\[(?:serde|derive)\([^\]]*\)\]\n', '', text)
    u.count('R-attr', n)
    text = re.sub(r'(?m)^\s*//[^\n]*\n', '', text)
    text, n = re.subn(r'(?m)^(\s+)(?:pub(?:\([a-z]+\))? )?([a-z_][a-z0-9_]*: )', r'\1pub \2', text)
    u.count('R-vis', n)
    u.emit_text('jsontypes::' + name, text, origin)


def build(u):
    u.use_overlay('u9_dispatch.ctr')
    prelude_types(u)
    u.macro_from_repo('src/macros.rs', 'fail')
    u.prelude('common.rs')
    u.prelude('shim_slice.rs')
    u.prelude('json_types_stub.rs')
    emit_error_enum(u)
    for n in ['RawSectionOffset', 'RawSection', 'FacebookScopeMapping', 'RawSourceMap']:
        emit_json_struct(u, n)
    text, origin = u.get_item_text(J, r'(?m)^pub type FacebookSources\b', 'type FacebookSources', semi=True)
    u.emit_text('jsontypes::FacebookSources', text, origin)
    emit_struct(u, T, 'RawToken', keep_derive=True)
    emit_struct(u, T, 'SourceMap')
    emit_struct(u, T, 'SourceMapSection')
    emit_struct(u, T, 'SourceMapIndex')
    text, origin = u.get_item_text(T, r'(?m)^pub enum DecodedMap\b', 'enum DecodedMap')
    text = re.sub(r'(?m)^#\[derive\([^\]]*\)\]\n', '', text)
    text = re.sub(r'(?m)^\s*//[/!][^\n]*\n', '', text)
    u.count('R-derive')
    u.emit_text('types::DecodedMap', text, origin)
    u.raw('stub SourceMapHermes', '//@@ prelude hermes_stub\n#[verifier::external_body]\npub struct SourceMapHermes { _x: u8 }\n//@@ endprelude\n')
    u.spec('order.rs')
    u.spec('index.rs')
    u.spec('index_decode.rs')
    # the three decoders behind the dispatch: bodies live in other units / are out of scope here
    u.raw('stub decoders', '''//@@ prelude decoders_stub
//# assumes: nothing about decode_regular / decode_hermes beyond their signatures (they are called, not inspected, by the dispatch)
#[verifier::external_body]
pub fn decode_regular(rsm: RawSourceMap) -> Result<SourceMap> { unimplemented!() }
#[verifier::external_body]
pub fn decode_hermes(rsm: RawSourceMap) -> Result<SourceMapHermes> { unimplemented!() }
//# assumes: the recursive call decode_index -> decode_common terminates (nesting bounded by serde_json's recursion limit); its result satisfies decode_common's own contract, proved in this unit
#[verifier::external_body]
pub fn decode_common__rec(rsm: RawSourceMap) -> (res: Result<DecodedMap>)
    ensures res matches Ok(m) ==> (if rsm.sections is Some { m is Index } else if rsm.x_facebook_sources is Some { m is Hermes } else { m is Regular })
{ unimplemented!() }
//# assumes: [T]::sort_by_key leaves a permutation sorted by the key (stable)
#[verifier::external_body]
pub fn verif_sort_by_key<T, K: Ord, F: FnMut(&T) -> K>(v: &mut Vec<T>, f: F)
    requires forall|t: &T| #[trigger] call_requires(f, (t,)),
    ensures final(v)@.len() == old(v)@.len(), final(v)@.to_multiset() == old(v)@.to_multiset(),
        forall|kf: spec_fn(T) -> K| (forall|t: &T, k: K| #[trigger] call_ensures(f, (t,), k) ==> k == kf(*t)) && ord_laws::<K>() ==> #[trigger] sorted_kf(final(v)@, kf),
{ v.sort_by_key(f) }
//@@ endprelude
''')
    import_method(u, T, r'SourceMapSection\\b'.replace('\\\\', '\\'), 'get_offset', 'types::SourceMapSection::get_offset', 'u7_index.ctr', 'u7_index')
    emit_method(u, T, r'SourceMapSection\b', 'new', 'types::SourceMapSection::new')
    emit_method(u, T, r'SourceMapIndex\b', 'new_ram_bundle_compatible', 'types::SourceMapIndex::new_ram_bundle_compatible')

    emit_free_fn(u, D, 'decode_common', 'decoder::decode_common')

    def prep_idx(f):
        u.count('R-shim-call', f.rewrite(r'\b([a-z_]+)\.sort_by_key\(', r'verif_sort_by_key(&mut \1, ', expect=1))
        # R-rec-stub: the recursive call back into decode_common goes to a stub carrying decode_common's contract;
        # termination of the mutual recursion is NOT proved (nesting depth is bounded by serde_json's recursion limit)
        u.count('R-rec-stub', f.rewrite(r'\bdecode_common\(', 'decode_common__rec(', expect=1))
        u.count('R-closure', f.annotate_closure('val', 'val: Value', '(o: String) ensures val matches Value::String(s) ==> o == s', expect=1))
    emit_free_fn(u, D, 'decode_index', 'decoder::decode_index', prep=prep_idx)
