"""U9 -- kind dispatch (decode_common) and index decoding (decode_index): src/decoder.rs, src/jsontypes.rs"""
import re
from .common import emit_struct, emit_error_enum, emit_free_fn, import_method, emit_method
from .u6_root import prelude_types

NAME = 'u9_dispatch'
PROPS = ['C02', 'C08', 'C05', 'C01', 'C06', 'C14']
D = 'src/decoder.rs'
T = 'src/types.rs'
J = 'src/jsontypes.rs'

MUTANTS = [
    ('decoder::decode_common', r'rsm\.x_facebook_sources\.is_some\(\)', 'rsm.x_facebook_sources.is_none()'),
    ('decoder::decode_index', r'\n\s*verif_sort_by_key\(&mut sections, SourceMapSection::get_offset\);\n', '\n'),
    ('decoder::decode_index', r'\(raw_section\.offset\.line, raw_section\.offset\.column\)', '(raw_section.offset.column, raw_section.offset.line)'),
    ('decoder::decode_index', r'raw_section\.url,', 'None,'),
    ('decoder::decode_index', r'rsm\.x_facebook_offsets,', 'None,'),
]


def emit_json_struct(u, name):
    text, origin = u.get_item_text(J, r'(?m)^pub struct %s\b' % name, 'struct ' + name)
    text, n = re.subn(r'(?m)^\s*#\[(?:serde|derive)\([^\]]*\)\]\n', '', text)
    u.count('R-attr', n)
    text = re.sub(r'(?m)^\s*//[^\n]*\n', '', text)
    text, n = re.subn(r'(?m)^(\s+)(?:pub(?:\([a-z]+\))? )?([a-z_][a-z0-9_]*: )', r'\1pub \2', text)
    u.count('R-vis', n)
    u.emit_text('jsontypes::' + name, text, origin)


def build(u):
    u.use_overlay('u9_dispatch.ctr')
    prelude_types(u)
    u.macro_from_repo('src/macros.rs', 'fail')
    u.prelude('common.rs')
    u.prelude('shim_slice.rs')
    u.prelude('json_types_stub.rs')
    emit_error_enum(u)
    for n in ['RawSectionOffset', 'RawSection', 'FacebookScopeMapping', 'RawSourceMap']:
        emit_json_struct(u, n)
    text, origin = u.get_item_text(J, r'(?m)^pub type FacebookSources\b', 'type FacebookSources', semi=True)
    u.emit_text('jsontypes::FacebookSources', text, origin)
    emit_struct(u, T, 'RawToken', keep_derive=True)
    emit_struct(u, T, 'SourceMap')
    emit_struct(u, T, 'SourceMapSection')
    emit_struct(u, T, 'SourceMapIndex')
    text, origin = u.get_item_text(T, r'(?m)^pub enum DecodedMap\b', 'enum DecodedMap')
    text = re.sub(r'(?m)^#\[derive\([^\]]*\)\]\n', '', text)
    text = re.sub(r'(?m)^\s*//[/!][^\n]*\n', '', text)
    u.count('R-derive')
    u.emit_text('types::DecodedMap', text, origin)
    from .common import emit_struct as _es
    _es(u, 'src/hermes.rs', 'HermesScopeOffset')
    _es(u, 'src/hermes.rs', 'HermesFunctionMap')
    _es(u, 'src/hermes.rs', 'SourceMapHermes')
    u.spec('order.rs')
    u.spec('index.rs')
    u.spec('index_decode.rs')
    # the three decoders behind the dispatch: bodies live in other units / are out of scope here
    # decode_regular (U10) and decode_hermes (U16) behind the dispatch: their contracts
    for pr in ['shim_str_bytes.rs', 'shim_string_bytes.rs', 'shim_option_or.rs', 'shim_int.rs', 'shim_enumerate.rs', 'shim_split.rs', 'bitvec_stub.rs']:
        u.prelude(pr)
    for sp in ['tokens.rs', 'root.rs', 'vlq.rs', 'mappings.rs', 'bits.rs', 'mappings_dec.rs', 'decode_regular.rs', 'hermes_decode.rs', 'hermes_wrap.rs']:
        u.spec(sp)
    from .u10_tail import skeleton
    from .u16_hermes_decode import wrapper
    u.import_fn(skeleton(u), 'decoder::decode_regular', 'u10_tail.ctr', 'u10_tail')
    u.import_fn(wrapper(u), 'hermes::decode_hermes', 'u16_hermes_decode.ctr', 'u16_hermes_decode')
    u.raw('stub decoders', '''//@@ prelude decoders_stub
//# assumes: the recursive call decode_index -> decode_common terminates (nesting bounded by serde_json's recursion limit); its result satisfies decode_common's own contract, proved in this unit
#[verifier::external_body]
pub fn decode_common__rec(rsm: RawSourceMap) -> (res: Result<DecodedMap>)
    ensures res matches Ok(m) ==> (if rsm.sections is Some { m is Index } else if rsm.x_facebook_sources is Some { m is Hermes } else { m is Regular })
{ unimplemented!() }
//# assumes: [T]::sort_by_key leaves a permutation sorted by the key (stable)
#[verifier::external_body]
pub fn verif_sort_by_key<T, K: Ord, F: FnMut(&T) -> K>(v: &mut Vec<T>, f: F)
    requires forall|t: &T| #[trigger] call_requires(f, (t,)),
    ensures final(v)@.len() == old(v)@.len(), final(v)@.to_multiset() == old(v)@.to_multiset(),
        forall|kf: spec_fn(T) -> K| (forall|t: &T, k: K| #[trigger] call_ensures(f, (t,), k) ==> k == kf(*t)) && ord_laws::<K>() ==> #[trigger] sorted_kf(final(v)@, kf),
{ v.sort_by_key(f) }
//@@ endprelude
''')
    import_method(u, T, r'SourceMapSection\\b'.replace('\\\\', '\\'), 'get_offset', 'types::SourceMapSection::get_offset', 'u7_index.ctr', 'u7_index')
    emit_method(u, T, r'SourceMapSection\b', 'new', 'types::SourceMapSection::new')
    emit_method(u, T, r'SourceMapIndex\b', 'new_ram_bundle_compatible', 'types::SourceMapIndex::new_ram_bundle_compatible')

    emit_free_fn(u, D, 'decode_common', 'decoder::decode_common')

    def prep_idx(f):
        u.count('R-shim-call', f.rewrite(r'\b([a-z_]+)\.sort_by_key\(', r'verif_sort_by_key(&mut \1, ', expect=1))
        # R-rec-stub: the recursive call back into decode_common goes to a stub carrying decode_common's contract;
        # termination of the mutual recursion is NOT proved (nesting depth is bounded by serde_json's recursion limit)
        u.count('R-rec-stub', f.rewrite(r'\bdecode_common\(', 'decode_common__rec(', expect=1))
        u.count('R-closure', f.annotate_closure('val', 'val: Value', '(o: String) ensures val matches Value::String(s) ==> o == s', expect=1))
    emit_free_fn(u, D, 'decode_index', 'decoder::decode_index', prep=prep_idx)
