"""Bounded contract checks on the real crate (bounded/ crate): (a) stand-in for an item that cannot be brought
under contract on the current tree, (b) concrete failing input for a failed obligation, (c) labelled bounded
stand-ins for parts of a property no contract reaches.  Never counted as proof."""
import json
import os
import subprocess

from .unit import VERIF, REPO

# item key -> harnesses that exercise its contract through the public API
ITEM_HARNESS = {
    'vlq::encode_vlq': ['vlq_encode'], 'vlq::generate_vlq_segment': ['vlq_encode'], 'encoder::encode_vlq_diff': ['vlq_encode', 'roundtrip'],
    'vlq::parse_vlq_segment_into': ['vlq_decode'], 'vlq::parse_vlq_segment': ['vlq_decode'], 'vlq::B64': ['vlq_decode'], 'vlq::B64_CHARS': ['vlq_encode'],
    'utils::greatest_lower_bound': ['lookup', 'hermes_scope', 'index_flatten'],
    'types::TokenIter::seek': ['lookup'], 'types::SourceMap::lookup_token': ['lookup'], 'types::SourceMap::get_token': ['lookup', 'ordering'], 'types::TokenIter::next': ['lookup', 'ordering'],
    'types::Token::get_src_col': ['lookup'], 'types::SourceMap::tokens': ['lookup'],
    'types::SourceMap::new': ['ordering', 'lookup'], 'builder::SourceMapBuilder::into_sourcemap': ['ordering', 'builder_model'],
    'builder::SourceMapBuilder::add_with_id': ['ordering', 'builder_model'], 'builder::SourceMapBuilder::add_raw': ['ordering'], 'builder::SourceMapBuilder::add': ['ordering', 'builder_model'],
    'builder::SourceMapBuilder::add_source_with_id': ['builder_model', 'rewrite'], 'builder::SourceMapBuilder::add_source': ['builder_model'], 'builder::SourceMapBuilder::add_name': ['builder_model'], 'builder::SourceMapBuilder::add_to_ignore_list': ['builder_model'],
    'builder::SourceMapBuilder::set_source_contents': ['builder_model', 'rewrite'], 'builder::SourceMapBuilder::get_source_contents': ['builder_model'],
    'builder::SourceMapBuilder::add_token': ['rewrite'], 'builder::SourceMapBuilder::strip_prefixes': ['rewrite'], 'builder::SourceMapBuilder::take_mapping': ['hermes_rewrite'], 'hermes::SourceMapHermes::rewrite': ['hermes_rewrite'],
    'decoder::StripHeaderReader::strip_head_read': ['header'], 'decoder::StripHeaderReader::read': ['header'], 'decoder::strip_junk_header': ['header'],
    'decoder::is_junk_json': ['header'], 'decoder::StripHeaderReader::new': ['header'],
    'decoder::decode_rmi': ['rmi_roundtrip'], 'decoder::decode_regular__mappings_loop': ['decode_extreme', 'roundtrip', 'rmi_roundtrip', 'raw_keys'],
    'encoder::serialize_mappings': ['raw_keys', 'roundtrip'], 'encoder::serialize_range_mappings': ['rmi_roundtrip'], 'encoder::encode_rmi': ['rmi_roundtrip'],
    'encoder::encode_rmi::encode_byte': ['rmi_roundtrip'],
    'types::SourceMap::prefix_source': ['root_setters'], 'types::SourceMap::set_source_root': ['root_setters', 'roundtrip'], 'types::SourceMap::set_source': ['root_setters'],
    'types::SourceMap::get_source': ['root_setters'], 'types::SourceMap::set_source_contents': ['root_setters'], 'types::Token::get_source': ['rewrite', 'roundtrip'],
    'types::Token::get_name': ['rewrite', 'roundtrip'],
    'types::SourceMapIndex::lookup_token': ['index_flatten', 'index_nested'], 'types::SourceMapSection::get_offset': ['index_flatten'],
    'types::SourceMapIndex::flatten': ['index_flatten', 'index_nested'], 'types::DecodedMap::lookup_token': ['index_nested', 'index_flatten'], 'hermes::SourceMapHermes::deref': ['hermes_scope'], 'types::SourceMapSectionIter::next': ['index_flatten'], 'types::SourceMapIndex::sections': ['index_flatten'],
    'types::SourceMapIndex::get_file': ['index_flatten'], 'types::SourceMapSection::get_sourcemap': ['index_flatten'], 'types::SourceMapIndex::get_section': ['index_flatten'],
    'hermes::SourceMapHermes::get_scope_for_token': ['hermes_scope'], 'hermes::decode_hermes__function_map': ['hermes_scope'], 'hermes::decode_hermes': ['hermes_scope'], 'types::DecodedMap::get_original_function_name': ['hermes_scope', 'function_name'],
    'types::SourceMap::adjust_mappings::create_ranges': ['adjust', 'adjust_dups'], 'types::SourceMap::adjust_mappings': ['adjust', 'adjust_dups'], 'types::SourceMap::adjust_mappings::Range': ['adjust'], 'types::SourceMap::rewrite_with_mapping': ['rewrite'], 'types::SourceMap::rewrite': ['rewrite'], 'types::SourceMapIndex::flatten_and_rewrite': ['index_flatten', 'rewrite'], 'decoder::decode_regular': ['decode_document', 'roundtrip'],
    'ram_bundle::IndexedRamBundle::parse': ['ram_bundle'], 'ram_bundle::IndexedRamBundle::get_module': ['ram_bundle'], 'ram_bundle::IndexedRamBundle::startup_code': ['ram_bundle'],
    'ram_bundle::IndexedRamBundle::module_count': ['ram_bundle'], 'ram_bundle::is_ram_bundle_slice': ['ram_bundle'], 'ram_bundle::RamBundleModuleIter::next': ['ram_bundle'],
    'ram_bundle::RamBundle::iter_modules': ['ram_bundle'], 'ram_bundle::RamBundle::get_module': ['ram_bundle'], 'ram_bundle::RamBundle::module_count': ['ram_bundle'],
    'ram_bundle::RamBundle::startup_code': ['ram_bundle'], 'ram_bundle::RamBundle::parse_indexed_from_slice': ['ram_bundle'], 'ram_bundle::RamBundle::parse_indexed_from_vec': ['ram_bundle'],
    'ram_bundle::ModuleEntry::is_empty': ['ram_bundle'], 'ram_bundle::RamBundleHeader::is_valid_magic': ['ram_bundle'], 'ram_bundle::RAM_BUNDLE_MAGIC': ['ram_bundle'],
    'utils::find_common_prefix_of_sorted_vec': ['relpath'], 'utils::make_relative_path': ['relpath'], 'detector::SourceMapRef::get_url': ['discover'], 'detector::SourceMapRef::get_embedded_sourcemap': ['discover'], 'detector::is_sourcemap_common': ['discover', 'header'], 'detector::locate_sourcemap_reference': ['discover'], 'detector::locate_sourcemap_reference_slice': ['discover'],
    'sourceview::SourceView::new': ['sourceview'], 'sourceview::SourceView::get_line': ['sourceview'], 'sourceview::SourceView::line_count': ['sourceview'], 'sourceview::SourceView::lines': ['sourceview'],
    'sourceview::Lines::next': ['sourceview'], 'sourceview::SourceView::get_line_slice': ['sourceview'], 'sourceview::SourceView::get_line_slice__body': ['sourceview'],
    'sourceview::SourceView': ['sourceview'], 'sourceview::Lines': ['sourceview'], 'sourceview::SourceView::from_string': ['sourceview'], 'sourceview::SourceView::clone': ['sourceview'],
    'sourceview::SourceView::get_original_function_name': ['function_name'], 'sourceview::SourceView::rev_token_iter': ['function_name'], 'sourceview::RevTokenIter::next': ['function_name'], 'sourceview::RevTokenIter': ['function_name'],
    'js_identifiers::is_valid_start': ['function_name'], 'js_identifiers::is_valid_continue': ['function_name'], 'js_identifiers::strip_identifier': ['function_name'], 'js_identifiers::is_valid_javascript_identifier': ['function_name'], 'js_identifiers::get_javascript_token': ['function_name'],
    'encoder::SourceMap::as_raw_sourcemap': ['raw_keys', 'roundtrip', 'root_setters'], 'encoder::SourceMapIndex::as_raw_sourcemap': ['roundtrip', 'raw_keys'], 'encoder::DecodedMap::as_raw_sourcemap': ['roundtrip'], 'hermes::SourceMapHermes::as_raw_sourcemap': ['roundtrip', 'hermes_scope'], 'types::NameIter::next': ['raw_keys', 'roundtrip'], 'types::SourceIter::next': ['roundtrip', 'builder_model'], 'types::SourceContentsIter::next': ['roundtrip', 'raw_keys'], 'types::SourceMap::sources': ['roundtrip'], 'types::SourceMap::source_contents': ['roundtrip'], 'builder::SourceMapBuilder::set_source': ['builder_model'], 'types::SourceMap::names': ['raw_keys'], 'types::SourceMapSection::get_url': ['roundtrip'],
    'types::SourceMap::to_data_url': ['discover'], 'decoder::decode': ['header'], 'decoder::decode_slice': ['header'], 'decoder::decode_data_url': ['header', 'discover'], 'detector::is_sourcemap_impl': ['header'], 'detector::is_sourcemap_slice_impl': ['header'], 'detector::is_sourcemap': ['header', 'discover'], 'detector::is_sourcemap_slice': ['header', 'discover'], 'decoder::DATA_PREAMBLE': ['discover'], 'decoder::DATA_PREAMBLE_CHARSET': ['discover'],
    'decoder::decode_common': ['decode_document'], 'decoder::decode_index': ['index_flatten', 'decode_document'],
}
# property -> stand-ins that run on every check (parts of the property outside the verifier's reach so far)
PROPERTY_BOUNDED = {
    'C01': ['roundtrip'], 'C03': ['raw_keys'], 'C08': ['index_flatten', 'index_nested'], 'C09': ['rewrite', 'hermes_rewrite'],
    'C14': ['hermes_scope'], 'C13': ['root_setters', 'builder_model'], 'C07': ['rmi_roundtrip'], 'C12': ['header'], 'C04': ['ordering'],
    'C10': ['adjust', 'adjust_dups'], 'C05': ['decode_extreme'], 'C02': ['decode_document'], 'C06': ['decode_reject'], 'C15': ['sourceview'], 'C17': ['function_name'], 'C18': ['discover'], 'C19': ['relpath'], 'C20': ['ram_bundle'],
}
# harnesses that count their non-trivial expectations (a token found, a name resolved, ...): 0 of them means the run proves nothing
NEEDS_WITNESS = {'decode_mutants', 'decode_reject', 'function_name', 'relpath', 'discover', 'sourceview', 'ram_bundle', 'index_flatten', 'index_nested', 'hermes_scope'}
ALL_HARNESSES = ['vlq_encode', 'vlq_decode', 'lookup', 'ordering', 'header', 'hermes_scope', 'index_flatten', 'index_nested', 'rewrite', 'hermes_rewrite', 'raw_keys', 'roundtrip',
                 'rmi_roundtrip', 'root_setters', 'builder_model', 'relpath', 'discover', 'sourceview', 'function_name', 'ram_bundle', 'decode_extreme', 'decode_document', 'decode_reject', 'decode_mutants', 'adjust', 'adjust_dups']
# C05 (nothing panics) runs every harness -- each of them catches panics of the code under test -- but only a panic counts for it
PROPERTY_BOUNDED['C05'] = list(ALL_HARNESSES)
PANIC_ONLY = {'C05'}
# a harness shared between properties reports several kinds of disagreement; a property counts only the kind that is its own
PROPERTY_BOUNDED['C04'] = PROPERTY_BOUNDED.get('C04', []) + ['adjust']
ONLY_IF = {('C04', 'adjust'): 'not ordered'}
_results = {}
_built = {}
DEEP = False   # set by check.py in the thorough tier: harnesses enumerate their larger stated spaces


def run_harness(name):
    """-> dict(harness, bound, cases, counterexample|None, status) ; cached per process"""
    if name in _results:
        return _results[name]
    env = dict(os.environ, VERIF_REPO=REPO)
    if DEEP:
        env['VERIF_DEEP'] = '1'
    try:
        p = subprocess.run([os.path.join(VERIF, 'bin', 'bounded'), name], capture_output=True, text=True, timeout=900, env=env)
        lines = [l for l in p.stdout.strip().split('\n') if l.startswith('{')]
        out = lines[-1] if lines else ''
        if p.returncode in (0, 1) and out.startswith('{'):
            d = json.loads(out)
            d['status'] = 'counterexample' if d.get('counterexample') else 'passed'
            if d['status'] == 'passed' and name in NEEDS_WITNESS and not d.get('witnesses'):
                d['status'] = 'unavailable'
                d['note'] = 'vacuous run: no case with a non-trivial expected answer'
            d['known'] = [json.loads(l) for l in lines[:-1] if '"known_finding"' in l]
        else:
            d = dict(harness=name, status='unavailable', note=(p.stdout + p.stderr)[-600:])
    except Exception as e:
        d = dict(harness=name, status='unavailable', note=str(e))
    d['cmd'] = 'VERIF_REPO=%s bin/bounded %s' % (REPO, name)
    _results[name] = d
    return d


def search(pid, unit_run, failure, all_failures=None):
    """concrete failing input for a failed obligation"""
    tried = []
    for f in [failure] + list(all_failures or []):
        for h in ITEM_HARNESS.get(f.get('item') or '', []):
            if h in tried:
                continue
            tried.append(h)
            d = run_harness(h)
            if d.get('status') == 'counterexample':
                return dict(found=True, harness=h, bound=d.get('bound'), input=d['counterexample'], replay_cmd=d['cmd'],
                            note='bounded enumeration on the real crate through its public API; the input above is the first failing case')
    return dict(found=False, harnesses_tried=tried, note='no failing input within the stated bounds' if tried else 'no bounded harness registered for this item')


def stand_in(keys):
    """bounded stand-ins for items that could not be brought under contract"""
    out = []
    seen = set()
    for k in keys:
        for h in ITEM_HARNESS.get(k, []):
            if h not in seen:
                seen.add(h)
                out.append(run_harness(h))
    return out
