"""Counterexample search for a failed obligation (Verus gives none).  Filled in per unit;
when nothing is registered the VIOLATION line carries no-failing-input-found."""


def search(pid, unit_run, failure, all_failures=None):
    return dict(found=False, note='no counterexample generator registered for %s' % failure['obligation'])
