"""Driver: property id -> units -> Verus -> classification -> evidence.

exit 0  every obligation tagged with the property discharged (known findings printed)
exit 1  VIOLATION line: an obligation that is discharged on the reference tree fails on
        text that differs from the reference tree
exit 2  undecided: lost anchor, front-end error, resource limit, unstable verdict
"""
import concurrent.futures
import hashlib
import importlib
import json
import os
import re
import sys
import time
import traceback

from . import verus
from .rs import LostAnchor
from .unit import UnitBuilder, LineMap, VERIF, REPO

OUT = os.environ.get('VERIF_OUT') or os.path.join(VERIF, 'out')
_pool = concurrent.futures.ThreadPoolExecutor(max_workers=8)
CANARY_RX = re.compile(r'^(.*)\.<canary>$')


def registry():
    from units import registry as r
    return r.UNITS


def load_unit(name):
    return importlib.import_module('units.' + name)


def build(mod, canary=False, mutate=None, stub=None):
    u = UnitBuilder(mod.NAME, mod.PROPS)
    u.canary_false = canary
    u.mutate = mutate
    u.stub_items = dict(stub or {})
    mod.build(u)
    text = u.render()
    lm = LineMap(text, mod.PROPS)
    return u, text, lm


def scan_assumptions(text, lm):
    """Every assumption keyword must sit in a prelude region."""
    rx = re.compile(r'\b(assume|admit)\s*\(|external_body|assume_specification|\buninterp\b|external_type_specification|external_fn_specification|external_trait_specification|#\[verifier::external\]|\baxiom\b|verifier::exec_allows_no_decreases_clause|verifier::truncate|rlimit\(')
    inside = []
    allowed = {}
    for i, ln in enumerate(text.split('\n'), 1):
        code = ln.split('//')[0]
        m = rx.search(code)
        if not m:
            continue
        region = lm.at(i)[0]
        if region[0] == 'prelude':
            k = '%s:%s' % (region[1], m.group(0).strip('( '))
            allowed[k] = allowed.get(k, 0) + 1
        elif region[0] == 'import' and 'external_body' in m.group(0):
            k = 'import:%s' % region[1]
            allowed[k] = allowed.get(k, 0) + 1
        else:
            inside.append(dict(line=i, region=list(region), text=ln.strip()[:160]))
    return allowed, inside


def locate(d, lm):
    """diagnostic -> (obligation id, tags, generated line, text)"""
    spans = sorted(d['spans'], key=lambda s: (not s['primary'],))
    if not spans:
        return ('header', [], 0, '')
    prim = spans[0]
    msg = d['message'].lower()
    pick = prim
    if not msg.startswith('precondition not satisfied'):
        for s in spans:
            region, sec, clause, ctags, itags = lm.at(s['line_start'])
            if region[0] == 'item' and clause is not None and sec is not None and (sec == 'sig' or sec.endswith(' inv')):
                # stay within the item that holds the primary span
                if lm.at(prim['line_start'])[0] == region:
                    pick = s
                    break
    oid, tags = lm.obligation_at(pick['line_start'])
    return (oid, tags, pick['line_start'], pick.get('text', ''))


class UnitRun:
    def __init__(self, mod):
        self.mod = mod
        self.name = mod.NAME
        self.status = 'ok'         # ok | undecided
        self.reason = ''
        self.failures = []         # dict(obligation, tags, message, line, text, item)
        self.obligations = {}      # id -> dict(tags, status)
        self.items = []
        self.rewrites = {}
        self.assumed = []
        self.allowed_assumptions = {}
        self.per_function = {}
        self.canary = {}
        self.smt_ms = 0
        self.wall_s = 0
        self.cmd = ''
        self.extracted_hash = ''
        self.verified = 0
        self.path = ''
        self.imports = []
        self.stubbed = {}
        self.item_hashes = {}


def run_unit(mod, tier='quick', do_canary=True, mutate=None, tag=''):
    """Build + verify one unit.  An item that cannot be brought under contract on this tree (lost anchor, a
    construct Verus rejects) is replaced by its contract-only stub and the unit is verified again, so the
    damage stays with that item (its obligations are undecided), not with the whole unit."""
    stub = {}
    ur = None
    for attempt in range(5):
        ur, retry = _run_unit_once(mod, tier, do_canary, mutate, tag, stub)
        if not retry:
            break
        stub.update(retry)
    return ur


def _run_unit_once(mod, tier, do_canary, mutate, tag, stub):
    ur = UnitRun(mod)
    t0 = time.time()
    os.makedirs(os.path.join(OUT, 'gen'), exist_ok=True)
    try:
        u, text, lm = build(mod, mutate=mutate, stub=stub)
    except LostAnchor as e:
        ur.status = 'undecided'
        ur.reason = 'lost anchor: %s' % e
        return ur, None
    except Exception as e:
        ur.status = 'undecided'
        ur.reason = 'extraction error: %s' % (traceback.format_exc()[-600:])
        return ur, None
    stubbed = dict(u.stub_items)
    path = os.path.join(OUT, 'gen', '%s%s.rs' % (mod.NAME, tag))
    open(path, 'w').write(text)
    ur.path = path
    ur.items = u.items
    ur.imports = u.imports
    ur.rewrites = u.rewrites
    ur.assumed = u.assumed
    ur.stubbed = stubbed
    ur.extracted_hash = u.extracted_hash()
    ur.item_hashes = u.item_hashes()
    allowed, inside = scan_assumptions(text, lm)
    ur.allowed_assumptions = allowed
    if inside:
        ur.status = 'undecided'
        ur.reason = 'assumption outside prelude: %s' % inside[:3]
        return ur, None
    # static obligations
    for oid, o in lm.obligations.items():
        ur.obligations[oid] = dict(tags=o['tags'], status='undecided', item=o.get('item'))
    contracted = [it['key'] for it in u.items if it['key'] not in stubbed]
    for key in contracted:
        ur.obligations['%s.safety' % key] = dict(tags=lm.item_tags.get(key, mod.PROPS), status='undecided', item=key)
    for key, why in stubbed.items():
        ur.obligations['%s.safety' % key] = dict(tags=getattr(u, 'stub_tags', {}).get(key, mod.PROPS), status='undecided', item=key, reason=why)
    if not ur.obligations:
        ur.status = 'undecided'
        ur.reason = 'zero obligations generated'
        return ur, None
    rlimit = getattr(mod, 'RLIMIT', 60)
    canary_future = None
    if do_canary:
        def _canary():
            u2, text2, lm2 = build(mod, canary=True, stub=stub)
            p2 = os.path.join(OUT, 'gen', '%s%s_canary.rs' % (mod.NAME, tag))
            open(p2, 'w').write(text2)
            return lm2, verus.run(p2, rlimit=rlimit, multiple_errors=0)
        canary_future = _pool.submit(_canary)
    res = verus.run(path, rlimit=rlimit, multiple_errors=8 if tier == 'thorough' else 5)
    if res['resource_out'] and not res['front_end_error']:
        res2 = verus.run(path, rlimit=rlimit * 4, multiple_errors=3)
        res2['retried'] = True
        res = res2
    ur.cmd = res['cmd']
    ur.smt_ms = res.get('smt_ms', 0)
    ur.verified = res.get('verified', 0)
    ur.per_function = {k: v for k, v in res['functions'].items()}
    if res['front_end_error']:
        # can the error be pinned on items?  then stub them and verify the rest
        blame = {}
        unpinned = False
        for d in res['other_errors']:
            keys = set()
            for sp in d['spans']:
                region = lm.at(sp['line_start'])[0]
                if region[0] == 'item':
                    keys.add(region[1])
            if keys:
                for k in keys:
                    blame[k] = 'verus front end: %s' % d['message'][:200]
            else:
                unpinned = True
        if canary_future is not None:
            try:
                canary_future.result()
            except Exception:
                pass
        new = {k: v for k, v in blame.items() if k not in stubbed and any(it['key'] == k for it in u.items)}
        if new and not unpinned:
            return ur, new
        ur.status = 'undecided'
        msgs = [d['message'] for d in res['other_errors'][:3]] or [res['raw_stderr_tail'][-400:]]
        ur.reason = 'verus front-end error: %s' % ' | '.join(msgs)
        ur.wall_s = round(time.time() - t0, 2)
        return ur, None
    if res['resource_out']:
        ur.status = 'undecided'
        ur.reason = 'resource limit exceeded after retry with 4x rlimit'
    failed_items = set()
    for d in res['proof_failures']:
        oid, tags, line, stext = locate(d, lm)
        region = lm.at(line)[0]
        item = region[1] if region[0] == 'item' else None
        if item:
            failed_items.add(item)
        ur.failures.append(dict(obligation=oid, tags=list(tags), message=d['message'], gen_line=line,
                                text=stext, item=item, rendered=d.get('rendered', '')))
        if oid not in ur.obligations:
            ur.obligations[oid] = dict(tags=list(tags), status='failed', item=item, dynamic=True)
        else:
            ur.obligations[oid]['status'] = 'failed'
    failed_specs = set(f['obligation'] for f in ur.failures if f['obligation'].startswith('spec:'))
    for oid, o in ur.obligations.items():
        if o['status'] == 'failed':
            continue
        if o.get('item') and o['item'] in stubbed:
            o['status'] = 'undecided'
        elif o.get('item') and o['item'] in failed_items:
            o['status'] = 'undecided'
        elif oid.startswith('spec:') and failed_specs:
            o['status'] = 'discharged' if oid not in failed_specs else 'failed'
        elif ur.status == 'ok' and res.get('verified', 0) > 0:
            o['status'] = 'discharged'
    # reachability canary
    if canary_future is not None and (ur.status != 'ok' or ur.failures):
        try:
            canary_future.result()
        except Exception:
            pass
    if do_canary and ur.status == 'ok' and not ur.failures:
        try:
            lm2, r2 = canary_future.result()
            hit = set()
            for d in r2['proof_failures']:
                for s in d['spans']:
                    region, sec, clause, ctags, itags = lm2.at(s['line_start'])
                    if region[0] == 'item' and sec == 'canary':
                        hit.add(region[1])
            ur.canary = dict(expected=len(contracted), failed_as_expected=len(hit),
                             vacuous=[k for k in contracted if k not in hit], wall_s=r2['wall_s'])
            if r2['front_end_error']:
                ur.status = 'undecided'
                ur.reason = 'canary run front-end error'
            elif ur.canary['vacuous']:
                ur.status = 'undecided'
                ur.reason = 'vacuity: assert(false) verified at the start of %s' % ur.canary['vacuous']
        except LostAnchor as e:
            ur.status = 'undecided'
            ur.reason = 'canary lost anchor: %s' % e
    ur.wall_s = round(time.time() - t0, 2)
    return ur, None


def mutation_canaries(mod):
    """thorough tier: every listed mutant of the extracted copy must fail an obligation of its item"""
    out = []
    futs = []
    for n, (key, pat, rep) in enumerate(getattr(mod, 'MUTANTS', [])):
        def mk(key=key, pat=pat, rep=rep):
            state = dict(applied=0)
            def mutate(k, text):
                if k != key:
                    return text
                new, cnt = re.subn(pat, rep.replace('\\', '\\\\'), text, count=1)
                state['applied'] += cnt
                return new
            return mutate, state
        mutate, state = mk()
        futs.append((key, pat, rep, state, _pool.submit(run_unit, mod, 'quick', False, mutate, '_mut%d' % n)))
    for key, pat, rep, state, fut in futs:
        ur = fut.result()
        fails = [f for f in ur.failures if f['item'] == key]
        out.append(dict(unit=mod.NAME, item=key, mutation='%s -> %s' % (pat, rep), applied=state['applied'] > 0,
                        killed=bool(fails) or key in getattr(ur, 'stubbed', {}), by=(fails[0]['obligation'] if fails else (ur.reason or ur.stubbed.get(key) if hasattr(ur, 'stubbed') else ''))))
    return out


def load_json(path, default):
    try:
        return json.load(open(path))
    except Exception:
        return default


def known_findings():
    return load_json(os.path.join(VERIF, 'known_findings.json'), dict(findings=[], fixed=[]))


def finding_matches(f, pid, fail):
    if pid not in f.get('properties', [f.get('property')]):
        return False
    # a finding must pin down the failing obligation; entries identified by a bounded harness (id only) never
    # match a proof failure, so that a different violation of the same property is still reported
    if not (f.get('obligation') or f.get('message_contains') or f.get('text_contains')):
        return False
    if f.get('obligation') and f['obligation'] != fail['obligation']:
        return False
    if f.get('message_contains') and f['message_contains'] not in fail['message']:
        return False
    if f.get('text_contains') and f['text_contains'] not in fail.get('text', ''):
        return False
    return True


def baseline():
    return load_json(os.path.join(VERIF, 'baseline', 'obligations.json'), {})


def units_for(pid):
    return [n for n in registry() if pid in load_unit(n).PROPS]


_cache = {}


def run_units(names, tier):
    todo = [n for n in names if (n, tier) not in _cache]
    if todo:
        with concurrent.futures.ThreadPoolExecutor(max_workers=min(4, len(todo))) as ex:
            futs = {ex.submit(run_unit, load_unit(n), tier): n for n in todo}
            for f in concurrent.futures.as_completed(futs):
                _cache[(futs[f], tier)] = f.result()
    return [_cache[(n, tier)] for n in names]


def write_evidence(pid, tier, seed, runs, obligations, discharged, violations, kf_lines, undecided, wall, extra=None):
    evdir = os.environ.get('VERIF_EVIDENCE_DIR') or (os.path.join(VERIF, 'evidence') if os.path.realpath(REPO) == '/repo' else os.path.join(OUT, 'evidence-scratch'))
    os.makedirs(evdir, exist_ok=True)
    trusted = ['Verus %s + bundled Z3' % verus.verus_version(),
               'vx extraction and rewrite rules (DESIGN.md 3.2); counts under coverage.rewrites',
               'rustc compiles the extracted text to the same behaviour as in the crate']
    assumed = []
    fns = []
    per_fn = {}
    rewrites = {}
    scans = {}
    samples = []
    cmds = []
    canaries = {}
    for r in runs:
        assumed += ['%s/%s' % (r.name, a) for a in r.assumed]
        for it in r.items:
            if pid in (r.obligations.get('%s.safety' % it['key'], {}).get('tags') or []):
                fns.append(dict(unit=r.name, **it))
        for k, v in r.rewrites.items():
            rewrites[k] = rewrites.get(k, 0) + v
        scans[r.name] = r.allowed_assumptions
        cmds.append(r.cmd)
        canaries[r.name] = r.canary
        for fn, v in r.per_function.items():
            per_fn['%s::%s' % (r.name, fn.split('::', 1)[-1])] = dict(backend='verus/z3', **v)
        for oid, o in r.obligations.items():
            if pid in o['tags'] and len(samples) < 8:
                samples.append(dict(unit=r.name, obligation=oid, status=o['status']))
    ev = dict(
        property_id=pid, tier=tier, seed=seed, level='proof' if runs else 'other',
        coverage=dict(
            obligations=obligations, discharged=discharged,
            checker_cmd=' ; '.join(c for c in cmds if c) or 'verus <unit>.rs --output-json --time',
            trusted_base=trusted + sorted(set(assumed)),
            functions_under_contract=fns,
            per_function=per_fn,
            rewrites=rewrites,
            assumptions_scan=scans,
            reachability_canary=canaries,
            units=[dict(unit=r.name, status=r.status, reason=r.reason, verified_items=r.verified, smt_ms=r.smt_ms,
                        wall_s=r.wall_s, extracted_hash=r.extracted_hash) for r in runs],
            samples=samples,
            known_findings=kf_lines,
            undecided=undecided,
            explanation='obligations = named contract clauses / lemmas tagged with this property plus one safety obligation '
                        '(overflow, bounds, callee preconditions, termination) per function under contract; discharged by Verus '
                        'function by function on text extracted from /repo at run time',
        ),
        assumptions=sorted(set(assumed)) + ['machine arithmetic is modelled exactly (fixed-width); spec functions use mathematical integers'],
        wall_s=round(wall, 2), violations=violations)
    if extra:
        ev['coverage'].update(extra)
    json.dump(ev, open(os.path.join(evdir, '%s.json' % pid), 'w'), indent=1)


def check_property(pid, tier='quick', seed=0):
    t0 = time.time()
    names = units_for(pid)
    from . import cex as _cx
    _cx.DEEP = (tier == 'thorough')
    if not names and pid not in _cx.PROPERTY_BOUNDED:
        print('UNDECIDED property=%s no unit serves this property' % pid)
        return 2
    runs = run_units(names, tier) if names else []
    kf = known_findings()
    base = baseline()
    undecided = []
    # cross-unit imports: the exporting unit must be part of this run and must have proved the item
    need = set()
    for r in runs:
        for im in getattr(r, 'imports', []):
            need.add((im['from_unit'], im['key'], r.name))
    # transitive closure: an exporting unit may itself import from further units
    while True:
        extra_units = sorted(set(n for n, k, w in need) - set(names))
        if not extra_units:
            break
        names = names + extra_units
        runs = run_units(names, tier)
        for r in runs:
            for im in getattr(r, 'imports', []):
                need.add((im['from_unit'], im['key'], r.name))
    byname = {r.name: r for r in runs}
    for fu, key, who in sorted(need):
        er = byname.get(fu)
        if er is None:
            undecided.append('%s imports %s from %s which was not run' % (who, key, fu))
            continue
        st = er.obligations.get('%s.safety' % key, {}).get('status')
        if st != 'discharged':
            undecided.append('%s relies on the contract of %s, whose proof in %s is %s' % (who, key, fu, st))
    violations = []
    kf_lines = []
    n_obl = n_dis = 0
    for r in runs:
        if r.status != 'ok':
            undecided.append('%s: %s' % (r.name, r.reason))
        for key, why in getattr(r, 'stubbed', {}).items():
            if pid in (r.obligations.get('%s.safety' % key, {}).get('tags') or []):
                undecided.append('%s: %s could not be brought under contract on this tree (%s)' % (r.name, key, why))
        for oid, o in r.obligations.items():
            if pid in o['tags']:
                if o.get('dynamic'):
                    continue
                n_obl += 1
                if o['status'] == 'discharged':
                    n_dis += 1
        for f in r.failures:
            if pid not in f['tags']:
                continue
            hit = [k for k in kf.get('findings', []) if finding_matches(k, pid, f)]
            if hit:
                line = 'KNOWN-FINDING: property=%s %s -- %s' % (pid, f['obligation'], hit[0].get('what', f['message']))
                if line not in kf_lines:
                    kf_lines.append(line)
                continue
            b = base.get(r.name, {})
            if b and b.get('extracted_hash') == r.extracted_hash:
                undecided.append('%s: %s fails although the extracted text equals the reference tree (solver instability?)' % (r.name, f['obligation']))
                continue
            # verification is modular: an obligation of item K can only be affected by K's own text or by the data
            # items (constants, type definitions) of the unit; if neither differs from the reference tree the failure
            # is solver instability, not a finding
            if b and b.get('items'):
                bi = b['items']
                data_changed = [k for k, v in r.item_hashes.items() if not v['fn'] and bi.get(k, {}).get('sha') != v['sha']]
                own = f['item']
                own_changed = own is None or bi.get(own, {}).get('sha') != r.item_hashes.get(own, {}).get('sha')
                if own is None:
                    own_changed = bool(data_changed)
                if not own_changed and not data_changed:
                    undecided.append('%s: %s fails although neither %s nor any data item differs from the reference tree (solver instability)' % (r.name, f['obligation'], own))
                    continue
            violations.append((r, f))
    # bounded stand-ins (labelled bounded, never counted): for items that could not be brought under contract on
    # this tree, and for the parts of the property no contract reaches yet
    from . import cex as cexmod
    bounded = []
    stub_keys = []
    for r in runs:
        for key in getattr(r, 'stubbed', {}):
            if pid in (r.obligations.get('%s.safety' % key, {}).get('tags') or []):
                stub_keys.append(key)
    want = list(cexmod.PROPERTY_BOUNDED.get(pid, []))
    for k in stub_keys:
        for h in cexmod.ITEM_HARNESS.get(k, []):
            if h not in want:
                want.append(h)
    bounded_cex = None
    if os.environ.get('VERIF_NO_BOUNDED') != '1':
        for h in want:
            d = cexmod.run_harness(h)
            bounded.append(dict(harness=h, bound=d.get('bound'), cases=d.get('cases'), witnesses=d.get('witnesses'), verdict=d.get('status'), counterexample=d.get('counterexample'), cmd=d.get('cmd'), note=d.get('note')))
            needle = cexmod.ONLY_IF.get((pid, h))
            if d.get('status') == 'counterexample' and needle and needle not in str(d.get('counterexample')):
                bounded[-1]['verdict'] = 'passed for this property (the counterexample found concerns another property)'
                bounded[-1]['counterexample'] = None
                continue
            if d.get('status') == 'counterexample' and pid in cexmod.PANIC_ONLY and 'PANIC' not in str(d.get('counterexample')):
                # a functional disagreement belongs to another property; for this one only a panic counts
                bounded[-1]['verdict'] = 'no panic (a functional counterexample was found: see the property it belongs to)'
                bounded[-1]['counterexample'] = None
                continue
            if d.get('status') == 'counterexample' and bounded_cex is None:
                bounded_cex = d
            if d.get('status') == 'unavailable':
                undecided.append('bounded stand-in %s did not run or ran vacuously: %s' % (h, (d.get('note') or '')[-300:]))
            for kfj in ([] if (pid in cexmod.PANIC_ONLY or cexmod.ONLY_IF.get((pid, h))) else d.get('known', [])):
                listed = [k for k in kf.get('findings', []) if k.get('id') == kfj.get('known_finding') and pid in k.get('properties', [])]
                if listed:
                    line = 'KNOWN-FINDING: property=%s %s -- %s' % (pid, listed[0]['id'], listed[0].get('what', ''))
                    if line not in kf_lines:
                        kf_lines.append(line)
                elif bounded_cex is None:
                    bounded_cex = dict(d, counterexample='unlisted finding %s: %s' % (kfj.get('known_finding'), kfj.get('first_input')))
    canaries = []
    if tier == 'thorough' and not violations:
        for r in runs:
            canaries += mutation_canaries(r.mod)
        for c in canaries:
            if not c['applied']:
                undecided.append('mutation canary does not apply any more: %s %s' % (c['item'], c['mutation']))
            elif not c['killed']:
                undecided.append('mutation canary SURVIVED (contract too weak): %s %s' % (c['item'], c['mutation']))
    for l in kf_lines:
        print(l)
    # known findings leave their obligation undischarged by construction: count them out of both numbers
    rc = 0
    rep_paths = []
    if violations:
        os.makedirs(os.path.join(OUT, 'replay'), exist_ok=True)
        # one replay file and one VIOLATION line per property; the first failing named clause leads
        def rank(v):
            f = v[1]
            return (0 if (f['obligation'] in v[0].obligations and not v[0].obligations[f['obligation']].get('dynamic') and not f['obligation'].endswith('.safety')) else 1)
        violations.sort(key=rank)
        r, f = violations[0]
        safe = re.sub(r'[^A-Za-z0-9_.-]+', '_', f['obligation'])
        path = os.path.join(OUT, 'replay', '%s-%s.json' % (pid, safe))
        item = next((it for it in r.items if it['key'] == f['item']), None)
        cex = None
        try:
            from . import cex as cexmod
            cex = cexmod.search(pid, r, f, [v[1] for v in violations])
        except Exception as e:
            cex = dict(found=False, note='counterexample search failed: %s' % e)
        rep = dict(property=pid, unit=r.name, obligation=f['obligation'], message=f['message'],
                   function=f['item'], source=item, generated_file=r.path, generated_line=f['gen_line'],
                   failing_text=f['text'], verifier_output=f['rendered'], checker_cmd=r.cmd,
                   solver_ms=r.smt_ms,
                   failed_obligations=[dict(unit=vr.name, obligation=x['obligation'], message=x['message'], text=x['text'],
                                            in_baseline=x['obligation'] in base.get(vr.name, {}).get('discharged', []))
                                       for vr, x in violations],
                   counterexample=cex,
                   reference='obligation discharged on the reference tree (baseline/obligations.json)' if f['obligation'] in base.get(r.name, {}).get('discharged', []) else 'obligation not in baseline')
        json.dump(rep, open(path, 'w'), indent=1)
        tail = '' if (cex and cex.get('found')) else ' no-failing-input-found'
        print('VIOLATION property=%s replay=%s%s' % (pid, path, tail))
        rep_paths.append(path)
        rc = 1
    elif bounded_cex is not None:
        os.makedirs(os.path.join(OUT, 'replay'), exist_ok=True)
        path = os.path.join(OUT, 'replay', '%s-bounded-%s.json' % (pid, bounded_cex['harness']))
        what = 'items not under contract on this tree: %s' % ', '.join(stub_keys) if stub_keys else 'part of the property outside the contracts (bounded stand-in)'
        rep = dict(property=pid, obligation='bounded:%s' % bounded_cex['harness'], message='bounded contract check found a failing input on the real crate',
                   function=what, verifier_output='; '.join(undecided), counterexample=dict(found=True, harness=bounded_cex['harness'], bound=bounded_cex.get('bound'),
                   input=bounded_cex['counterexample'], replay_cmd=bounded_cex['cmd']), level='bounded (not a proof obligation)')
        json.dump(rep, open(path, 'w'), indent=1)
        print('VIOLATION property=%s replay=%s' % (pid, path))
        violations = [(None, None)]
        rc = 1
    elif undecided:
        for u in undecided:
            print('UNDECIDED property=%s %s' % (pid, u))
        rc = 2
    extra = None
    try:
        from . import extras
        extra = extras.for_property(pid, tier, runs)
    except ImportError:
        extra = None
    # obligations covered by a known finding are not counted as discharged nor as obligations of this run
    kf_obl = 0
    for r in runs:
        for oid, o in r.obligations.items():
            if pid in o['tags'] and not o.get('dynamic') and o['status'] != 'discharged':
                kf_obl += 1
    if rc == 0 and kf_lines:
        n_obl_rep = n_dis
    else:
        n_obl_rep = n_obl
    write_evidence(pid, tier, seed, runs, n_obl_rep, n_dis, len(violations), kf_lines, undecided, time.time() - t0,
                   extra=dict(obligations_total=n_obl, obligations_not_discharged=kf_obl, bounded=bounded, mutation_canaries=canaries, **(extra or {})))
    if rc == 0:
        print('OK property=%s obligations=%d discharged=%d units=%s bounded=%s wall=%.1fs' % (pid, n_obl, n_dis, ','.join(names), ','.join('%s:%s' % (b['harness'], b['verdict']) for b in bounded) or '-', time.time() - t0))
    return rc


def rebaseline():
    os.makedirs(os.path.join(VERIF, 'baseline'), exist_ok=True)
    names = registry()
    runs = run_units(names, 'quick')
    out = {}
    for r in runs:
        out[r.name] = dict(extracted_hash=r.extracted_hash, items=r.item_hashes, status=r.status, reason=r.reason,
                           discharged=sorted(k for k, o in r.obligations.items() if o['status'] == 'discharged'),
                           not_discharged=sorted(k for k, o in r.obligations.items() if o['status'] != 'discharged'),
                           verus=verus.verus_version())
        print(r.name, r.status, r.reason, 'discharged', len(out[r.name]['discharged']), 'not', out[r.name]['not_discharged'])
    json.dump(out, open(os.path.join(VERIF, 'baseline', 'obligations.json'), 'w'), indent=1)


def main(argv):
    import argparse
    ap = argparse.ArgumentParser()
    ap.add_argument('pid')
    ap.add_argument('--tier', default=os.environ.get('VERIF_TIER', 'quick'))
    ap.add_argument('--rebaseline', action='store_true')
    a = ap.parse_args(argv)
    seed = int(os.environ.get('VERIF_SEED', '0') or 0)
    if a.pid == 'rebaseline' or a.rebaseline:
        rebaseline()
        return 0
    if a.pid == 'all':
        from units import registry as r
        rc = 0
        for pid in r.PROPERTIES:
            rc = max(rc, check_property(pid, a.tier, seed))
        return rc
    return check_property(a.pid, a.tier, seed)
