"""Per-property additions to the evidence file: the parts of the property no contract covers yet
(never counted), bounded stand-ins, lints."""
from units import claims


def for_property(pid, tier, runs):
    return dict(not_covered=claims.NOT_COVERED.get(pid, []))
