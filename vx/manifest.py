"""Generate MANIFEST.json from units/registry.py and claims.py (kept in one place so it stays valid)."""
import json, os, sys
sys.path.insert(0, os.path.dirname(os.path.dirname(os.path.abspath(__file__))))
from units import registry
from units import claims

def main():
    checks = []
    for pid in registry.PROPERTIES:
        c = claims.CLAIMS[pid]
        checks.append(dict(
            property_id=pid,
            quick_cmd='bin/check %s --tier quick' % pid,
            thorough_cmd='bin/check %s --tier thorough' % pid,
            evidence_file='/verif/evidence/%s.json' % pid,
            replay_cmd_template='bin/replay {path}',
            engine='verus-contracts',
            level_claimed=dict(category=c.get('category', 'proof'), text=c['text'], design_ref=c.get('design_ref', 'DESIGN.md section 5')),
            level_note=c['note'],
            technique=c.get('technique', 'contract-based deductive verification (Verus/Z3) of functions extracted mechanically from /repo on every run'),
        ))
    na = [dict(property_id=p, reason=r) for p, r in claims.NOT_APPLICABLE.items() if p not in registry.PROPERTIES]
    m = dict(
        version=1,
        setup_cmd='bin/setup',
        hooks=dict(guard='getsentry_rust_sourcemap_verif',
                   enable='no hooks exist in /repo: Verus works on text extracted from /repo/src and the bounded harnesses use the public API (RUSTFLAGS="--cfg getsentry_rust_sourcemap_verif" is reserved and unused)',
                   baseline_off_cmd='cd /repo && cargo test --workspace --no-fail-fast --offline',
                   source_commits=claims.HOOK_COMMITS, add_only=True),
        engines=[dict(name='verus-contracts', path='/verif/vx', serves_properties=registry.PROPERTIES,
                      kind_free_text='Python extractor/splicer + contract overlays (contracts/*.ctr) + spec library (spec/*.rs) + trusted shims (prelude/*.rs); Verus 0.2026.09.13 discharges every obligation'),
                 dict(name='bounded-stand-ins', path='/verif/bounded', serves_properties=claims.BOUNDED_PROPS,
                      kind_free_text='Rust crate of exhaustive enumeration harnesses with plain-Rust reference implementations, run on the real crate through its public API: stand-in for items whose proof is lost on a changed tree, counterexamples for failed obligations, labelled bounded stand-ins for parts outside the contracts (never counted as proved)')],
        checks=checks,
        notes=claims.NOTES,
        not_applicable=na,
    )
    json.dump(m, open(os.path.join(os.path.dirname(os.path.dirname(os.path.abspath(__file__))), 'MANIFEST.json'), 'w'), indent=1)

if __name__ == '__main__':
    main()
