"""Rust-aware text scanner, item extractor and structural splicer.

Nothing here parses Rust fully.  It works on a *mask* of the source (same
length; comment text and the contents of string / char literals blanked) so
that brace matching and keyword search cannot be fooled by literals, and it
copies text verbatim from the original.

Every failure to find something raises LostAnchor, which the driver turns into
exit status 2 (undecided), never into an alarm.
"""
import re


class LostAnchor(Exception):
    pass


def mask(src):
    """Return a string of the same length with comments and literal contents
    replaced by spaces (newlines kept)."""
    out = list(src)
    n = len(src)
    i = 0

    def blank(a, b):
        for k in range(a, b):
            if out[k] != '\n':
                out[k] = ' '

    while i < n:
        c = src[i]
        if src.startswith('//', i):
            j = src.find('\n', i)
            if j < 0:
                j = n
            blank(i, j)
            i = j
            continue
        if src.startswith('/*', i):
            depth = 1
            j = i + 2
            while j < n and depth > 0:
                if src.startswith('/*', j):
                    depth += 1
                    j += 2
                elif src.startswith('*/', j):
                    depth -= 1
                    j += 2
                else:
                    j += 1
            blank(i, j)
            i = j
            continue
        # raw strings r"..", r#".."#, br".."
        m = re.match(r'b?r(#*)"', src[i:i + 40]) if c in 'br' else None
        if m and (i == 0 or not (src[i - 1].isalnum() or src[i - 1] == '_')):
            hashes = m.group(1)
            start = i + len(m.group(0))
            end = src.find('"' + hashes, start)
            if end < 0:
                raise LostAnchor('unterminated raw string')
            blank(start, end)
            i = end + 1 + len(hashes)
            continue
        if c == '"' or (c == 'b' and src.startswith('b"', i) and (i == 0 or not (src[i - 1].isalnum() or src[i - 1] == '_'))):
            j = i + (2 if c == 'b' else 1)
            start = j
            while j < n and src[j] != '"':
                if src[j] == '\\':
                    j += 1
                j += 1
            blank(start, j)
            i = j + 1
            continue
        if c == "'" or (c == 'b' and src.startswith("b'", i) and (i == 0 or not (src[i - 1].isalnum() or src[i - 1] == '_'))):
            k = i + (1 if c == 'b' else 0)
            m = re.match(r"'(\\x[0-9a-fA-F]{2}|\\u\{[0-9a-fA-F_]+\}|\\.|[^\\'\n])'", src[k:k + 16])
            if m:
                blank(k + 1, k + len(m.group(0)) - 1)
                i = k + len(m.group(0))
                continue
            # lifetime or label
            i = k + 1
            continue
        i += 1
    return ''.join(out)


def match_close(msk, i, open_ch='{', close_ch='}'):
    """msk[i] == open_ch; return index of the matching close."""
    assert msk[i] == open_ch, (msk[i - 10:i + 10], open_ch)
    depth = 0
    for k in range(i, len(msk)):
        ch = msk[k]
        if ch == open_ch:
            depth += 1
        elif ch == close_ch:
            depth -= 1
            if depth == 0:
                return k
    raise LostAnchor('unbalanced %s' % open_ch)


def depth_at(msk, upto, start=0):
    """(brace, paren, bracket) nesting depth of position upto relative to start."""
    b = p = k = 0
    for ch in msk[start:upto]:
        if ch == '{':
            b += 1
        elif ch == '}':
            b -= 1
        elif ch == '(':
            p += 1
        elif ch == ')':
            p -= 1
        elif ch == '[':
            k += 1
        elif ch == ']':
            k -= 1
    return b, p, k


def find_depth0(msk, pattern, start, end, want=None):
    """Iterate regex matches of `pattern` in msk[start:end] that sit at nesting
    depth 0 (all three kinds) relative to `start`."""
    rx = re.compile(pattern)
    b = p = k = 0
    pos = start
    for m in rx.finditer(msk, start, end):
        for ch in msk[pos:m.start()]:
            if ch == '{':
                b += 1
            elif ch == '}':
                b -= 1
            elif ch == '(':
                p += 1
            elif ch == ')':
                p -= 1
            elif ch == '[':
                k += 1
            elif ch == ']':
                k -= 1
        pos = m.start()
        if b == 0 and p == 0 and k == 0:
            yield m


class Source:
    def __init__(self, path):
        self.path = path
        self.text = open(path, encoding='utf-8').read()
        self.mask = mask(self.text)

    def line_of(self, off):
        return self.text.count('\n', 0, off) + 1

    # ---- item location -------------------------------------------------
    def _extend_back_over_attrs(self, start, lo):
        """Move `start` back over preceding attribute / doc-comment lines."""
        t = self.text
        cur = t.rfind('\n', lo, start) + 1 if t.rfind('\n', lo, start) >= 0 else lo
        cur = max(cur, lo)
        # cur = beginning of the line containing start
        while cur > lo:
            prev_end = cur - 1
            prev_start = t.rfind('\n', lo, prev_end) + 1
            if prev_start < lo:
                prev_start = lo
            line = t[prev_start:prev_end].strip()
            if line.startswith('#[') or line.startswith('///') or line.startswith('//!') or line.startswith('//'):
                cur = prev_start
            elif line.endswith(']') and '#[' not in line and line and not line.endswith(';'):
                # continuation of a multi-line attribute: be conservative, stop
                break
            else:
                break
        return cur

    def find_block_item(self, header_rx, lo=0, hi=None, nth=0, what=''):
        """Find an item whose header matches header_rx at brace depth 0 relative
        to lo and that ends with a {...} block.  Returns (start, body_open, end)."""
        hi = len(self.text) if hi is None else hi
        ms = list(find_depth0(self.mask, header_rx, lo, hi))
        if len(ms) <= nth:
            raise LostAnchor('item not found: %s in %s (%d matches)' % (what or header_rx, self.path, len(ms)))
        m = ms[nth]
        # body: first '{' at paren/bracket depth 0 after header start
        p = k = a = 0
        i = m.start()
        while i < hi:
            ch = self.mask[i]
            if ch == '(':
                p += 1
            elif ch == ')':
                p -= 1
            elif ch == '[':
                k += 1
            elif ch == ']':
                k -= 1
            elif ch == ';' and p == 0 and k == 0:
                raise LostAnchor('item %s has no body' % what)
            elif ch == '{' and p == 0 and k == 0:
                break
            i += 1
        if i >= hi:
            raise LostAnchor('no body for %s' % what)
        end = match_close(self.mask, i)
        start = self._extend_back_over_attrs(m.start(), lo)
        return start, i, end + 1

    def find_semi_item(self, header_rx, lo=0, hi=None, what=''):
        """const / static / type items ending in ';'."""
        hi = len(self.text) if hi is None else hi
        ms = list(find_depth0(self.mask, header_rx, lo, hi))
        if not ms:
            raise LostAnchor('item not found: %s in %s' % (what or header_rx, self.path))
        m = ms[0]
        for s in find_depth0(self.mask, r';', m.start(), hi):
            start = self._extend_back_over_attrs(m.start(), lo)
            return start, s.end()
        raise LostAnchor('unterminated item %s' % what)


VIS = r'(?:pub(?:\s*\([^)]*\))?\s+)?'
FN_HDR = r'(?m)^[ \t]*' + VIS + r'(?:const\s+)?(?:unsafe\s+)?fn\s+%s\b'


class Fn:
    """A function's text with structural anchors.  All edits are queued and
    applied at once by render()."""

    def __init__(self, text, origin=None, name=None):
        self.text = text
        self.origin = origin or {}
        self.name = name
        self._rescan()
        self.inserts = []   # (offset, order, text)
        self.replaces = []  # (start, end, text)

    def _rescan(self):
        self.mask = mask(self.text)
        m = re.search(r'\bfn\s+([A-Za-z_][A-Za-z0-9_]*)', self.mask)
        if not m:
            raise LostAnchor('not a function: %r' % self.text[:60])
        self.fn_kw = m.start()
        if self.name is None:
            self.name = m.group(1)
        # body open: first '{' at paren/bracket/angle-free depth 0 after the parameter list
        i = m.end()
        while self.mask[i].isspace():
            i += 1
        if self.mask[i] == '<':
            # generic parameter list: match angle brackets, ignoring the '>' of '->'
            d = 0
            while i < len(self.mask):
                ch = self.mask[i]
                if ch == '<':
                    d += 1
                elif ch == '>' and self.mask[i - 1] != '-':
                    d -= 1
                    if d == 0:
                        i += 1
                        break
                i += 1
        i = self.mask.index('(', i)
        close = match_close(self.mask, i, '(', ')')
        self.params_span = (i, close + 1)
        j = close + 1
        p = k = 0
        while j < len(self.mask):
            ch = self.mask[j]
            if ch == '(':
                p += 1
            elif ch == ')':
                p -= 1
            elif ch == '[':
                k += 1
            elif ch == ']':
                k -= 1
            elif ch == '{' and p == 0 and k == 0:
                break
            j += 1
        self.body_open = j
        self.body_close = match_close(self.mask, j)
        sig_tail = self.mask[close + 1:j]
        am = re.search(r'->', sig_tail)
        self.ret_span = None
        if am:
            rs = close + 1 + am.end()
            wm = re.search(r'\bwhere\b', self.mask[rs:j])
            re_end = rs + wm.start() if wm else j
            self.ret_span = (close + 1 + am.start(), rs, re_end)
        self._loops = None

    # ---- pre-anchor rewrites (change the text, then rescan) -------------
    def rewrite(self, pattern, repl, expect=None, flags=0, code_only=True):
        """Regex substitution on code (matches must start outside comments /
        literals).  Returns the number of substitutions."""
        rx = re.compile(pattern, flags)
        out = []
        pos = 0
        n = 0
        for m in rx.finditer(self.text):
            if code_only and self.mask[m.start()] != self.text[m.start()]:
                continue
            out.append(self.text[pos:m.start()])
            out.append(m.expand(repl) if isinstance(repl, str) else repl(m))
            pos = m.end()
            n += 1
        out.append(self.text[pos:])
        if expect is not None:
            # fewer matches than on the reference tree are tolerated (the construct may simply be gone; if it
            # was needed Verus will say so); more matches than expected mean the rule is ambiguous here
            ok = (n <= expect) if isinstance(expect, int) else expect(n)
            if not ok:
                raise LostAnchor('rewrite %r in %s: %d matches' % (pattern, self.name, n))
        self.text = ''.join(out)
        self._rescan()
        return n

    def annotate_closure(self, param, typed, ret, nth=None, expect=None, first_stmt=''):
        """R-closure: `|param| BODY` -> `|typed| -> (ret) { BODY }` (BODY verbatim).
        `ret` may contain $BODY, replaced by the closure's own body expression, e.g.
        "o: (u32, u32)) ensures o == ($BODY" is written as ret='(o: T) ensures o == ($BODY)'.
        nth: only the nth (0-based) closure with this parameter text; default all."""
        rx = re.compile(r'\|\s*' + re.escape(param) + r'\s*\|')
        hits = [m for m in rx.finditer(self.mask)]
        if nth is not None:
            hits = hits[nth:nth + 1]
        if expect is not None and len(hits) > expect:
            raise LostAnchor('closure |%s| in %s: %d found, %d expected' % (param, self.name, len(hits), expect))
        if not hits:
            return 0
        edits = []
        for m in hits:
            j = m.end()
            while self.mask[j].isspace():
                j += 1
            if self.mask[j] == '{':
                e = match_close(self.mask, j) + 1
                body = self.text[j + 1:e - 1].strip()
            else:
                b = p = k = 0
                e = j
                while e < len(self.mask):
                    ch = self.mask[e]
                    if ch in '({[':
                        if ch == '(':
                            p += 1
                        elif ch == '{':
                            b += 1
                        else:
                            k += 1
                    elif ch in ')}]':
                        if (ch == ')' and p == 0) or (ch == '}' and b == 0) or (ch == ']' and k == 0):
                            break
                        if ch == ')':
                            p -= 1
                        elif ch == '}':
                            b -= 1
                        else:
                            k -= 1
                    elif ch in ',;' and b == 0 and p == 0 and k == 0:
                        break
                    e += 1
                body = self.text[j:e].rstrip()
            new = '|%s| -> %s { %s%s }' % (typed, ret.replace('$BODY', body), first_stmt, body)
            edits.append((m.start(), e, new))
        out = []
        pos = 0
        for a, b_, new in edits:
            out.append(self.text[pos:a])
            out.append(new)
            pos = b_
        out.append(self.text[pos:])
        self.text = ''.join(out)
        self._rescan()
        return len(edits)

    def drop_tail_continues(self):
        """R-continue (for loops only): a `continue;` after which nothing else of the loop body can
        run -- it closes its block, and from there only closing braces and skipped `else` arms
        lead to the end of the loop body -- is dropped.  Any other `continue` inside a `for`
        raises LostAnchor (unsupported shape)."""
        n = 0
        while True:
            done = True
            for l in self.loops():
                if l['kw'] != 'for':
                    continue
                for m in re.finditer(r'\bcontinue\s*;', self.mask[l['hdr_end']:l['body_close']]):
                    a = l['hdr_end'] + m.start()
                    # innermost loop owning this continue must be l
                    inner = [x for x in self.loops() if x['hdr_end'] < a < x['body_close']]
                    if inner and max(inner, key=lambda x: x['hdr_end']) is not l:
                        continue
                    j = l['hdr_end'] + m.end()
                    ok = False
                    while True:
                        while self.mask[j].isspace():
                            j += 1
                        if self.mask[j] == '}':
                            if j == l['body_close']:
                                ok = True
                                break
                            j += 1
                            continue
                        em = re.match(r'else\b', self.mask[j:])
                        if em:
                            k = self.mask.index('{', j)
                            # `else if cond {`: the first '{' at depth 0
                            p = 0
                            k = j
                            while not (self.mask[k] == '{' and p == 0):
                                if self.mask[k] == '(':
                                    p += 1
                                elif self.mask[k] == ')':
                                    p -= 1
                                k += 1
                            j = match_close(self.mask, k) + 1
                            continue
                        break
                    if not ok:
                        raise LostAnchor('%s: `continue` in a for loop is not in tail position' % self.name)
                    self.text = self.text[:a] + self.text[l['hdr_end'] + m.end():]
                    self._rescan()
                    n += 1
                    done = False
                    break
                if not done:
                    break
            if done:
                return n

    def guard_continues(self):
        """R-continue (second form, for loops only): a statement `if C { continue; }` directly in the
        body of a `for` becomes `if C {} else {` ... rest of the body ... `}`."""
        n = 0
        while True:
            hit = None
            for l in self.loops():
                if l['kw'] != 'for':
                    continue
                # statement-level `if` at depth 0 of this loop body whose block is just `continue;`
                for m in find_depth0(self.mask, r'\bif\b', l['hdr_end'] + 1, l['body_close']):
                    p = 0
                    k = m.end()
                    while not (self.mask[k] == '{' and p == 0):
                        if self.mask[k] == '(':
                            p += 1
                        elif self.mask[k] == ')':
                            p -= 1
                        k += 1
                    e = match_close(self.mask, k)
                    if re.fullmatch(r'\s*continue\s*;\s*', self.mask[k + 1:e]) and not re.match(r'\s*else\b', self.mask[e + 1:]):
                        hit = (l, k, e)
                        break
                if hit:
                    break
            if not hit:
                return n
            l, k, e = hit
            bc = l['body_close']
            self.text = self.text[:k] + '{} else {' + self.text[e + 1:bc] + '}\n' + self.text[bc:]
            self._rescan()
            n += 1

    def enclosing_block(self, pos):
        """Innermost {...} block around pos: (open, close)."""
        depth = 0
        k = pos - 1
        while k >= 0:
            ch = self.mask[k]
            if ch == '}':
                depth += 1
            elif ch == '{':
                if depth == 0:
                    return k, match_close(self.mask, k)
                depth -= 1
            k -= 1
        raise LostAnchor('no enclosing block')

    def flag_continues(self):
        """R-continue (third form, for loops only): a `continue;` nested in if/else blocks becomes
        `skip__k = true;`; at every block level between it and the loop body the statements that
        follow are wrapped in `if !skip__k { ... }`; `let mut skip__k = false;` opens the loop body."""
        n = 0
        while True:
            target = None
            for l in self.loops():
                if l['kw'] != 'for':
                    continue
                for m in re.finditer(r'\bcontinue\s*;', self.mask[l['hdr_end']:l['body_close']]):
                    a = l['hdr_end'] + m.start()
                    inner = [x for x in self.loops() if x['hdr_end'] < a < x['body_close']]
                    if max(inner, key=lambda x: x['hdr_end']) is l:
                        target = (l, a, l['hdr_end'] + m.end())
                        break
                if target:
                    break
            if not target:
                return n
            l, a, e = target
            flag = 'skip__%d' % n
            edits = [(a, e, '%s = true;' % flag)]
            pos = a
            while True:
                o, c = self.enclosing_block(pos)
                st = self.block_stmts(o, c)
                cur = [x for x in st if x[0] <= pos < x[1]]
                if not cur:
                    raise LostAnchor('%s: cannot place continue flag' % self.name)
                after = [x for x in st if x[0] >= cur[0][1]]
                if after:
                    edits.append((after[0][0], after[0][0], 'if !%s { ' % flag))
                    edits.append((after[-1][1], after[-1][1], ' }'))
                if o == l['hdr_end']:
                    break
                pos = o
            edits.append((l['hdr_end'] + 1, l['hdr_end'] + 1, ' let mut %s = false;' % flag))
            edits.sort(key=lambda x: (x[0], x[1]), reverse=True)
            t = self.text
            for s_, e_, new in edits:
                t = t[:s_] + new + t[e_:]
            self.text = t
            self._rescan()
            n += 1

    def strip_attrs_and_docs(self):
        """R-attr: drop doc comments and the listed harmless attributes in front
        of the fn and inside it."""
        n = 0
        lines = self.text.split('\n')
        keep = []
        for ln in lines:
            s = ln.strip()
            if s.startswith('///') or s.startswith('//!'):
                n += 1
                continue
            if re.match(r'#\[(inline(\([a-z]+\))?|allow\([^\]]*\)|must_use|doc[^\]]*|cfg\(any\(unix, windows, target_os = "redox"\)\))\]$', s):
                n += 1
                continue
            keep.append(ln)
        self.text = '\n'.join(keep)
        self._rescan()
        return n

    def let_tail(self, var='out__'):
        """R-let-tail: the tail expression E of the body becomes `let out__ = E; out__` so that a closing proof block can name the value."""
        st = self.top_level_stmts()
        if not st or self.mask[st[-1][1] - 1] == ';':
            raise LostAnchor('%s: no tail expression' % self.name)
        a, b = st[-1]
        ind = re.match(r'[ \t]*', self.text[self.text.rfind('\n', 0, a) + 1:]).group(0)
        self.text = self.text[:a] + 'let %s = %s;\n%s%s' % (var, self.text[a:b], ind, var) + self.text[b:]
        self._rescan()
        return 1

    # ---- anchors ---------------------------------------------------------
    def loops(self):
        """Loops in the body in order of appearance: list of dicts with
        kw, kw_pos (start incl. label), hdr_end (= body '{' pos), body_close."""
        if self._loops is not None:
            return self._loops
        res = []
        rx = re.compile(r"(?<![\w.'])(?:'[a-z_][a-z0-9_]*\s*:\s*)?\b(for|while|loop)\b")
        for m in rx.finditer(self.mask, self.body_open, self.body_close):
            kw = m.group(1)
            after = m.end()
            if kw == 'for':
                if not re.match(r'\s+[^;{]*?\bin\b', self.mask[after:self.body_close], re.S):
                    continue
                if re.match(r'\s*<', self.mask[after:]):
                    continue
            if kw == 'loop' and not re.match(r'\s*\{', self.mask[after:]):
                continue
            # header ends at first '{' at paren/bracket depth 0
            p = k = 0
            j = after
            while j < self.body_close:
                ch = self.mask[j]
                if ch == '(':
                    p += 1
                elif ch == ')':
                    p -= 1
                elif ch == '[':
                    k += 1
                elif ch == ']':
                    k -= 1
                elif ch == '{' and p == 0 and k == 0:
                    break
                j += 1
            if j >= self.body_close:
                raise LostAnchor('loop without body in %s' % self.name)
            res.append(dict(kw=kw, kw_pos=m.start(), kw_end=m.end(), hdr_end=j,
                            body_close=match_close(self.mask, j)))
        self._loops = res
        return res

    def loop(self, k):
        ls = self.loops()
        if k < 1 or k > len(ls):
            raise LostAnchor('%s: loop %d not found (%d loops)' % (self.name, k, len(ls)))
        return ls[k - 1]

    def stmt_start_before(self, pos):
        """Start of the line holding pos (used to put ghost code before a loop)."""
        return self.text.rfind('\n', 0, pos) + 1

    def top_level_stmts(self):
        """Spans of the body's top-level statements (and tail expression)."""
        return self.block_stmts(self.body_open, self.body_close)

    def block_stmts(self, open_pos, close_pos):
        """Spans of the statements (and tail expression) directly inside the block open_pos..close_pos."""
        res = []
        i = open_pos + 1
        end = close_pos
        msk = self.mask
        n = end
        cur = None
        b = p = k = 0
        j = i
        while j < n:
            ch = msk[j]
            if cur is None:
                if ch.isspace():
                    j += 1
                    continue
                cur = j
            if ch == '{':
                b += 1
            elif ch == '}':
                b -= 1
                if b == 0 and p == 0 and k == 0:
                    # block-like statement ends here unless followed by ; . ? or else / operators
                    rest = msk[j + 1:n]
                    m = re.match(r'\s*(else\b|;|\.|\?|as\b|[-+*/|&^=<>])', rest)
                    head = msk[cur:j]
                    blocklike = re.match(r"(?:'[a-z_]+\s*:\s*)?(if|for|while|loop|match|unsafe|\{)", head.lstrip()) is not None
                    if blocklike and not m:
                        res.append((cur, j + 1))
                        cur = None
                    elif m and m.group(1) == ';' and blocklike:
                        pass
            elif ch == '(':
                p += 1
            elif ch == ')':
                p -= 1
            elif ch == '[':
                k += 1
            elif ch == ']':
                k -= 1
            elif ch == ';' and b == 0 and p == 0 and k == 0:
                res.append((cur, j + 1))
                cur = None
            j += 1
        if cur is not None:
            # tail expression
            t = end
            while t > cur and msk[t - 1].isspace():
                t -= 1
            res.append((cur, t))
        return res

    # ---- queued edits ------------------------------------------------------
    def insert(self, off, text, order=0):
        self.inserts.append((off, order, text))

    def replace(self, start, end, text):
        self.replaces.append((start, end, text))

    def name_result(self, res='res'):
        if self.ret_span is None:
            return
        a, rs, re_end = self.ret_span
        ty = self.text[rs:re_end].strip()
        self.replace(rs, re_end, ' (%s: %s)\n' % (res, ty))

    def add_sig(self, clauses_text):
        # after the return type (and before where-clause is not supported)
        self.insert(self.body_open, '\n' + clauses_text.rstrip() + '\n', order=-1)

    def add_fn_start(self, text):
        self.insert(self.body_open + 1, '\n' + text.rstrip() + '\n', order=0)

    def add_fn_end(self, text):
        st = self.top_level_stmts()
        if not st:
            raise LostAnchor('%s: empty body for fn-end' % self.name)
        last = st[-1]
        if self.mask[last[1] - 1] == ';':
            pos = self.body_close
            pos = self.text.rfind('\n', 0, pos) + 1
        else:
            pos = self.stmt_start_before(last[0])
        self.insert(pos, text.rstrip() + '\n', order=5)

    def add_attr(self, text):
        pos = self.text.rfind('\n', 0, self.fn_kw) + 1
        ind = re.match(r'\s*', self.text[pos:]).group(0)
        self.insert(pos, ''.join(ind + l.strip() + '\n' for l in text.strip().split('\n')), order=-5)

    def stmt_anchor(self, k, nm, where, prefix, text):
        """Structural statement anchor: statement n of exactly m statements directly inside the body of loop k
        (k None: the function body).  A different statement count, or a statement that does not start with the
        given code prefix (whitespace-insensitive), is a lost anchor -- never a failed proof."""
        n, m = (int(x) for x in nm.split('/'))
        if k is None:
            st = self.top_level_stmts()
            what = 'body'
        else:
            l = self.loop(k)
            st = self.block_stmts(l['hdr_end'], l['body_close'])
            what = 'loop %d' % k
        if len(st) != m:
            raise LostAnchor('%s: %s has %d statements, overlay expects %d' % (self.name, what, len(st), m))
        a, b = st[n - 1]
        if prefix:
            got = ''.join(self.text[a:b].split())
            if not got.startswith(''.join(prefix.split())):
                raise LostAnchor('%s: statement %d of %s does not start with %r' % (self.name, n, what, prefix))
        if where == 'before':
            self.insert(self.stmt_start_before(a), text.rstrip() + '\n', order=5)
        elif where == 'after':
            self.insert(b, '\n' + text.rstrip() + '\n', order=5)
        else:
            raise ValueError('stmt anchor: before|after expected')

    def exits(self):
        """`break` / `return` expressions in the body, in order of appearance: (start, end) spans of the expression
        (up to the `;`, `,` or closing bracket that ends it)."""
        res = []
        for m in re.finditer(r"(?<![\w.'])(break|return)\b", self.mask[:self.body_close]):
            if m.start() <= self.body_open:
                continue
            p = b = k = 0
            e = m.end()
            while e < self.body_close:
                ch = self.mask[e]
                if ch in '({[':
                    p, b, k = p + (ch == '('), b + (ch == '{'), k + (ch == '[')
                elif ch in ')}]':
                    if (ch == ')' and p == 0) or (ch == '}' and b == 0) or (ch == ']' and k == 0):
                        break
                    p, b, k = p - (ch == ')'), b - (ch == '}'), k - (ch == ']')
                elif ch in ';,' and p == 0 and b == 0 and k == 0:
                    break
                e += 1
            while e > m.end() and self.mask[e - 1].isspace():
                e -= 1
            res.append((m.start(), e))
        return res

    def exit_anchor(self, nm, prefix, text):
        """Structural anchor: the n-th of exactly m `break` / `return` expressions of the function.  The expression E becomes
        the block `{ <ghost text> E }` (same value and control flow; a block is allowed wherever the expression was:
        statement, match arm, tail).  A different count, or an expression that does not start with the given text, is a lost anchor."""
        n, m = (int(x) for x in nm.split('/'))
        ex = self.exits()
        want = ' '.join(prefix.split())
        if len(ex) != m:
            # another number of exits than on the reference tree: the anchor survives if exactly one exit has the expected text
            cands = [(a, b) for a, b in ex if want and ' '.join(self.text[a:b].split()).startswith(want)]
            if len(cands) != 1:
                raise LostAnchor('%s: %d break/return expressions, overlay expects %d' % (self.name, len(ex), m))
            a, b = cands[0]
        else:
            a, b = ex[n - 1]
        got = ' '.join(self.text[a:b].split())
        if want and not got.startswith(want):
            raise LostAnchor('%s: exit %d is %r, overlay expects %r' % (self.name, n, got, prefix))
        self.replace(a, b, '{\n' + text.rstrip() + '\n' + self.text[a:b] + ' }')

    def loop_pre(self, k, text):
        l = self.loop(k)
        self.insert(self.stmt_start_before(l['kw_pos']), text.rstrip() + '\n', order=5)

    def loop_post(self, k, text):
        l = self.loop(k)
        self.insert(l['body_close'] + 1, '\n' + text.rstrip() + '\n', order=5)

    def loop_inv(self, k, text):
        l = self.loop(k)
        self.insert(l['hdr_end'], '\n' + text.rstrip() + '\n', order=0)

    def loop_iter_name(self, k, name='it'):
        l = self.loop(k)
        if l['kw'] != 'for':
            raise LostAnchor('%s: loop %d is not a for loop' % (self.name, k))
        ms = list(find_depth0(self.mask, r'\bin\b', l['kw_end'], l['hdr_end']))
        if not ms:
            raise LostAnchor('%s: loop %d has no `in`' % (self.name, k))
        self.insert(ms[0].end(), ' %s:' % name, order=0)

    def loop_body_start(self, k, text):
        l = self.loop(k)
        pos = l['hdr_end'] + 1
        # stay behind the `let x = *x__r;` that R-refpat puts first in the body
        m = re.match(r'(\s*let [a-z_][a-z0-9_]* = \*[a-z_][a-z0-9_]*__r;)+', self.text[pos:])
        if m:
            pos += m.end()
        self.insert(pos, '\n' + text.rstrip() + '\n', order=1)

    def loop_body_end(self, k, text):
        l = self.loop(k)
        pos = self.text.rfind('\n', 0, l['body_close']) + 1
        self.insert(pos, text.rstrip() + '\n', order=-1)

    def render(self):
        edits = []
        for off, order, text in self.inserts:
            edits.append((off, off, order, text))
        for s, e, text in self.replaces:
            edits.append((s, e, -10, text))
        # apply from the back; among equal offsets keep 'order' ascending in the output
        edits.sort(key=lambda x: (x[0], x[2]))
        out = []
        pos = 0
        for s, e, order, text in edits:
            if s < pos:
                raise LostAnchor('%s: overlapping edits' % self.name)
            out.append(self.text[pos:s])
            out.append(text)
            pos = e
        out.append(self.text[pos:])
        return ''.join(out)


def split_clauses(text):
    """Split the text of a requires/ensures/invariant block at depth-0 commas.
    Returns list of clause strings (comments kept with the clause they precede)."""
    msk = mask(text)
    parts = []
    b = p = k = 0
    last = 0
    for i, ch in enumerate(msk):
        if ch in '{':
            b += 1
        elif ch == '}':
            b -= 1
        elif ch == '(':
            p += 1
        elif ch == ')':
            p -= 1
        elif ch == '[':
            k += 1
        elif ch == ']':
            k -= 1
        elif ch == '|' :
            pass
        elif ch == ',' and b == 0 and p == 0 and k == 0:
            parts.append(text[last:i])
            last = i + 1
    tail = text[last:]
    if mask(tail).strip():
        parts.append(tail)
    return [x for x in parts if mask(x).strip()]
