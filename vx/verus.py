"""Run Verus on one generated file and parse its machine-readable output."""
import json
import os
import subprocess
import time

VERUS = os.environ.get('VERIF_VERUS', 'verus')

# messages of genuine proof failures (an obligation the solver could not discharge)
PROOF_FAIL = (
    'postcondition not satisfied',
    'precondition not satisfied',
    'invariant not satisfied',
    'assertion failed',
    'possible arithmetic underflow/overflow',
    'possible division by zero',
    'possible bit shift underflow/overflow',
    'loop invariant',
    'decreases not satisfied',
    'could not prove termination',
    'failed this postcondition',
    'loop ensures',
    'index out of bounds',
    'unwrap',
    'unreachable',
    'cannot show invariant',
    'recommendation not met',
    'assert_by_compute',
    'bit-vector',
    'nonlinear',
    'constructor of a datatype',
    'possible integer overflow',
    'call to non-static function may panic',
    'possible out-of-bounds',
)
RESOURCE = ('resource limit', 'rlimit', 'timed out', 'timeout', 'Verus Internal Error', 'solver')


def verus_version():
    try:
        out = subprocess.run([VERUS, '--version'], capture_output=True, text=True, timeout=60).stdout
        for ln in out.split('\n'):
            if 'Version:' in ln:
                return ln.split('Version:')[1].strip()
    except Exception:
        pass
    return 'unknown'


def run(path, rlimit=30, multiple_errors=6, extra=None, timeout=1500, threads=None):
    # -V spinoff-all: every function gets a fresh Z3 instance, so a verdict never depends on which other
    # functions share the file or on thread scheduling (a change in one function cannot flip another's result)
    cmd = [VERUS, path, '--output-json', '--time', '--error-format=json', '-V', 'spinoff-all',
           '--multiple-errors', str(multiple_errors), '--rlimit', str(rlimit)]
    if threads:
        cmd += ['--num-threads', str(threads)]
    if extra:
        cmd += extra
    t0 = time.time()
    try:
        p = subprocess.run(cmd, capture_output=True, text=True, timeout=timeout,
                           cwd=os.path.dirname(path) or '.')
        rc, out, err = p.returncode, p.stdout, p.stderr
        timed_out = False
    except subprocess.TimeoutExpired as e:
        rc, out, err = 124, (e.stdout or b'').decode('utf-8', 'replace') if isinstance(e.stdout, bytes) else (e.stdout or ''), ''
        timed_out = True
    wall = time.time() - t0
    res = dict(cmd=' '.join(cmd), rc=rc, wall_s=round(wall, 2), timed_out=timed_out,
               functions={}, diags=[], verified=0, errors=0, front_end_error=False,
               resource_out=False, raw_stderr_tail=err[-4000:])
    js = None
    try:
        js = json.loads(out)
    except Exception:
        # sometimes notes precede the JSON
        i = out.find('{')
        if i >= 0:
            try:
                js = json.loads(out[i:])
            except Exception:
                js = None
    if js is not None:
        vr = js.get('verification-results', {})
        res['verified'] = vr.get('verified', 0)
        res['errors'] = vr.get('errors', 0)
        res['success'] = bool(vr.get('success'))
        res['encountered_vir_error'] = bool(vr.get('encountered-vir-error'))
        res['encountered_error'] = bool(vr.get('encountered-error'))
        smt = js.get('times-ms', {}).get('smt', {})
        res['smt_ms'] = smt.get('smt-run', 0)
        for m in smt.get('smt-run-module-times', []):
            for f in m.get('function-breakdown', []):
                name = f['function']
                e = res['functions'].setdefault(name, dict(time_ms=0, rlimit=0, success=True, mode=f.get('mode:', '')))
                e['time_ms'] += f.get('time', 0)
                e['rlimit'] += f.get('rlimit', 0)
                e['success'] = e['success'] and bool(f.get('success'))
    else:
        res['success'] = False
    for ln in err.split('\n'):
        ln = ln.strip()
        if not ln.startswith('{'):
            continue
        try:
            d = json.loads(ln)
        except Exception:
            continue
        if d.get('$message_type') not in (None, 'diagnostic'):
            continue
        spans = [dict(line_start=s['line_start'], line_end=s['line_end'], primary=s['is_primary'],
                      label=s.get('label'), text=(s.get('text') or [{}])[0].get('text', '').strip() if s.get('text') else '')
                 for s in d.get('spans', [])]
        res['diags'].append(dict(level=d.get('level'), message=d.get('message', ''), spans=spans,
                                 rendered=(d.get('rendered') or '')[:1500]))
    # classify
    errs = [d for d in res['diags'] if d['level'] == 'error' and not d['message'].startswith('aborting due to')]
    res['proof_failures'] = []
    res['other_errors'] = []
    for d in errs:
        msg = d['message']
        low = msg.lower()
        if any(k in low for k in ('resource limit', 'rlimit', 'timed out')):
            res['resource_out'] = True
            res['other_errors'].append(d)
        elif any(k in low for k in PROOF_FAIL):
            res['proof_failures'].append(d)
        else:
            res['other_errors'].append(d)
    if js is None or (res['other_errors'] and not res['resource_out']) or (not res.get('success') and not res['proof_failures'] and not res['resource_out']):
        if not res['resource_out']:
            res['front_end_error'] = True
    return res
