import re,sys
def tok(s):
    return re.findall(r'"(?:[^"\\]|\\.)*"|[()]|[^\s()]+', s)
def parse(ts):
    st=[[]]
    for t in ts:
        if t=='(': st.append([])
        elif t==')':
            x=st.pop(); st[-1].append(x)
        else: st[-1].append(t)
    return st[0]
def strip(x):
    # remove span wrappers (@ "..." X) and (@@ "..." X)
    if isinstance(x,list):
        if len(x)>=3 and x[0] in ('@','@@') : return strip(x[2]) if len(x)==3 else [strip(y) for y in x[2:]]
        return [strip(y) for y in x]
    return x
def kw(x,k):
    if isinstance(x,list):
        for i,y in enumerate(x):
            if y==k and i+1<len(x): return x[i+1]
    return None
def e(x):
    if not isinstance(x,list): return x
    if not x: return '()'
    if len(x)==2 and isinstance(x[1],list) and x[1] and x[1][0]=='Typ': return e(x[0])
    if x[0]=='Logical': return '(%s %s %s)'%(e(x[2]), x[1][1] if isinstance(x[1],list) else x[1], e(x[3]))
    if x[0]=='Constant': return str(x[-1])
    if x[0]=='Clip' : return e(x[-1])
    if x[0]=='>' : return e(x[1:]) if len(x)>2 else e(x[1])
    h=x[0]
    if h=='Var': return x[1][1].strip('"') if isinstance(x[1],list) else str(x[1])
    if h=='Const': return ' '.join(map(e,x[1:]))
    if h=='Binary':
        op=' '.join(str(t) for t in (x[1] if isinstance(x[1],list) else [x[1]]))
        return '(%s {%s} %s)'%(e(x[2]),op,e(x[3]))
    if h=='Unary' and isinstance(x[1],list) and x[1] and x[1][0]=='UnaryOp' and x[1][1]=='Clip': return e(x[-1])
    if h=='Unary': return '%s(%s)'%(' '.join(map(str,x[1][1:2])) if isinstance(x[1],list) else x[1], e(x[-1])) 
    if h=='Call':
        tgt=kw(x,':target'); name='?'
        s=str(tgt); m=re.findall(r"Fun', ':path', '([^']+)'",s)
        name=m[-1] if m else s[:40]
        args=kw(x,':args')
        return '%s(%s)'%(name.split('::')[-1] if True else name, ', '.join(e(a) for a in (args or [])))
    if h=='If': return 'if %s {%s} else {%s}'%(e(x[1]),e(x[2]),e(x[3]) if len(x)>3 else '')
    if h=='ReadPlace': return e(x[1])
    if h=='Place': return e(x[2]) if x[1]=='Local' else ' '.join(e(y) for y in x[1:])
    if h=='VarIdent': return x[1].strip('"')
    if h=='Block': return '{ '+' ; '.join(e(y) for y in x[1:])+' }'
    if h=='Quant' or h=='Bind': return '%s[%s]'%(h,' '.join(e(y) for y in x[1:]))
    return '('+' '.join(e(y) for y in x)+')'
t=open(sys.argv[1]).read()
names=sys.argv[2:]
tree=strip(parse(tok(t)))
def walk(x):
    if isinstance(x,list):
        if x and x[0]=='Function':
            nm=kw(x,':name'); p=nm[2] if isinstance(nm,list) else ''
            if any(p.endswith(n) for n in names):
                print('=====',p, kw(x,':mode'))
                ps=kw(x,':params') or []
                print(' params:',', '.join('%s'%(e(kw(q,':name'))) for q in ps))
                print(' require:',[e(y) for y in (kw(x,':require') or [])])
                print(' ensure:',e(kw(x,':ensure')))
                print(' decrease:',e(kw(x,':decrease')))
                print(' body:',e(kw(x,':body'))[:3000])
            return
        for y in x: walk(y)
walk(tree)
